(* Props/C19.v — Unused-declaration lint is exact where usage is known.
   Statements only: each theorem is closed by `exact` of a lemma proved in Lint/DeadCodeProofs.v,
   pinned by `Check`, and followed by `Print Assumptions`.

   Reading of the property.  A unit group (primary unit + its secondary units) is given by the
   Searcher callbacks its traversal produces (`group_events`); the use relation "by construction" is
   `referenced_in`.  `unused_spec evs d` = d is declared in the group, is eligible (the property's list;
   a body inherits the ineligibility of its declaration) and neither d nor the other half of its
   declaration/body pair is referenced.  Well-formedness `wf_events` (ids identify entities; DeclaredBy
   links have depth one) is tested on every real case by the extracted `wf_events_b`. *)
From Coq Require Import List NArith Bool.
Import ListNotations.
From RH Require Import Lint.DeadCode Lint.DeadCodeProofs.
Open Scope N_scope.

(* The lint of one unit group reports exactly the eligible, unreferenced declarations, each once. *)
Theorem C19_unused_exact :
  forall g, wf_events (group_events g) ->
    (forall d, In d (find_unused_declarations g) <-> unused_spec (group_events g) d)
    /\ NoDup (map eid (find_unused_declarations g)).
Proof. exact unused_exact. Qed.

(* can_be_locally_unused decides the property's eligibility list. *)
Theorem C19_eligible_decided : forall d, can_be_locally_unused d = true <-> eligible d.
Proof. exact can_be_locally_unused_iff. Qed.

(* Declaration or body referenced => neither half is reported (no well-formedness needed). *)
Theorem C19_pair_rule :
  forall g r d, referenced_in (group_events g) r -> eid (root_of r) = eid (root_of d) ->
    ~ In d (find_unused_declarations g).
Proof. exact pair_rule. Qed.

(* ... in the explicit form: body `b` of declaration `h`. *)
Theorem C19_pair_rule_explicit :
  forall g h b, erelated b = DeclaredBy h -> erelated h = RelNone ->
    referenced_in (group_events g) h \/ referenced_in (group_events g) b ->
    ~ In h (find_unused_declarations g) /\ ~ In b (find_unused_declarations g).
Proof. exact pair_rule_explicit. Qed.

(* The executable well-formedness test used by the runner is sound. *)
Theorem C19_wf_sound : forall evs, wf_events_b evs = true -> wf_events evs.
Proof. exact wf_events_b_sound. Qed.

(* Linter: what is emitted is exactly the cached diagnostics of the libraries configured as
   not third party. *)
Theorem C19_emit_exact :
  forall cfg c dg, In dg (emit cfg c) <->
    exists k ds, In (k, ds) c /\ cfg (fst k) = Some false /\ In dg ds.
Proof. exact emit_exact. Qed.

(* Every emitted diagnostic belongs to a cached unit of a library configured as not third party:
   nothing is reported for a third-party library (or a library without configuration). *)
Theorem C19_third_party_silent :
  forall c rt cfg an dg, In dg (snd (lint c rt cfg an)) ->
    exists k ds, In (k, ds) (fst (lint c rt cfg an)) /\ cfg (fst k) = Some false /\ In dg ds.
Proof. exact third_party_silent. Qed.

Theorem C19_all_third_party_silent :
  forall c rt cfg an, (forall l, cfg l <> Some false) -> snd (lint c rt cfg an) = [].
Proof. exact all_third_party_silent. Qed.

(* One analyse() call: if the cache was exact for the previous root and DesignRoot::analyze reported
   every key whose units changed, the cache is exact for the new root, holds exactly the analysed
   keys (whose library exists) and the surviving old keys, and the output is exactly the lint of
   the current content of every cached non-third-party key. *)
Theorem C19_lint_step :
  forall c rt_old rt cfg an,
    cache_ok c rt_old -> analyzed_covers rt_old rt an ->
    let c' := fst (lint c rt cfg an) in
    let out := snd (lint c rt cfg an) in
    cache_ok c' rt
    /\ (forall k, cache_mem k c' = true <->
                  (In k an /\ rt (fst k) <> None)
                  \/ (cache_mem k c = true /\ ~ In k an /\ primary_exists rt k = true))
    /\ (forall dg, In dg out <->
          exists k, cache_mem k c' = true /\ cfg (fst k) = Some false
                    /\ In dg (diags_of (find_unused_declarations (group_of rt k)))).
Proof. exact lint_step. Qed.

(* Whole histories of analyse() calls starting from the empty project: at every step the output is
   exactly { (decl_pos d, id d) | k existing unit key of a non-third-party library, d in
   unused_spec of k's current events }.  `history_ok`: analyze reports every changed key, and every
   analysed key of an existing library has its primary unit (no orphan secondary units: the
   generated units analyse without errors). *)
Theorem C19_history_exact :
  forall steps, history_ok empty_root steps -> history_wf steps ->
    Forall2 (fun out step => forall dg, In dg out <-> spec_output (fst (fst step)) (snd (fst step)) dg)
            (lint_history [] steps) steps.
Proof. exact history_exact. Qed.

(* ---------------------------------------------------------------------------------------------- *)
(* Refuted mutations of the mechanism and the pre-fix behaviour                                     *)
(* ---------------------------------------------------------------------------------------------- *)

(* Without the DeclaredBy filter a body whose declaration is referenced would be reported. *)
Theorem C19_nofilter_refuted :
  exists g d, wf_events (group_events g)
              /\ In d (unused_of_searcher_nofilter (run_searcher g))
              /\ ~ unused_spec (group_events g) d.
Proof. exact nofilter_refuted. Qed.

(* Without the third-party filter a third-party library is reported. *)
Theorem C19_emit_nofilter_refuted :
  exists c cfg dg, (forall l, cfg l <> Some false) /\ In dg (emit_nofilter c) /\ ~ In dg (emit cfg c).
Proof. exact emit_nofilter_refuted. Qed.

(* Finding F3 (fixed in f646103): if analyze does not report the primary unit of a removed secondary
   unit, a stale diagnostic survives in the cache. *)
Theorem C19_stale_cache_refuted :
  exists c rt_old rt cfg an dg,
    cache_ok c rt_old /\ ~ analyzed_covers rt_old rt an
    /\ In dg (snd (lint c rt cfg an))
    /\ ~ spec_output rt cfg dg.
Proof. exact stale_cache_refuted. Qed.

(* The cache is keyed by (library, primary name): pruning outdated entries by the primary name only
   drops the still valid entry of a same-named unit of another library, whose diagnostics then
   disappear although analyze reported every changed key. *)
Theorem C19_nameonly_pruning_refuted :
  exists c rt cfg an dg,
    cache_ok c rt /\ analyzed_covers rt rt an
    /\ In dg (snd (lint c rt cfg an)) /\ spec_output rt cfg dg
    /\ ~ In dg (snd (lint_nameonly c rt cfg an)).
Proof. exact nameonly_pruning_refuted. Qed.

(* A round that re-analyses nothing (analyse() called again, an edit of a file without design units,
   removal of a unit nothing depends on) emits exactly the cached diagnostics of the existing units;
   skipping the linters in such a round (seeded change C19-m5) loses every warning. *)
Theorem C19_noop_round_exact : forall c rt cfg,
  snd (lint c rt cfg []) = emit cfg (filter (fun kv => primary_exists rt (fst kv)) c).
Proof. exact noop_round_exact. Qed.

Theorem C19_skip_empty_refuted :
  exists c rt cfg dg,
    cache_ok c rt /\ analyzed_covers rt rt []
    /\ In dg (snd (lint c rt cfg [])) /\ spec_output rt cfg dg
    /\ ~ In dg (snd (lint_skip_empty c rt cfg [])).
Proof. exact skip_empty_refuted. Qed.

(* Closing names (`end record t`, `end protected [body] t`, `end units t`, `end component c`,
   `end function f` ...) are not events of the traversal: they are not references.  If the traversal
   reported the closing name as a reference to the declaration itself (seeded change C19-m7), a
   declaration written with its closing name would never be reported. *)
Theorem C19_self_reference_hides : forall g d,
  ~ In d (find_unused_declarations (with_self_reference g d)).
Proof. exact self_reference_hides. Qed.

Theorem C19_closing_name_as_reference_refuted :
  exists g d, In d (find_unused_declarations g)
              /\ ~ In d (find_unused_declarations (with_self_reference g d)).
Proof. exact closing_name_as_reference_refuted. Qed.

(* Config::append: when layered configurations define the same library, the LAST definition decides
   is_third_party (and hence whether the library is linted). *)
Theorem C19_config_append_last_wins :
  forall other self l, NoDup (map fst other) ->
    cm_get (config_append self other) l =
      match cm_get other l with Some v => Some v | None => cm_get self l end.
Proof. exact config_append_last_wins. Qed.

Theorem C19_config_append_keepflag_refuted :
  exists self other l,
    NoDup (map fst other) /\
    cm_get (config_append_keepflag self other) l <>
      match cm_get other l with Some v => Some v | None => cm_get self l end.
Proof. exact config_append_keepflag_refuted. Qed.

(* ---------------------------------------------------------------------------------------------- *)
(* Non-vacuity                                                                                      *)
(* ---------------------------------------------------------------------------------------------- *)

(* A package body with a declared-and-defined procedure that is called between its declaration and
   its body, an unused pair, an unused constant, a used constant, an enumeration type with literals,
   a label: the hypotheses hold and each verdict occurs. *)
Example C19_hyps_satisfiable :
  wf_events (group_events example_group)
  /\ map eid (find_unused_declarations example_group) = example_unused_ids
  /\ example_unused_ids <> []
  /\ (exists d, declared_in (group_events example_group) d /\ eligible d /\ used (group_events example_group) d)
  /\ (exists d, declared_in (group_events example_group) d /\ ~ eligible d /\ ~ used (group_events example_group) d).
Proof. exact hyps_satisfiable. Qed.

Example C19_history_satisfiable :
  history_ok empty_root example_history /\ history_wf example_history
  /\ lint_history [] example_history = example_history_output
  /\ exists out, In out example_history_output /\ out <> [].
Proof. exact history_satisfiable. Qed.

Check C19_unused_exact :
  forall g, wf_events (group_events g) ->
    (forall d, In d (find_unused_declarations g) <-> unused_spec (group_events g) d)
    /\ NoDup (map eid (find_unused_declarations g)).
Check C19_pair_rule :
  forall g r d, referenced_in (group_events g) r -> eid (root_of r) = eid (root_of d) ->
    ~ In d (find_unused_declarations g).
Check C19_all_third_party_silent :
  forall c rt cfg an, (forall l, cfg l <> Some false) -> snd (lint c rt cfg an) = [].
Check C19_history_exact :
  forall steps, history_ok empty_root steps -> history_wf steps ->
    Forall2 (fun out step => forall dg, In dg out <-> spec_output (fst (fst step)) (snd (fst step)) dg)
            (lint_history [] steps) steps.

Print Assumptions C19_unused_exact.
Print Assumptions C19_eligible_decided.
Print Assumptions C19_pair_rule.
Print Assumptions C19_pair_rule_explicit.
Print Assumptions C19_wf_sound.
Print Assumptions C19_emit_exact.
Print Assumptions C19_third_party_silent.
Print Assumptions C19_all_third_party_silent.
Print Assumptions C19_lint_step.
Print Assumptions C19_history_exact.
Print Assumptions C19_nofilter_refuted.
Print Assumptions C19_emit_nofilter_refuted.
Print Assumptions C19_stale_cache_refuted.
Print Assumptions C19_nameonly_pruning_refuted.
Print Assumptions C19_noop_round_exact.
Print Assumptions C19_skip_empty_refuted.
Print Assumptions C19_self_reference_hides.
Print Assumptions C19_closing_name_as_reference_refuted.
Print Assumptions C19_config_append_last_wins.
Print Assumptions C19_config_append_keepflag_refuted.
Print Assumptions C19_hyps_satisfiable.
Print Assumptions C19_history_satisfiable.
