(* Props/C07.v — preliminary *)
From Coq Require Import List NArith Bool.
Import ListNotations.
From RH Require Import Mini.Scope Mini.Overload Mini.ScopeImpl Mini.ScopeProofs.
Open Scope N_scope.
Example C07_smoke : is_int (TInt 0) = true.
Proof. reflexivity. Qed.
Print Assumptions C07_smoke.
