(* Props/C07.v — Names and overloaded calls resolve as the VHDL visibility rules dictate.
   Statements only: each theorem is closed by `exact` of a lemma proved in Mini/ScopeProofs.v,
   the main ones are pinned by `Check`, each is followed by `Print Assumptions`.

   Model      Mini/ScopeImpl.v (scope.rs, region.rs, visibility.rs; elaborator = order of the scope
              operations in design_unit.rs / declarative.rs / subprogram.rs), Mini/Overload.v
              (overloaded.rs `disambiguate*`, expression.rs `disambiguate_op`, names.rs use sites)
   Spec       Mini/Scope.v (`denotes`, `resolve`): LRM 12.3 / 12.4 on the scoped/overloaded family
   The model is tied to the code, and the specification to the implementation, by checks/c07.py. *)
From Coq Require Import List NArith Bool Permutation.
Import ListNotations.
From RH Require Import Mini.Scope Mini.Overload Mini.ScopeImpl Mini.ScopeProofs.
Open Scope N_scope.

(* ---------------------------------------------------------------------------------------------
   1. The lookup cache.  For every sequence of scope operations that follows the analysis
   discipline (`disciplined`: scopes are used as a stack; a designator is not looked up in a nested
   scope whose clone of the cache may be stale because an ancestor was mutated after the clone
   and the entry was not dropped), whenever the discipline permits to look d up after the trace,
   the cached `lookup` returns exactly `lookup_uncached`. *)
Theorem C07_cache_coherent :
  forall t d s rs,
    disciplined [] (t ++ [OLookup d]) -> run cfg_now [] t = Some (s, rs) ->
    exists s', lookup s d = Some (lookup_uncached s d, s').
Proof. exact cache_coherent. Qed.

(* the invariant behind it, for any configuration that invalidates on add and clears on use *)
Theorem C07_cache_invariant :
  forall c st s o st' s' res,
    cfg_sound c -> coherent st s -> dstep st o = Some st' -> exec c s o = Some (s', res) ->
    coherent st' s' /\ (forall d, o = OLookup d -> res = Some (lookup_uncached s d)).
Proof. exact coherent_step. Qed.

(* `disciplined_b` (run by the check on the trace of every generated program) decides the predicate *)
Theorem C07_discipline_decidable : forall t st, disciplined_b st t = true <-> disciplined st t.
Proof. exact disciplined_b_sound. Qed.

(* the traces to which the theorem is applied: whatever program the elaborator (the order of scope
   operations of design_unit.rs / declarative.rs / subprogram.rs as of b25a4b2) processes, its trace
   follows the discipline; hence every lookup it performs equals lookup_uncached at that moment *)
Theorem C07_elaborator_disciplined :
  forall p m, model_program cfg_now p = Some m -> disciplined [] (m_trace m).
Proof. exact elaborator_disciplined. Qed.

Theorem C07_elaborator_cache_coherent :
  forall p m t d rest s rs,
    model_program cfg_now p = Some m -> m_trace m = t ++ OLookup d :: rest ->
    run cfg_now [] t = Some (s, rs) -> exists s', lookup s d = Some (lookup_uncached s d, s').
Proof. exact elaborator_cache_coherent. Qed.

(* the mechanism is needed: WITHOUT the invalidation in `ScopeInner::add` a disciplined trace
   (declare f(integer); look f up; declare f(boolean); look f up) reads a stale cache entry *)
Theorem C07_cache_no_invalidation_refuted :
  exists t d s rs r s',
    disciplined [] (t ++ [OLookup d]) /\ run cfg_no_add_invalidation [] t = Some (s, rs) /\
    lookup s d = Some (r, s') /\ r <> lookup_uncached s d.
Proof. exact no_add_invalidation_refuted. Qed.

Example C07_cache_invalidation_example :
  exists s rs, run cfg_now [] [ORoot region_empty; OAdd 0 e_f_int; OLookup 0; OAdd 0 e_f_bool] = Some (s, rs) /\
               exists s', lookup s 0 = Some (LOk (NOver [e_f_int; e_f_bool]), s').
Proof. exact add_invalidation_example. Qed.

(* finding F21 (fixed by 2dc9b83): the pre-fix make_potentially_visible left the candidates of a
   literal stale when a use clause named its type; the code of today agrees with the specification
   on the same program and its trace follows the discipline *)
Theorem C07_cache_stale_implicit_old_refuted :
  family_program prog_f21 = true /\
  spec_program prog_f21 = [(1, ADecl 6); (2, ADecl 2); (3, ADecl 3); (4, ADecl 7)] /\
  observed cfg_old_mpv prog_f21 =
    Some ([(1, Some 6, MOk); (2, None, MError); (3, Some 3, MOk); (4, Some 7, MOk)],
          [(1, Some 6, MOk); (2, Some 2, MOk); (3, Some 3, MOk); (4, Some 7, MOk)]) /\
  observed cfg_now prog_f21 =
    Some ([(1, Some 6, MOk); (2, Some 2, MOk); (3, Some 3, MOk); (4, Some 7, MOk)],
          [(1, Some 6, MOk); (2, Some 2, MOk); (3, Some 3, MOk); (4, Some 7, MOk)]) /\
  trace_disciplined cfg_now prog_f21 = Some true.
Proof. exact stale_implicit_old_refuted. Qed.

(* finding F22 (fixed by b25a4b2): the nested scope of a subprogram body kept the clone of a stale
   entry for the subprogram's own name; the pre-fix trace leaves the discipline *)
Theorem C07_cache_stale_nested_old_refuted :
  family_program prog_f22 = true /\
  spec_program prog_f22 = [(1, ADecl 3); (2, ADecl 5); (3, ADecl 3); (4, ADecl 5)] /\
  observed cfg_old_body prog_f22 =
    Some ([(1, Some 3, MOk); (2, Some 3, MError); (3, Some 3, MOk); (4, Some 5, MOk)],
          [(1, Some 3, MOk); (2, Some 5, MOk); (3, Some 3, MOk); (4, Some 5, MOk)]) /\
  trace_disciplined cfg_old_body prog_f22 = Some false /\
  observed cfg_now prog_f22 =
    Some ([(1, Some 3, MOk); (2, Some 5, MOk); (3, Some 3, MOk); (4, Some 5, MOk)],
          [(1, Some 3, MOk); (2, Some 5, MOk); (3, Some 3, MOk); (4, Some 5, MOk)]) /\
  trace_disciplined cfg_now prog_f22 = Some true.
Proof. exact stale_nested_old_refuted. Qed.

(* ---------------------------------------------------------------------------------------------
   2. `lookup_uncached` on the scope chain the analyser has built at a program point
   (`point_scope`: Region::add / make_all_potentially_visible / make_potentially_visible applied to
   the items of the enclosing region prefixes) equals `Scope.denotes`, up to the order in which
   overloaded candidates are listed.  Hypotheses `wf_point` = the family: no duplicate declarations
   of d in a region or used package, entity ids identify entities, and NOT the excluded corner
   (two potentially visible subprograms with equal profiles).  Character-literal EXPRESSION sites
   are outside: the analyser does not look them up at all (C07_char_literal_refuted). *)
Theorem C07_lookup_refines_spec :
  forall pkgs ch d, wf_point pkgs ch d ->
    res_equiv (lookup_uncached (point_scope pkgs ch) d) (denotes pkgs ch d).
Proof. exact lookup_refines_spec. Qed.

(* the hypotheses are satisfiable by a non-trivial point: 3 regions below the context clause,
   directly visible functions in two of them, `use p1.all` and `use p2.t1` bringing a function and
   two literals: five candidates for v0 *)
Example C07_wf_point_satisfiable :
  wf_point ex_pkgs ex_chain 0 /\
  denotes ex_pkgs ex_chain 0 =
    DOver [mkEnt 31 0 (KFunc t_boolean t_integer) None; mkEnt 33 0 (KFunc t_integer t_integer) None;
           mkEnt 22 0 (KLit (TOth 11)) None; mkEnt 12 0 (KLit (TOth 10)) None;
           mkEnt 14 0 (KFunc t_integer t_boolean) None].
Proof. exact (conj ex_wf_point (proj1 ex_point_values)). Qed.

(* ---------------------------------------------------------------------------------------------
   3. Overload resolution.  What a use site observes (reference set by the staged `disambiguate`,
   `disambiguate_op`, `disambiguate_no_actuals`; error class) agrees with "the unique candidate
   whose parameter and result types fit": exactly one fitting candidate => it is the reference and
   there is no error; none => error; several => ambiguity error. *)
Theorem C07_disambiguate_unique :
  forall es a t,
    forallb overloadable es = true -> NoDup (map profile es) ->
    match filter (cand_fits (UCall a t)) es with
    | [e] => disambiguate es a (Some t) = Unambiguous e
    | [] => forall e, disambiguate es a (Some t) = Unambiguous e -> In e es /\ cand_fits (UCall a t) e = false
    | x :: y :: r => disambiguate es a (Some t) = Ambiguous (x :: y :: r)
    end.
Proof. exact disambiguate_unique. Qed.

Theorem C07_site_result_refines_resolve :
  forall d u r r', look_equiv r r' -> in_fragment d u r' -> agrees (site_result d u r) (resolve r' u).
Proof. exact site_result_refines_resolve. Qed.

(* dropping the return-type stage loses a unique fit (would-catch mutation of overloaded.rs) *)
Theorem C07_stage_dropped_refuted :
  let es := [mkEnt 1 0 (KFunc t_integer t_integer) None; mkEnt 2 0 (KFunc t_integer t_boolean) None] in
  filter (cand_fits (UCall AUniv t_integer)) es = [mkEnt 1 0 (KFunc t_integer t_integer) None] /\
  disambiguate es AUniv (Some t_integer) = Unambiguous (mkEnt 1 0 (KFunc t_integer t_integer) None) /\
  disambiguate_no_return_stage es AUniv (Some t_integer) = Ambiguous es.
Proof. exact stage_dropped_refuted. Qed.

(* ---------------------------------------------------------------------------------------------
   4. End to end at a program point: the reference and error class the model of the analyser
   observes at a use site (through `lookup_uncached`, hence by C07_cache_coherent through `lookup`
   on disciplined traces) agree with the answer of the reference resolver. *)
Theorem C07_resolution_refines_spec :
  forall pkgs ch d u,
    wf_point pkgs ch d -> site_in_fragment d u (denotes pkgs ch d) ->
    agrees (site_result d u (looked_of (lookup_uncached (point_scope pkgs ch) d)))
           (resolve (denotes pkgs ch d) u).
Proof. exact resolution_refines_spec. Qed.

(* finding F23 (open): character literals in expressions are not looked up: an invisible literal is
   accepted (site 1) and a visible one gets no reference (site 2) *)
Theorem C07_char_literal_refuted :
  family_program prog_charlit = true /\
  spec_program prog_charlit = [(1, AError); (2, ADecl 2); (3, AError)] /\
  observed cfg_now prog_charlit =
    Some ([(1, None, MOk); (2, None, MOk); (3, None, MError)],
          [(1, None, MOk); (2, None, MOk); (3, None, MError)]).
Proof. exact char_literal_refuted. Qed.

(* ---------------------------------------------------------------------------------------------
   Examples (whole programs through the reference resolver and through the elaborator) *)
(* 3-deep nesting: architecture constant v0 <- block function v0 (hides it) <- process constant v0 *)
Example C07_example_nesting :
  family_program prog_nest3 = true /\
  spec_program prog_nest3 = [(1, ADecl 3); (2, ADecl 4); (3, AError); (4, ADecl 6); (5, AError)] /\
  observed cfg_now prog_nest3 =
    Some ([(1, Some 3, MOk); (2, Some 4, MOk); (3, None, MError); (4, Some 6, MOk); (5, Some 6, MError)],
          [(1, Some 3, MOk); (2, Some 4, MOk); (3, None, MError); (4, Some 6, MOk); (5, Some 6, MError)]).
Proof. exact example_nest3. Qed.

(* a homograph pair made visible by two use clauses conflicts; a direct declaration wins *)
Example C07_example_homograph_pair :
  family_program prog_homograph = true /\
  spec_program prog_homograph =
    [(1, AConflict); (2, AConflict); (3, ADecl 5); (4, AConflict); (5, AConflict); (6, AConflict); (7, AUndeclared)] /\
  observed cfg_now prog_homograph =
    Some ([(1, None, MConflict); (2, None, MConflict); (3, Some 5, MOk); (4, None, MConflict);
           (5, None, MConflict); (6, None, MConflict); (7, None, MUndeclared)],
          [(1, None, MConflict); (2, None, MConflict); (3, Some 5, MOk); (4, None, MConflict);
           (5, None, MConflict); (6, None, MConflict); (7, None, MUndeclared)]).
Proof. exact example_homograph. Qed.

(* overloaded literals over two enumeration types (and a function of the same name) *)
Example C07_example_overloaded_literals :
  family_program prog_twolits = true /\
  spec_program prog_twolits =
    [(1, ADecl 2); (2, ADecl 6); (3, AError); (4, AError); (5, ADecl 9); (6, AError); (7, ADecl 4); (8, ADecl 8); (9, AError)] /\
  observed cfg_now prog_twolits =
    Some ([(1, Some 2, MOk); (2, Some 6, MOk); (3, None, MError); (4, None, MError); (5, Some 9, MOk);
           (6, Some 9, MError); (7, Some 4, MOk); (8, Some 8, MOk); (9, None, MError)],
          [(1, Some 2, MOk); (2, Some 6, MOk); (3, None, MError); (4, None, MError); (5, Some 9, MOk);
           (6, Some 9, MError); (7, Some 4, MOk); (8, Some 8, MOk); (9, None, MError)]).
Proof. exact example_twolits. Qed.

(* calls whose actual is itself a use site (an overloaded literal, a nested overloaded call): the
   complete context resolves as a whole (`resolve_x`); in the analyser the actual gets its reference
   from the check_call of the stage of `disambiguate` that singled the subprogram out
   (`site_result_x`).  Agreement of the two on the family is TESTED at every such site by
   checks/c07.py, not proved. *)
Example C07_example_overloaded_actuals :
  family_program prog_conv = true /\
  spec_program prog_conv =
    [(1, ADecl 20); (2, ADecl 2); (3, ADecl 21); (4, ADecl 2); (5, ADecl 20); (6, ADecl 22); (7, AError); (8, AError)] /\
  observed cfg_now prog_conv =
    Some ([(1, Some 20, MOk); (2, Some 2, MOk); (3, Some 21, MOk); (4, Some 2, MOk); (5, Some 20, MOk); (6, Some 22, MOk);
           (7, None, MError); (8, None, MError)],
          [(1, Some 20, MOk); (2, Some 2, MOk); (3, Some 21, MOk); (4, Some 2, MOk); (5, Some 20, MOk); (6, Some 22, MOk);
           (7, None, MError); (8, None, MError)]).
Proof. exact example_conv. Qed.

(* would-catch: dropping the check_call after the return-type stage leaves the actual without a reference *)
Theorem C07_return_stage_check_dropped_refuted :
  let convs := [mkEnt 20 4 (KFunc (TOth 10) (TOth 12)) None; mkEnt 21 4 (KFunc (TOth 10) (TOth 13)) None] in
  let reds := [mkEnt 2 0 (KLit (TOth 10)) None; mkEnt 6 0 (KLit (TOth 11)) None] in
  resolve_x (DOver convs) (DOver reds) (XName 2 0) (TOth 12) = (ADecl 20, ADecl 2) /\
  site_result_x 4 (XName 2 0) (TOth 12) (LkOver convs) (LkOver reds) = mkXres (Some 20) (Some 2) MOk (Some 3%nat) /\
  site_result_x_gen (Some 3%nat) 4 (XName 2 0) (TOth 12) (LkOver convs) (LkOver reds) = mkXres (Some 20) None MOk (Some 3%nat).
Proof. exact return_stage_check_dropped_refuted. Qed.

(* sibling regions (generate statements) and context declarations, whole programs *)
Example C07_example_sibling_regions :
  family_program prog_siblings = true /\
  spec_program prog_siblings = [(1, ADecl 1); (2, ADecl 6); (3, ADecl 7); (4, ADecl 3); (5, ADecl 4); (6, ADecl 9); (7, ADecl 10); (8, ADecl 11); (9, AUndeclared); (10, AUndeclared); (11, ADecl 13); (12, ADecl 13)] /\
  option_map fst (observed cfg_now prog_siblings) = Some [(1, Some 1, MOk); (2, Some 6, MOk); (3, Some 7, MOk); (4, Some 3, MOk); (5, Some 4, MOk); (6, Some 9, MOk); (7, Some 10, MOk); (8, Some 11, MOk); (9, None, MUndeclared); (10, None, MUndeclared); (11, Some 13, MOk); (12, Some 13, MOk)] /\
  trace_disciplined cfg_now prog_siblings = Some true.
Proof. exact example_siblings. Qed.

Example C07_example_context_declarations :
  family_program prog_contexts = true /\
  spec_program prog_contexts = [(1, AConflict); (2, ADecl 4); (3, ADecl 5); (4, AConflict); (5, AConflict); (6, ADecl 9); (7, AConflict); (8, ADecl 4); (9, ADecl 5); (10, AConflict); (11, AConflict); (12, ADecl 1); (13, AConflict); (14, AConflict)] /\
  option_map fst (observed cfg_now prog_contexts) = Some [(1, None, MConflict); (2, Some 4, MOk); (3, Some 5, MOk); (4, None, MConflict); (5, None, MConflict); (6, Some 9, MOk); (7, None, MConflict); (8, Some 4, MOk); (9, Some 5, MOk); (10, None, MConflict); (11, None, MConflict); (12, Some 1, MOk); (13, None, MConflict); (14, None, MConflict)] /\
  trace_disciplined cfg_now prog_contexts = Some true.
Proof. exact example_contexts. Qed.

Check C07_cache_coherent :
  forall t d s rs,
    disciplined [] (t ++ [OLookup d]) -> run cfg_now [] t = Some (s, rs) ->
    exists s', lookup s d = Some (lookup_uncached s d, s').
Check C07_lookup_refines_spec :
  forall pkgs ch d, wf_point pkgs ch d ->
    res_equiv (lookup_uncached (point_scope pkgs ch) d) (denotes pkgs ch d).
Check C07_resolution_refines_spec :
  forall pkgs ch d u,
    wf_point pkgs ch d -> site_in_fragment d u (denotes pkgs ch d) ->
    agrees (site_result d u (looked_of (lookup_uncached (point_scope pkgs ch) d)))
           (resolve (denotes pkgs ch d) u).

Print Assumptions C07_cache_coherent.
Print Assumptions C07_cache_invariant.
Print Assumptions C07_discipline_decidable.
Print Assumptions C07_elaborator_disciplined.
Print Assumptions C07_elaborator_cache_coherent.
Print Assumptions C07_cache_no_invalidation_refuted.
Print Assumptions C07_cache_invalidation_example.
Print Assumptions C07_cache_stale_implicit_old_refuted.
Print Assumptions C07_cache_stale_nested_old_refuted.
Print Assumptions C07_lookup_refines_spec.
Print Assumptions C07_wf_point_satisfiable.
Print Assumptions C07_disambiguate_unique.
Print Assumptions C07_site_result_refines_resolve.
Print Assumptions C07_stage_dropped_refuted.
Print Assumptions C07_resolution_refines_spec.
Print Assumptions C07_char_literal_refuted.
Print Assumptions C07_example_nesting.
Print Assumptions C07_example_homograph_pair.
Print Assumptions C07_example_overloaded_literals.
Print Assumptions C07_example_overloaded_actuals.
Print Assumptions C07_example_sibling_regions.
Print Assumptions C07_example_context_declarations.
Print Assumptions C07_return_stage_check_dropped_refuted.
