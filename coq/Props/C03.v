(* Props/C03.v — Analysis and every editor query are total on any project state.

   PARTIAL claim (evidence level "other", see checks/c03.py): the theorems below carry
     (b) the arena bookkeeping: FinalArena::get never misses and never returns a stale arena after
         DesignRoot::analyze's rebuild (Kernel/Arena.v, Kernel/ArenaProofs.v),
     (c) the cursor searchers on event trees are total for every cursor, inside or outside the text, and every
         position they return occurs in the tree (Kernel/C03Search.v, Kernel/C03SearchProofs.v).
   (a) termination of analysis is the subject of C02 (lexer), C04 (lock protocol) and C11; (d) "every location lies in
   the current text" reduces to C01's invariant + C11.  The several hundred unwrap/expect/unreachable sites inside
   analysis/*.rs and completion/*.rs are NOT covered by any theorem: they are explored (harness/src/bin/c03.rs).

   Statements only: each theorem is closed by `exact` of a lemma of the proof files. *)
From Coq Require Import List NArith Bool Permutation.
Import ListNotations.
From RH Require Import Kernel.Arena Kernel.ArenaProofs Kernel.C03Search Kernel.C03SearchProofs.
Open Scope N_scope.

(* ---------------------------------------------------------------------------------------------- *)
(* FinalArena::link is first-wins                                                                 *)
(* ---------------------------------------------------------------------------------------------- *)
Theorem C03_link_first_wins : forall self referenced a,
  fa_find (link self referenced) a =
  match fa_find self a with Some x => Some x | None => fa_find referenced a end.
Proof. exact fa_find_link. Qed.

(* the hash-map iteration order of the linked arena does not matter *)
Theorem C03_link_order_irrelevant : forall self r1 r2 a,
  NoDup (map fst r1) -> Permutation r1 r2 -> fa_find (link self r1) a = fa_find (link self r2) a.
Proof. exact link_order_irrelevant. Qed.

(* The explicit disjointness hypothesis: if no two linked arenas hold DIFFERENT local arenas under one id (`all_agree`),
   the rebuilt root arena returns, for every id of every linked arena, exactly that arena. *)
Theorem C03_rebuild_agree : forall fs f a x,
  all_agree fs -> In f fs -> fa_find f a = Some x -> fa_find (link_all fs) a = Some x.
Proof. exact link_all_agree. Qed.

(* The hypothesis is needed: two arenas with the same id, first-wins returns the one linked first — the stale one. *)
Example C03_first_wins_picks_stale :
  let stale := [(5, mkLA 5 1 [10])] in
  let fresh := [(5, mkLA 5 2 [20; 21])] in
  fa_find (link_all [stale; fresh]) 5 = Some (mkLA 5 1 [10]) /\
  fa_get (link_all [stale; fresh]) (5, 1) = None /\          (* FinalArena::get panics on an entity of the fresh arena *)
  fa_get fresh (5, 1) = Some 21 /\
  ~ all_agree [stale; fresh].
Proof.
  cbv zeta. repeat split; try reflexivity.
  intro H. specialize (H [(5, mkLA 5 1 [10])] [(5, mkLA 5 2 [20; 21])] (or_introl eq_refl) (or_intror (or_introl eq_refl)) 5
                         (mkLA 5 1 [10]) (mkLA 5 2 [20; 21]) eq_refl eq_refl).
  discriminate H.
Qed.

(* ---------------------------------------------------------------------------------------------- *)
(* the design root                                                                                *)
(* ---------------------------------------------------------------------------------------------- *)
(* Reachable states of the root: created empty, libraries added, and any number of edit+analyse rounds whose reset set
   satisfies the closure hypothesis (C01: `users_of` has an edge for every arena link) and that do not remove
   std.standard while its arena stays cached. *)
Theorem C03_reachable_coherent : forall r, reachable r -> coherent r.
Proof. exact reachable_coherent. Qed.

(* The disjoint-ids hypothesis is DISCHARGED for the model of id allocation by a global counter: in every coherent state
   (ids unique because `add_unit`/`ensure_library` take `r_next_id` and increment it; results mention only current
   arenas because of the reset closure) all link sources of the rebuild agree. *)
Theorem C03_disjoint_ids_discharged : forall r, coherent r -> all_agree (rebuild_sources r).
Proof. exact coherent_all_agree. Qed.

(* MAIN: after `analyze`'s rebuild, for every analysed unit u and every arena reachable from u's result (hence for every
   entity id stored in u's AST whose arena belongs to u's link closure) the root arena holds exactly that local arena,
   and it is the CURRENT one of its id: first-wins linking picked no stale arena. *)
Theorem C03_arena_closed : forall r removed added d std_items sched r',
  coherent r -> edits_wf r removed added d -> uses_closed r (d ++ removed ++ added) -> std_kept r removed added ->
  analyze r removed added d std_items sched = Some r' ->
  forall s f, In s (r_slots r') -> s_res s = Some f ->
  forall a la, fa_find f a = Some la ->
    fa_find (r_arenas r') a = Some la /\ current r' a = Some la.
Proof. exact arena_closed. Qed.

Theorem C03_analyze_coherent : forall r removed added d std_items sched r',
  coherent r -> edits_wf r removed added d -> uses_closed r (d ++ removed ++ added) -> std_kept r removed added ->
  analyze r removed added d std_items sched = Some r' -> coherent r'.
Proof. exact analyze_coherent. Qed.

(* `get` is a total function on linked ids: whatever `Arena::get` answered during the analysis of a unit, the root arena
   answers the same afterwards (Some = no panic), and `is_valid_id` agrees. *)
Theorem C03_get_total_on_linked : forall r removed added d std_items sched r',
  coherent r -> edits_wf r removed added d -> uses_closed r (d ++ removed ++ added) -> std_kept r removed added ->
  analyze r removed added d std_items sched = Some r' ->
  forall s f e x, In s (r_slots r') -> s_res s = Some f -> fa_get f e = Some x ->
    fa_get (r_arenas r') e = Some x /\ fa_is_valid (r_arenas r') e = true.
Proof. exact get_total_on_linked. Qed.

Theorem C03_arena_get_during_analysis : forall local refs e,
  arena_get local refs e = fa_get (finalize refs local) e.
Proof. exact arena_get_finalize. Qed.

(* libraries and units are linked in hash order, std_logic_1164 possibly twice: any order, any repetition *)
Theorem C03_rebuild_any_order : forall r fs, coherent r ->
  (forall f, In f fs <-> In f (rebuild_sources r)) ->
  forall a, fa_find (link_all fs) a = fa_find (link_all (rebuild_sources r)) a.
Proof. exact rebuild_any_order. Qed.

(* nothing stale survives the rebuild *)
Theorem C03_root_arenas_current : forall r a la, coherent r ->
  fa_find (r_arenas (rebuild r)) a = Some la -> current r a = Some la.
Proof. exact root_arenas_current. Qed.

(* the closure hypothesis is satisfiable by computation: the fixpoint of "who mentions an arena of a member" *)
Theorem C03_users_closure_closed : forall fuel r d d',
  users_closure fuel r d = Some d' -> incl d d' /\ uses_closed r d'.
Proof. exact users_closure_closed. Qed.

(* ---- a concrete history: library std + work, std.standard, a package and its user; the package is edited ---- *)
Definition ex_pkg := OUnit 1 10.
Definition ex_usr := OUnit 1 11.
Definition ex_r0 := ensure_library (ensure_library empty_root 0 100) 1 101.
Definition ex_sched1 : list astep :=
  [ (ex_pkg, [SOwner (OLib 1); SStd], [1; 2; 3]); (ex_usr, [SOwner (OLib 1); SStd; SOwner ex_pkg], [4; 5]) ].
Definition ex_r1 := match analyze ex_r0 [] [std_unit; ex_pkg; ex_usr] [] [50; 51] ex_sched1 with
                    | Some r => r | None => empty_root end.
Definition ex_sched2 : list astep :=
  [ (ex_pkg, [SOwner (OLib 1); SStd], [7]); (ex_usr, [SOwner (OLib 1); SStd; SOwner ex_pkg], [4; 5]) ].

(* the hypotheses of C03_arena_closed are satisfiable by a non-trivial state: the package's file is re-parsed (fresh arena
   id 6), its user is reset by the closure and re-analysed under its OLD id 5 with a new version; the root then resolves
   both to the new arenas *)
Example C03_example_history :
  users_closure 10 ex_r1 [ex_pkg] = Some [ex_pkg; ex_usr] /\
  exists r2, analyze ex_r1 [ex_pkg] [ex_pkg] [ex_usr] [] ex_sched2 = Some r2 /\
    fa_find (r_arenas r2) 5 = Some (mkLA 5 6 [4; 5]) /\ current r2 5 = Some (mkLA 5 6 [4; 5]) /\
    fa_find (r_arenas r2) 6 = Some (mkLA 6 5 [7]) /\ fa_find (r_arenas r2) 4 = None /\
    fa_get (r_arenas r2) (0, 1) = Some 51.
Proof. split; [ vm_compute; reflexivity | eexists; vm_compute; repeat split; reflexivity ]. Qed.

(* The closure hypothesis is needed: if the user is NOT reset (uses_closed fails), its result keeps the arena of the removed
   package (id 4), the root arena still resolves id 4 — to an arena nobody owns any more — and entity ids of the user that
   point into it resolve to stale entities. *)
Example C03_closure_needed :
  exists r2, analyze ex_r1 [ex_pkg] [ex_pkg] [] [] [ (ex_pkg, [SOwner (OLib 1); SStd], [7]) ] = Some r2 /\
    fa_find (r_arenas r2) 4 = Some (mkLA 4 3 [1; 2; 3]) /\ current r2 4 = None.
Proof. eexists; vm_compute; repeat split; reflexivity. Qed.

(* Finding F29 (stale standard package) at model level (`std_kept` is needed): the unit std.standard is removed; analyze_standard_package returns
   early and keeps the cached standard arena; every re-analysed unit links it again and the root arena resolves arena 0 to
   the arena of a unit that no longer exists. *)
Example C03_stale_standard_when_removed :
  exists r3, analyze ex_r1 [std_unit] [] [ex_pkg; ex_usr] [] ex_sched2 = Some r3 /\
    fa_find (r_arenas r3) 0 = Some (mkLA 0 2 [50; 51]) /\ current r3 0 = None /\
    ~ std_kept ex_r1 [std_unit] [].
Proof.
  eexists; split; [ vm_compute; reflexivity | ].
  split; [ vm_compute; reflexivity | ]. split; [ vm_compute; reflexivity | ].
  intros [H | [H | H]]; vm_compute in H; discriminate H.
Qed.

(* ---------------------------------------------------------------------------------------------- *)
(* the cursor searchers                                                                           *)
(* ---------------------------------------------------------------------------------------------- *)
(* Every searcher returns (no Crash) for EVERY cursor — any pair of numbers, inside or outside any text — on ANY event
   tree, provided the ids written in the tree resolve (which C03_get_total_on_linked provides for analysed units). *)
Theorem C03_searchers_total : forall get is_reference body,
  ids_resolved get body ->
  (forall cursor s, walk_frame (iac get cursor) s body <> Crash) /\
  (forall target s, walk_frame (far get is_reference target) s body <> Crash) /\
  (forall file s, walk_frame (stc get file) s body <> Crash) /\
  (forall s, walk_frame fau s body <> Crash).
Proof.
  intros get is_reference body H.
  split; [ | split; [ | split ] ].
  - intros cursor s. exact (iac_total get body cursor s H).
  - intros target s. exact (far_total get is_reference body target s H).
  - intros file s. exact (stc_total get body file s H).
  - intros s. exact (fau_total body s).
Qed.

(* ... and the hypothesis is needed: an unresolved id under the cursor is a panic *)
Theorem C03_searcher_crashes_on_unresolved : forall get id p cursor,
  get id = None -> inside cursor p = true -> walk_frame (iac get cursor) None [Ref p (Some id)] = Crash.
Proof. exact iac_crash_example. Qed.

(* Every position a searcher returns occurs in the tree: it is written in the tree, or it is the declaration position of
   an entity whose id is written in the tree. *)
Theorem C03_positions_from_tree : forall get is_reference body,
  (forall cursor p id b, walk_frame (iac get cursor) None body = Done (Some (p, id)) b ->
       from_tree get body p /\ In id (ids_of body) /\ inside cursor p = true /\ b = true) /\
  (forall target l b, walk_frame (far get is_reference target) [] body = Done l b ->
       forall p, In p l -> from_tree get body p) /\
  (forall file l b, walk_frame (stc get file) [] body = Done l b ->
       forall p id, In (p, id) l -> from_tree get body p /\ In id (ids_of body)) /\
  (forall n l b, walk_frame fau (0, []) body = Done (n, l) b -> forall p, In p l -> In p (spans_of body)).
Proof.
  intros get is_reference body.
  split; [ | split; [ | split ] ].
  - intros cursor p id b H. exact (iac_positions get body cursor p id b H).
  - intros target l b H p Hp. exact (far_positions get is_reference body target l b H p Hp).
  - intros file l b H p id Hp. exact (stc_positions get body file l b H p id Hp).
  - intros n l b H p Hp. exact (fau_positions body n l b H p Hp).
Qed.

(* The two halves joined: after a successful `analyze`, the searchers run with `get = FinalArena::get` of the rebuilt root
   arena are total on every event tree whose ids were obtained from the arena of an analysed unit. `info` (what an entity
   says about itself) is arbitrary. *)
Theorem C03_queries_total_after_analyze :
  forall (info : ent -> einfo) is_reference r removed added d std_items sched r',
  coherent r -> edits_wf r removed added d -> uses_closed r (d ++ removed ++ added) -> std_kept r removed added ->
  analyze r removed added d std_items sched = Some r' ->
  forall s f body, In s (r_slots r') -> s_res s = Some f ->
    (forall id, In id (ids_of body) -> fa_get f id <> None) ->
    let get := fun id => option_map info (fa_get (r_arenas r') id) in
    (forall cursor st, walk_frame (iac get cursor) st body <> Crash) /\
    (forall target st, walk_frame (far get is_reference target) st body <> Crash) /\
    (forall file st, walk_frame (stc get file) st body <> Crash).
Proof.
  intros info is_reference r removed added d std_items sched r' Hc Hw Hu Hs Ha s f body Hin Hres Hids get.
  assert (Hr : ids_resolved get body).
  { intros id Hid. unfold get.
    destruct (fa_get f id) as [x|] eqn:E; [ | exfalso; exact (Hids id Hid E) ].
    destruct (get_total_on_linked _ _ _ _ _ _ _ Hc Hw Hu Hs Ha s f id x Hin Hres E) as [Hg _].
    rewrite Hg. discriminate. }
  destruct (C03_searchers_total get is_reference body Hr) as [H1 [H2 [H3 _]]].
  split; [ exact H1 | split; [ exact H2 | exact H3 ] ].
Qed.

(* a searcher example: cursor far outside every text (u32::MAX, u32::MAX) on a tree with a pruned region *)
Example C03_searcher_example :
  let get := fun id : entity_id => if (fst id =? 7) then Some (mkInfo (Some (mkSpan 1 (2, 0) (2, 3)))) else None in
  let tree := [WithPos (mkSpan 1 (0, 0) (9, 0)); Decl (Some (7, 0)) (Some (mkSpan 1 (8, 4) (8, 7)));
               Frame [WithPos (mkSpan 1 (3, 0) (4, 0)); Ref (mkSpan 1 (3, 2) (3, 5)) (Some (7, 0))];
               Ref (mkSpan 1 (5, 2) (5, 5)) (Some (7, 0))] in
  walk_frame (iac get (4294967295, 4294967295)) None tree = Done None false /\
  walk_frame (iac get (5, 3)) None tree = Done (Some (mkSpan 1 (5, 2) (5, 5), (7, 0))) true /\
  walk_frame (iac get (3, 3)) None tree = Done (Some (mkSpan 1 (3, 2) (3, 5), (7, 0))) true /\
  walk_frame (iac get (2, 1)) None tree = Done (Some (mkSpan 1 (2, 0) (2, 3), (7, 0))) true /\
  walk_frame (far get (fun a b => (fst a =? fst b) && (snd a =? snd b)) (7, 0)) [] tree
    = Done [mkSpan 1 (2, 0) (2, 3); mkSpan 1 (8, 4) (8, 7); mkSpan 1 (3, 2) (3, 5); mkSpan 1 (5, 2) (5, 5)] false.
Proof. cbv zeta. repeat split; vm_compute; reflexivity. Qed.

Check C03_arena_closed : forall r removed added d std_items sched r',
  coherent r -> edits_wf r removed added d -> uses_closed r (d ++ removed ++ added) -> std_kept r removed added ->
  analyze r removed added d std_items sched = Some r' ->
  forall s f, In s (r_slots r') -> s_res s = Some f ->
  forall a la, fa_find f a = Some la -> fa_find (r_arenas r') a = Some la /\ current r' a = Some la.
Check C03_searchers_total : forall get is_reference body, ids_resolved get body ->
  (forall cursor s, walk_frame (iac get cursor) s body <> Crash) /\
  (forall target s, walk_frame (far get is_reference target) s body <> Crash) /\
  (forall file s, walk_frame (stc get file) s body <> Crash) /\
  (forall s, walk_frame fau s body <> Crash).

Print Assumptions C03_link_first_wins.
Print Assumptions C03_rebuild_agree.
Print Assumptions C03_arena_closed.
Print Assumptions C03_get_total_on_linked.
Print Assumptions C03_searchers_total.
Print Assumptions C03_positions_from_tree.
Print Assumptions C03_queries_total_after_analyze.
