(* Props/C04.v — Parallel analysis terminates and is schedule-independent.
   Statements only: each theorem is closed by `exact` of a lemma proved under Kernel/Conc*.v,
   pinned by `Check`, and followed by `Print Assumptions`.

   Model: Kernel/Conc.v (small-step interleaving semantics of the parallel phase of
   DesignRoot::analyze: per-unit lock Vacant | Writing tid | Done circ, per-worker stack of
   analysis frames with their `uses` cache, shared users_of with the atomic edge-insert + cycle
   test, read fast path / write + re-check of AnalysisLock::entry as separate steps).
   `succs deps cbo s` = all successor states (any worker may step); cbo = false is the code of
   today, cbo = true the code before fix 6e7f4e9 (finding F4).  `deps` = the request lists of
   the units; `init_todo n T td` = n units, T workers, work list td (any order). *)
From Coq Require Import List Arith Bool Relations.
Import ListNotations.
From RH Require Import Kernel.Conc Kernel.ConcBase Kernel.ConcClosure Kernel.ConcDeadlock
  Kernel.ConcMeasure Kernel.ConcConfl Kernel.ConcSweep Kernel.ConcGraphs Kernel.ConcProofs
  Kernel.ConcCoarse Symtab.Symtab Symtab.SymtabProofs.

(* ---- no deadlock: in every reachable state with unfinished work some worker can step ---- *)
Theorem C04_deadlock_free : forall deps T td s, wf_deps deps -> todo_ok (length deps) td -> 1 <= T ->
  reach deps false (init_todo (length deps) T td) s -> final s = false -> succs deps false s <> [].
Proof. exact deadlock_free. Qed.

(* no worker ever waits for a lock held by a frame of its own call stack *)
Theorem C04_never_self_blocked : forall deps T td s t, wf_deps deps -> todo_ok (length deps) td ->
  reach deps false (init_todo (length deps) T td) s -> self_blocked s t = false.
Proof. exact never_self_blocked. Qed.

(* ---- termination: a natural-number measure decreases with every step (old and new code) ---- *)
Theorem C04_terminates : forall deps cbo T td s s', wf_deps deps -> todo_ok (length deps) td ->
  reach deps cbo (init_todo (length deps) T td) s -> In s' (succs deps cbo s) -> measure deps s' < measure deps s.
Proof. exact step_measure. Qed.

(* every run has at most `measure init` steps *)
Theorem C04_run_length_bounded : forall deps cbo T td k s, wf_deps deps -> todo_ok (length deps) td ->
  reach_in deps cbo (init_todo (length deps) T td) k s ->
  k + measure deps s <= measure deps (init_todo (length deps) T td).
Proof. exact run_length_bounded. Qed.

(* hence every run can be completed and every maximal run ends in a final state *)
Theorem C04_all_runs_complete : forall deps T td s, wf_deps deps -> todo_ok (length deps) td -> 1 <= T ->
  reach deps false (init_todo (length deps) T td) s ->
  exists s', reach deps false s s' /\ final s' = true.
Proof. exact eventually_final. Qed.

Theorem C04_no_successor_is_final : forall deps T td s, wf_deps deps -> todo_ok (length deps) td -> 1 <= T ->
  reach deps false (init_todo (length deps) T td) s -> succs deps false s = [] -> final s = true.
Proof. exact no_successor_is_final. Qed.

(* ---- no lost or doubled unit analysis ---- *)
(* a unit's lock only moves Vacant -> Writing t -> Done c: it is analysed at most once and its
   result never changes *)
Theorem C04_lock_monotone : forall deps cbo T td s s' u, wf_deps deps -> todo_ok (length deps) td ->
  reach deps cbo (init_todo (length deps) T td) s -> In s' (succs deps cbo s) ->
  lock_step (lock_of s u) (lock_of s' u).
Proof. exact lock_monotone. Qed.

(* at any time a unit is being analysed by at most one frame of one worker: the holder of its lock *)
Theorem C04_unique_holder : forall deps cbo T td s, wf_deps deps -> todo_ok (length deps) td ->
  reach deps cbo (init_todo (length deps) T td) s ->
  NoDup (map f_unit (all_frames s)) /\
  (forall u t, u < length deps ->
     (lock_of s u = Writing t <->
      exists th fr, nth_error (threads s) t = Some th /\ In fr (t_stack th) /\ f_unit fr = u)).
Proof. exact unique_holder. Qed.

(* when the workers are done every unit has a result: nothing is lost *)
Theorem C04_no_lost_or_doubled : forall deps cbo T td s, wf_deps deps -> todo_ok (length deps) td ->
  reach deps cbo (init_todo (length deps) T td) s -> final s = true ->
  forall u, u < length deps -> exists c, lock_of s u = Done c.
Proof. exact final_all_done. Qed.

(* ---- schedule independence ---- *)
(* acyclic request graph: every unit ends without circular-dependency error, for every number
   of workers, interleaving and order of the work list *)
Theorem C04_confluent_acyclic : forall deps T td s, wf_deps deps -> acyclic_deps deps ->
  todo_ok (length deps) td -> reach deps false (init_todo (length deps) T td) s -> final s = true ->
  locks s = repeat (Done None) (length deps).
Proof. exact confluent_acyclic. Qed.

(* cyclic request graphs: the result of every finished unit is the index of its first request
   whose target lies on or reaches a request cycle (None if there is none) ... *)
Theorem C04_circ_position : forall deps T td s u, wf_deps deps -> todo_ok (length deps) td ->
  swallow_safe deps -> reach deps false (init_todo (length deps) T td) s -> final s = true ->
  u < length deps -> exists c, lock_of s u = Done c /\ circ_spec deps u c.
Proof. exact final_result_spec. Qed.

(* ... so any two complete runs (any worker counts T1 T2, any interleavings, any work-list
   orders td1 td2) end with identical result vectors, including the index of the failing request.
   Hypothesis swallow_safe: no use clause that discards a circular error targets a unit on or
   reaching a cycle; without it the statement is false (C04_order_dependent_refuted). *)
Theorem C04_confluent_cyclic : forall deps T1 td1 T2 td2 s1 s2, wf_deps deps -> swallow_safe deps ->
  todo_ok (length deps) td1 -> todo_ok (length deps) td2 ->
  reach deps false (init_todo (length deps) T1 td1) s1 ->
  reach deps false (init_todo (length deps) T2 td2) s2 ->
  final s1 = true -> final s2 = true -> locks s1 = locks s2.
Proof. exact confluent_cyclic. Qed.

(* in particular when no request discards a circular error (every use clause, selected name and
   instantiation of the code of today; not the signature site above) *)
Theorem C04_confluent_no_discard : forall deps T1 td1 T2 td2 s1 s2, wf_deps deps -> no_swallow deps ->
  todo_ok (length deps) td1 -> todo_ok (length deps) td2 ->
  reach deps false (init_todo (length deps) T1 td1) s1 ->
  reach deps false (init_todo (length deps) T2 td2) s2 ->
  final s1 = true -> final s2 = true -> locks s1 = locks s2.
Proof. exact confluent_no_discard. Qed.

(* the cycle test of make_use_of decides reachability in users_of *)
Theorem C04_cycle_test_spec : forall us user target, users_wf us -> user < length us ->
  (closes_cycle us user target = true <-> clos_refl_trans nat (user_rel us) user target).
Proof. exact closes_cycle_spec. Qed.

(* ---- refutations ---- *)
(* finding F4 (code before 6e7f4e9, cache before outcome): one worker ends blocked for ever on
   a lock held by its own call stack; also reachable with two workers *)
Theorem C04_deadlock_old_refuted :
  exists s, reach depsF4 true (init 2 1) s /\ stuck depsF4 true s = true /\ self_blocked s 0 = true.
Proof. exact deadlock_old_refuted. Qed.

Theorem C04_deadlock_old_refuted_2 :
  exists s, reach depsF4 true (init 2 2) s /\ stuck depsF4 true s = true.
Proof. exact deadlock_old_refuted_2. Qed.

(* the repaired code on the same graph, every interleaving of 1..3 workers *)
Theorem C04_F4_repaired : forall T, In T [1; 2; 3] ->
  forall s, reach depsF4 false (init 2 T) s ->
    stuck depsF4 false s = false /\ (final s = true -> locks s = [Done (Some 1); Done (Some 0)]).
Proof. exact F4_repaired. Qed.

(* seeded change: `uses` cache keyed by a non-injective projection of the unit identity (the
   names without the library): units 0 = lib1.pkg [use lib2.util; use lib1.util], 1 = lib2.util,
   2 = lib1.util [use lib1.pkg]; units 1 and 2 share a key, so the request for unit 2 skips the
   registration and the cycle test and the single worker ends blocked on its own frame.  With the
   identity as key the variant has exactly the steps of the model. *)
Theorem C04_uses_cache_coarse_key_refuted :
  exists s, reach_ck deps_homonym false name_key (init 3 1) s /\ stuck_ck deps_homonym false name_key s = true
            /\ self_blocked s 0 = true.
Proof. exact uses_cache_coarse_key_refuted. Qed.

Theorem C04_coarse_key_identity : forall deps cbo s, succs_ck deps cbo (fun x => x) s = succs deps cbo s.
Proof. exact succs_ck_id. Qed.

(* findings F16/F26 (use clause that is not a selected name; fixed by 052b116) and the same defect
   at its second site (subprogram.rs resolve_signature, reported): a request whose circular error
   is discarded, on a cycle, makes the diagnostics depend on which unit is analysed first — the
   full-strength confluence statement (without swallow_safe) is false for such request graphs *)
Theorem C04_order_dependent_refuted :
  exists s1 s2, reach depsF16 false (init 2 1) s1 /\ reach depsF16 false (init 2 1) s2 /\
                final s1 = true /\ final s2 = true /\
                locks s1 = [Done None; Done (Some 0)] /\ locks s2 = [Done None; Done None].
Proof. exact order_dependent_refuted. Qed.

(* ---- finite-domain theorem (vm_compute over all interleavings; bounds in the statement) ----
   all request graphs without discarded errors with n units and request lists of at most k
   entries, T workers, for (n, k, T) in the list: no reachable state is stuck and every final
   state has the result vector of the one-worker run.  Larger bounds: Props/C04Sweep.v. *)
Theorem C04_finite_sweep : forall n k T deps,
  In (n, k, T) [(3, 1, 1); (3, 1, 2); (3, 1, 3); (2, 2, 1); (2, 2, 2); (2, 2, 3); (2, 3, 2)] ->
  small_graph n k deps ->
  forall s, reach deps false (init (length deps) T) s ->
    stuck deps false s = false /\ (final s = true -> locks s = seq_result deps false 200000).
Proof. exact finite_sweep_quick. Qed.

(* ---- symbol table under the parallel file parser (Symtab/Symtab.v) ----
   `run lower [] ops` = any schedule of the atomic `insert_new` steps of all parser threads
   (lookups do not change the table).  After any schedule two spellings have the same id iff
   they are the same identifier: equal lower-case spelling for basic identifiers, identical
   spelling for extended ones, an extended identifier never equals a basic one. *)
Theorem C04_symtab_schedule_independent : forall lower ops t n1 s1 n2 s2, lower_ok lower ->
  run lower [] ops = Some t -> find t n1 = Some s1 -> find t n2 = Some s2 ->
  (s_id s1 = s_id s2 <-> norm lower n1 = norm lower n2).
Proof. exact symtab_schedule_independent. Qed.

(* an insertion never panics, keeps the table well formed, returns the table's entry, and never
   changes an entry some thread already holds *)
Theorem C04_symtab_insert_total : forall lower t n, exists t' s, insert_new lower t n (is_ext n) = Some (t', s).
Proof. exact insert_new_total. Qed.

Theorem C04_symtab_insert_wf : forall lower t n t' s, lower_ok lower -> wf_table lower t ->
  insert_new lower t n (is_ext n) = Some (t', s) -> wf_table lower t' /\ find t' n = Some s.
Proof. exact insert_new_wf. Qed.

Theorem C04_symtab_monotone : forall lower t n e t' s m sm, lower_ok lower -> wf_table lower t ->
  insert_new lower t n e = Some (t', s) -> find t m = Some sm -> find t' m = Some sm.
Proof. exact insert_new_monotone. Qed.

(* keywords (distinct lower-case basic identifiers inserted first) get and keep the ids 0 .. N-1 *)
Theorem C04_symtab_keywords : forall lower kws ops t t', lower_ok lower -> NoDup kws ->
  (forall k, In k kws -> is_ext k = false /\ lower k = k) ->
  run lower [] kws = Some t -> run lower t ops = Some t' ->
  forall i k, nth_error kws i = Some k -> exists s, find t' k = Some s /\ s_id s = i.
Proof. exact keywords_ids. Qed.

(* the hypotheses on `lower` hold for Latin1String::to_lowercase *)
Theorem C04_symtab_latin1_ok : lower_ok lower_latin1.
Proof. exact lower_latin1_ok. Qed.

(* without the re-check under the write lock two threads that both missed `\a\` get two ids *)
Theorem C04_symtab_nocheck_refuted : exists t1 s1 t2 s2,
  insert_new_nocheck lower_latin1 [] [92; 97; 92] true = Some (t1, s1) /\
  insert_new_nocheck lower_latin1 t1 [92; 97; 92] true = Some (t2, s2) /\ s_id s1 <> s_id s2.
Proof. exact nocheck_refuted. Qed.

Check C04_deadlock_free : forall deps T td s, wf_deps deps -> todo_ok (length deps) td -> 1 <= T ->
  reach deps false (init_todo (length deps) T td) s -> final s = false -> succs deps false s <> [].
Check C04_terminates : forall deps cbo T td s s', wf_deps deps -> todo_ok (length deps) td ->
  reach deps cbo (init_todo (length deps) T td) s -> In s' (succs deps cbo s) -> measure deps s' < measure deps s.
Check C04_confluent_cyclic : forall deps T1 td1 T2 td2 s1 s2, wf_deps deps -> swallow_safe deps ->
  todo_ok (length deps) td1 -> todo_ok (length deps) td2 ->
  reach deps false (init_todo (length deps) T1 td1) s1 ->
  reach deps false (init_todo (length deps) T2 td2) s2 ->
  final s1 = true -> final s2 = true -> locks s1 = locks s2.

(* ---- non-vacuity ---- *)
(* the hypotheses are satisfiable: the F4 graph is well formed, work lists in both orders are
   admissible, the initial state is reachable and not final *)
Example C04_ex_hyps : wf_deps depsF4 /\ todo_ok 2 (seq 0 2) /\ todo_ok 2 (rev (seq 0 2)) /\
  reach depsF4 false (init_todo 2 3 (seq 0 2)) (init_todo 2 3 (seq 0 2)) /\ final (init_todo 2 3 (seq 0 2)) = false.
Proof.
  split; [apply wf_depsb_sound; reflexivity | ].
  split; [apply todo_ok_seq | ]. split; [apply (todo_ok_rev_seq 2) | ].
  split; [apply reach_refl | reflexivity].
Qed.

(* an acyclic graph (with a discarded-error request) and a complete run of it on two workers *)
Example C04_ex_acyclic : wf_deps deps_dag /\ acyclic_deps deps_dag /\
  let s := run_first deps_dag false 200 (init_todo 3 2 (seq 0 3)) in
  reach deps_dag false (init_todo 3 2 (seq 0 3)) s /\ final s = true /\ locks s = repeat (Done None) 3.
Proof.
  split; [apply wf_depsb_sound; reflexivity | ]. split; [exact deps_dag_acyclic | ].
  split; [apply run_first_reach; apply reach_refl | split; vm_compute; reflexivity].
Qed.

(* a cyclic swallow-safe graph: a <-> b, c uses itself and a; complete runs with the work list
   in both orders give the vector predicted by C04_circ_position *)
Example C04_ex_cyclic : wf_deps deps_cyc /\ swallow_safe deps_cyc /\ ~ acyclic_deps deps_cyc /\
  let s1 := run_first deps_cyc false 200 (init_todo 3 1 (seq 0 3)) in
  let s2 := run_first deps_cyc false 200 (init_todo 3 2 (rev (seq 0 3))) in
  reach deps_cyc false (init_todo 3 1 (seq 0 3)) s1 /\ final s1 = true /\
  reach deps_cyc false (init_todo 3 2 (rev (seq 0 3))) s2 /\ final s2 = true /\
  locks s1 = [Done (Some 0); Done (Some 0); Done (Some 0)] /\ locks s2 = locks s1.
Proof.
  split; [apply wf_depsb_sound; reflexivity | ]. split; [exact deps_cyc_swallow_safe | ].
  split; [exact deps_cyc_not_acyclic | ].
  split; [apply run_first_reach; apply reach_refl | ]. split; [vm_compute; reflexivity | ].
  split; [apply run_first_reach; apply reach_refl | ]. split; [vm_compute; reflexivity | ].
  split; vm_compute; reflexivity.
Qed.

(* the F16 graph is outside swallow_safe *)
Example C04_ex_F16_not_swallow_safe : ~ swallow_safe depsF16.
Proof. exact depsF16_not_swallow_safe. Qed.

(* symbol table: `Hi`, `hi` and `\hi\` inserted in this order: the first two share an id, the
   extended identifier has another one; every prefix of a schedule keeps the table well formed *)
Example C04_ex_symtab : exists t s1 s2 s3,
  run lower_latin1 [] [[72; 105]; [104; 105]; [92; 104; 105; 92]] = Some t /\ wf_table lower_latin1 t /\
  find t [72; 105] = Some s1 /\ find t [104; 105] = Some s2 /\ find t [92; 104; 105; 92] = Some s3 /\
  s_id s1 = s_id s2 /\ s_id s3 <> s_id s2.
Proof.
  destruct (run lower_latin1 [] [[72; 105]; [104; 105]; [92; 104; 105; 92]]) as [t | ] eqn:E; [ | vm_compute in E; discriminate].
  destruct (run_wf lower_latin1 _ [] t lower_latin1_ok (wf_empty lower_latin1) E) as [Hwf _].
  vm_compute in E. injection E as E. subst t.
  eexists. eexists. eexists. eexists.
  split; [reflexivity | ]. split; [exact Hwf | ].
  split; [vm_compute; reflexivity | ]. split; [vm_compute; reflexivity | ]. split; [vm_compute; reflexivity | ].
  split; [vm_compute; reflexivity | vm_compute; discriminate].
Qed.

Print Assumptions C04_deadlock_free.
Print Assumptions C04_never_self_blocked.
Print Assumptions C04_terminates.
Print Assumptions C04_run_length_bounded.
Print Assumptions C04_all_runs_complete.
Print Assumptions C04_no_successor_is_final.
Print Assumptions C04_lock_monotone.
Print Assumptions C04_unique_holder.
Print Assumptions C04_no_lost_or_doubled.
Print Assumptions C04_confluent_acyclic.
Print Assumptions C04_circ_position.
Print Assumptions C04_confluent_cyclic.
Print Assumptions C04_confluent_no_discard.
Print Assumptions C04_cycle_test_spec.
Print Assumptions C04_deadlock_old_refuted.
Print Assumptions C04_deadlock_old_refuted_2.
Print Assumptions C04_F4_repaired.
Print Assumptions C04_order_dependent_refuted.
Print Assumptions C04_uses_cache_coarse_key_refuted.
Print Assumptions C04_coarse_key_identity.
Print Assumptions C04_finite_sweep.
Print Assumptions C04_symtab_schedule_independent.
Print Assumptions C04_symtab_insert_total.
Print Assumptions C04_symtab_insert_wf.
Print Assumptions C04_symtab_monotone.
Print Assumptions C04_symtab_keywords.
Print Assumptions C04_symtab_latin1_ok.
Print Assumptions C04_symtab_nocheck_refuted.
