(* Props/C01.v — Incremental re-analysis equals from-scratch analysis.
   Statements only: each theorem is closed by `exact` of a lemma proved in Kernel/*Proofs.v or
   Kernel/IncrSweep.v, pinned by `Check`, and followed by `Print Assumptions`.

   Model (Kernel/World.v, Reset.v, Incr.v): a world maps slots (library, primary name,
   secondary name) to design units; the analysis of a unit is an arbitrary strategy tree
   `prog` over the read API of AnalyzeContext (unit lookup / use library.all / has-body), i.e.
   an arbitrary function of the answers to the queries it makes; `analyse` = DesignRoot::reset
   (verbatim, with the dependency maps users_of / users_of_library_all / missing_unit, the
   package-body rule and the clean-up of commit 24ed74b), nested analysis of the units that
   lost their result with registration of every read and the cycle test of make_use_of, and
   the update of the unused-declaration lint cache (with the rule of commit f646103).
   `fresh W` = a project loaded from the world W and analysed once; `den` = the reference
   semantics of a world without any bookkeeping.

   `clean W`: the world has no circular dependencies (every unit has a reference result and no
   result carries the circular-dependency flag).  Two general theorems:

   * C01_incremental_eq_fresh_partial / _every_step: ARBITRARY analyses (any strategy tree,
     also one that discards errors), histories all of whose worlds are clean.
   * C01_incremental_eq_fresh_all_worlds: ALL worlds, circular dependencies included, for
     analyses that propagate a circular-dependency error (`propagating`: the unit ends with
     the flag at the first read that answers with the error, and only then -- what `?` does
     everywhere in the analysis except `analyze_use_clause` for a use clause that is not a
     selected name).  Both runs compute the static reference `ref W` (Kernel/Ref.v): a unit
     whose reads reach a cycle ends at its first read of such a unit.

   What is not proved, because it is false in the sequential model: equality for analyses
   that discard the error in worlds with cycles (C01_discarding_errors_breaks_equality: the
   result of a cycle then depends on where it is entered, and an edit outside the cycle
   changes the entry point without resetting the cycle).  The finite sweep
   C01_incremental_eq_fresh_small_scope stays (870 of its 1620 worlds are cyclic). *)
From Coq Require Import List NArith Arith Bool.
Import ListNotations.
From RH Require Import Kernel.World Kernel.Reset Kernel.Incr Kernel.Inv
  Kernel.ClosureProofs Kernel.DenProofs Kernel.SimProofs Kernel.ResetProofs Kernel.IncrProofs
  Kernel.IncrSweep Kernel.Ref Kernel.RefProofs Kernel.Sim2Proofs Kernel.Reset2Proofs
  Kernel.Incr2Proofs Kernel.Incr2Examples.
Open Scope N_scope.

(* get_all_affected never runs out of fuel (fuel = number of edges + 1) and computes exactly
   the transitive users; hence make_use_of and reset are total. *)
Theorem C01_get_all_affected_spec : forall E init,
  exists R, get_all_affected E init = Some R /\ (forall x, In x R <-> reach E init x).
Proof. exact get_all_affected_spec. Qed.

(* In a clean world the analysis with dependency registration computes the reference result
   of a unit: no cycle is reported, no deadlock, no fuel exhaustion, the invariant is kept. *)
Theorem C01_analysis_computes_reference : forall W, clean W ->
  forall g v ev, den g W v = Some ev ->
  forall f stk A, (g <= f)%nat -> good W A -> (forall x, In x stk -> sub W v x) ->
  exists A', get_analysis f W stk A v = Ok (A', fst ev)
    /\ memo_get (a_memo A') v = Some ev /\ good W A' /\ ext A A'.
Proof. exact get_analysis_sim. Qed.

(* reset covers every changed read: if the reference result of an analysed unit is different
   in the world after a batch of updates (one of its recorded reads, transitively, answers
   differently: unit removed / added / replaced, missing name appeared, primary units of a
   `use library.all` library changed, package body appeared / disappeared), the unit is in
   the reset set.  reset itself never runs out of fuel. *)
Theorem C01_reset_covers_changed_reads : forall lintf Wo S b,
  quiescent lintf Wo S ->
  exists rr, reset (a_maps (sast (apply_batch S b))) (added (apply_batch S b)) (removed (apply_batch S b)) = Some rr /\
    forall g x e, den g Wo x = Some e -> den g (world_after Wo b) x <> Some e -> In x (rr_all rr).
Proof. exact reset_covers_changed_reads. Qed.

(* one step: batch of updates + Project::analyse re-establishes the invariant *)
Theorem C01_analyse_step : forall lintf Wo S b,
  lint_ok lintf -> quiescent lintf Wo S -> clean (world_after Wo b) ->
  exists S', analyse lintf (apply_batch S b) = Ok S' /\ quiescent lintf (world_after Wo b) S'.
Proof. exact analyse_step. Qed.

(* MAIN: for every analysis (`prog`s are arbitrary), every lint function that reports nothing
   for a family without primary unit, every initial world and every finite history of update
   batches whose worlds are clean: the incremental run succeeds and its memo table (results
   AND recorded reads of every unit) and lint cache equal those of a project freshly loaded
   from the final world. *)
Theorem C01_incremental_eq_fresh_partial : forall lintf W0 h,
  lint_ok lintf -> wf_world W0 -> clean W0 -> worlds_clean W0 h ->
  exists S0 S F,
    fresh lintf W0 = Ok S0 /\
    run_history (analyse lintf) S0 h = Ok S /\
    fresh lintf (fold_left world_after h W0) = Ok F /\
    units S = units F /\
    (forall x, memo_get (a_memo (sast S)) x = memo_get (a_memo (sast F)) x) /\
    (forall k, lint_get (lintc S) k = lint_get (lintc F) k).
Proof. exact incremental_eq_fresh. Qed.

(* ... at every Analyse step (every prefix of the history) *)
Theorem C01_incremental_eq_fresh_every_step : forall lintf W0 h,
  lint_ok lintf -> wf_world W0 -> clean W0 -> worlds_clean W0 h ->
  forall n, exists S0 S F,
    fresh lintf W0 = Ok S0 /\
    run_history (analyse lintf) S0 (firstn n h) = Ok S /\
    fresh lintf (fold_left world_after (firstn n h) W0) = Ok F /\
    units S = units F /\
    (forall x, memo_get (a_memo (sast S)) x = memo_get (a_memo (sast F)) x) /\
    (forall k, lint_get (lintc S) k = lint_get (lintc F) k).
Proof. exact incremental_eq_fresh_every_step. Qed.

(* no spurious circular dependency: in clean worlds no unit of the incremental run carries
   the circular-dependency flag or has seen a circular-dependency error *)
Theorem C01_no_spurious_cycle : forall lintf W0 h S0 S,
  lint_ok lintf -> wf_world W0 -> clean W0 -> worlds_clean W0 h ->
  fresh lintf W0 = Ok S0 -> run_history (analyse lintf) S0 h = Ok S ->
  forall x e, memo_get (a_memo (sast S)) x = Some e ->
    r_circ (fst e) = false /\ Forall no_cycle_event (snd e).
Proof. exact no_spurious_cycle. Qed.

(* finite domain, circular dependencies included: all 1620 worlds over 5 units in 2 libraries
   (package with body, entity with architecture, package of another library; request lists
   from a pool with use-unit / use-missing / use library.all / has-body; 870 of them cyclic),
   every one of the 25 single-unit edits, and every 53rd world with all 25 x 25 two-step
   histories: after every step the memo table and the lint cache equal the fresh ones.
   (thorough tier, Kernel/IncrSweepBig.v: every 7th world x 625 two-step and 6 worlds x 15625
   three-step histories.) *)
Theorem C01_incremental_eq_fresh_small_scope :
  (length small_worlds = 1620 /\ length (edits 7) = 25 /\ length (every 53 small_worlds) = 30 /\
   length (filter (fun W => negb (cleanb W)) small_worlds) = 870)%nat /\
  forallb (fun W => forallb (fun b1 => agrees_with_fresh analyse all_uids all_keys W [b1]) (edits 7)) small_worlds = true /\
  forallb (fun W => forallb (fun b1 => forallb (fun b2 =>
     agrees_with_fresh analyse all_uids all_keys W [b1; b2]) (edits 8)) (edits 7)) (every 53 small_worlds) = true.
Proof. exact (conj small_scope_size (conj sweep_one_step sweep_two_steps)). Qed.

(* The code before commit 24ed74b (finding F2) violates C01_no_spurious_cycle: 3-step witness
   (a uses b; a := no use; b := uses a), both worlds clean, fresh: no circular dependency,
   incremental: circular dependency reported in b.  The repaired model agrees with fresh. *)
Theorem C01_no_spurious_cycle_old_refuted :
  clean W_F2 /\ worlds_clean W_F2 h_F2 /\
  (exists e, memo_of (fresh lintf0 (fold_left world_after h_F2 W_F2)) e1 = Some e /\ r_circ (fst e) = false) /\
  (exists e, memo_of (start analyse_old_F2 W_F2 h_F2) e1 = Some e /\ r_circ (fst e) = true
             /\ In (QUnit (u_slot p0), ACycle) (snd e)) /\
  memo_of (start analyse W_F2 h_F2) e1 = memo_of (fresh lintf0 (fold_left world_after h_F2 W_F2)) e1.
Proof. exact no_spurious_cycle_old_refuted. Qed.

(* The code before commit f646103 (finding F3) violates the lint-cache part: entity +
   architecture, the architecture is removed, the cache keeps its diagnostics. *)
Theorem C01_lint_cache_old_refuted :
  clean W_F3 /\ worlds_clean W_F3 h_F3 /\
  lint_of (start analyse_old_F3 W_F3 h_F3) (0, 1) <> lint_of (fresh lintf0 (fold_left world_after h_F3 W_F3)) (0, 1) /\
  lint_of (start analyse W_F3 h_F3) (0, 1) = lint_of (fresh lintf0 (fold_left world_after h_F3 W_F3)) (0, 1).
Proof. exact lint_cache_old_refuted. Qed.

(* and both pre-fix models fail inside the small scope *)
Theorem C01_old_models_fail_small_scope :
  existsb (fun W => existsb (fun b1 => negb (agrees_with_fresh analyse_old_F3 all_uids all_keys W [b1])) (edits 7))
          (every 53 small_worlds) = true /\
  existsb (fun W => existsb (fun b1 => existsb (fun b2 =>
     negb (agrees_with_fresh analyse_old_F2 all_uids all_keys W [b1; b2])) (edits 8)) (edits 7))
          (firstn 3 (every 53 small_worlds)) = true.
Proof. exact sweep_old_fails. Qed.

(* the side condition of the property is needed: with a name defined twice the surviving
   unit (and with it every result) depends on the arrival order *)
Example C01_duplicates_excluded_is_needed :
  let W1 := [(p0, sprog 1 []); (mkUid 0 (KPrimary PEntity 0), sprog 2 [])] in
  let W2 := [(mkUid 0 (KPrimary PEntity 0), sprog 2 []); (p0, sprog 1 [])] in
  ~ wf_world W1 /\ memo_of (fresh lintf0 W1) p0 <> memo_of (fresh lintf0 W2) p0.
Proof. exact duplicates_excluded_is_needed. Qed.

(* non-vacuity: a world with two libraries, `use library.all`, a missing unit, a package with
   body and an entity with architecture is well-formed and clean; a 4-step history over it
   (body removed, missing unit appears, used library changes, two units replaced at once)
   stays clean; the lint function of the examples satisfies lint_ok; the state reached by
   `fresh` records a read of each kind. *)
Example C01_inv_reachable :
  wf_world W_ex /\ clean W_ex /\ worlds_clean W_ex h_ex /\
  agrees_with_fresh analyse all_uids all_keys W_ex h_ex = true /\
  fresh lintf0 W_ex = Ok ex_state /\
  existsb (edge_eqb (q0, p0)) (users_of (a_maps (sast ex_state))) = true /\
  existsb (lpair_eqb (1, e1)) (users_all (a_maps (sast ex_state))) = true /\
  existsb (mpair_eqb (mkSlot 1 7 None, e1)) (missing (a_maps (sast ex_state))) = true /\
  option_map snd (memo_get (a_memo (sast ex_state)) p0)
    = Some [(QHasBody, ABool true); (QUnit (u_slot q0), AUnit q0 (Res false 5))].
Proof. exact inv_reachable. Qed.

Example C01_lint_ok_satisfiable : lint_ok lintf0.
Proof. exact lintf0_ok. Qed.

(* ======================================================================================== *)
(* ALL worlds (circular dependencies included), analyses that propagate the error            *)

(* the fuel `length W` decides whether a unit's reads reach a cycle *)
Theorem C01_den_fuel_bound : forall W, prop_world W ->
  forall g u e, den g W u = Some e -> den (length W) W u = Some e.
Proof. exact den_bound. Qed.

(* the analysis computes the static reference result of a unit from any state that satisfies
   the invariant, in any world: `stk` are the units under analysis, each a registered user of
   the one above it; no deadlock, no fuel exhaustion *)
Theorem C01_analysis_computes_reference_all_worlds : forall W, prop_world W -> wf_world W ->
  forall f stk A v ev, ref W v = Some ev -> good2 W A ->
  NoDup stk -> incl stk (unit_ids W) -> chain (users_of (a_maps A)) (v :: stk) ->
  (memo_get (a_memo A) v = None -> ~ In v stk) -> (length W < f + length stk)%nat ->
  exists A', get_analysis f W stk A v = Ok (A', fst ev)
    /\ memo_get (a_memo A') v = Some ev /\ good2 W A' /\ ext A A'.
Proof. exact get_analysis_sim2. Qed.

(* reset covers every changed read, also of units with a circular-dependency result (their
   reads include the read that failed: make_use_of inserts the edge before the cycle test) *)
Theorem C01_reset_covers_changed_reads_all_worlds : forall lintf Wo S b,
  quiescent2 lintf Wo S -> prop_world (world_after Wo b) ->
  exists rr, reset (a_maps (sast (apply_batch S b))) (added (apply_batch S b)) (removed (apply_batch S b)) = Some rr /\
    forall x, ref (world_after Wo b) x <> ref Wo x -> In x (rr_all rr).
Proof. exact reset_covers_changed_reads2. Qed.

Theorem C01_analyse_step_all_worlds : forall lintf Wo S b,
  lint_ok lintf -> quiescent2 lintf Wo S -> prop_world (world_after Wo b) ->
  exists S', analyse lintf (apply_batch S b) = Ok S' /\ quiescent2 lintf (world_after Wo b) S'.
Proof. exact analyse_step2. Qed.

(* MAIN, all worlds: for every history of update batches over worlds of propagating analyses
   (no other condition: cycles may exist, appear, change and disappear), at every step, the
   incremental run succeeds and its memo table and lint cache equal those of a project freshly
   loaded from the current world; both equal the static reference `ref`. *)
Theorem C01_incremental_eq_fresh_all_worlds : forall lintf W0 h,
  lint_ok lintf -> wf_world W0 -> prop_world W0 -> worlds_prop W0 h ->
  forall n, exists S0 S F,
    fresh lintf W0 = Ok S0 /\
    run_history (analyse lintf) S0 (firstn n h) = Ok S /\
    fresh lintf (fold_left world_after (firstn n h) W0) = Ok F /\
    units S = units F /\
    (forall x, memo_get (a_memo (sast S)) x = memo_get (a_memo (sast F)) x) /\
    (forall k, lint_get (lintc S) k = lint_get (lintc F) k) /\
    (forall x, memo_get (a_memo (sast S)) x = ref (fold_left world_after (firstn n h) W0) x).
Proof. exact incremental_eq_fresh_all_worlds. Qed.

(* a unit of the incremental run carries the circular-dependency flag iff its reads reach a
   cycle in the current world (iff the fresh run flags it, by the theorem above) *)
Theorem C01_no_spurious_cycle_all_worlds : forall lintf W0 h S0 S,
  lint_ok lintf -> wf_world W0 -> prop_world W0 -> worlds_prop W0 h ->
  fresh lintf W0 = Ok S0 -> run_history (analyse lintf) S0 h = Ok S ->
  forall x e, memo_get (a_memo (sast S)) x = Some e ->
    (r_circ (fst e) = true <-> den (length (fold_left world_after h W0)) (fold_left world_after h W0) x = None).
Proof. exact no_spurious_cycle_all_worlds. Qed.

(* the hypothesis `propagating` cannot be dropped: three units that discard the error, c uses
   b, a and b use each other; c is edited to use nothing.  a and b are (rightly) not reset,
   but a fresh analysis now enters the cycle at a instead of b and gives a another result. *)
Theorem C01_discarding_errors_breaks_equality :
  wf_world W_sw /\
  memo_of (start analyse W_sw h_sw) p0 <> memo_of (fresh lintf0 (fold_left world_after h_sw W_sw)) p0 /\
  (exists tr, option_map snd (memo_of (start analyse W_sw h_sw) p0) = Some tr /\ In (QUnit (u_slot e1), ACycle) tr) /\
  (exists tr, option_map snd (memo_of (fresh lintf0 (fold_left world_after h_sw W_sw)) p0) = Some tr /\
              ~ In (QUnit (u_slot e1), ACycle) tr) /\
  ~ prop_world W_sw.
Proof. exact discarding_errors_breaks_equality. Qed.

(* non-vacuity: the programs of the sweep propagate; a world with two cycles (one through
   `use library.all`) and a 5-step history in which users leave the cycles, the cycles are
   broken and come back satisfies the hypotheses; the worlds are not clean at the start and at
   the end, clean in between *)
Example C01_sprog_propagating : forall reqs tag, propagating (sprog tag reqs).
Proof. exact sprog_propagating. Qed.

Example C01_all_worlds_hyps_satisfiable :
  wf_world W_cyc /\ prop_world W_cyc /\ worlds_prop W_cyc h_cyc /\
  cleanb W_cyc = false /\ cleanb (fold_left world_after h_cyc W_cyc) = false /\
  cleanb (fold_left world_after (firstn 3 h_cyc) W_cyc) = true /\
  agrees_with_fresh analyse all_uids all_keys W_cyc h_cyc = true.
Proof. exact all_worlds_hyps_satisfiable. Qed.

Check C01_incremental_eq_fresh_partial : forall lintf W0 h,
  lint_ok lintf -> wf_world W0 -> clean W0 -> worlds_clean W0 h ->
  exists S0 S F,
    fresh lintf W0 = Ok S0 /\
    run_history (analyse lintf) S0 h = Ok S /\
    fresh lintf (fold_left world_after h W0) = Ok F /\
    units S = units F /\
    (forall x, memo_get (a_memo (sast S)) x = memo_get (a_memo (sast F)) x) /\
    (forall k, lint_get (lintc S) k = lint_get (lintc F) k).
Check C01_reset_covers_changed_reads : forall lintf Wo S b,
  quiescent lintf Wo S ->
  exists rr, reset (a_maps (sast (apply_batch S b))) (added (apply_batch S b)) (removed (apply_batch S b)) = Some rr /\
    forall g x e, den g Wo x = Some e -> den g (world_after Wo b) x <> Some e -> In x (rr_all rr).
Check C01_no_spurious_cycle : forall lintf W0 h S0 S,
  lint_ok lintf -> wf_world W0 -> clean W0 -> worlds_clean W0 h ->
  fresh lintf W0 = Ok S0 -> run_history (analyse lintf) S0 h = Ok S ->
  forall x e, memo_get (a_memo (sast S)) x = Some e ->
    r_circ (fst e) = false /\ Forall no_cycle_event (snd e).

Print Assumptions C01_get_all_affected_spec.
Print Assumptions C01_analysis_computes_reference.
Print Assumptions C01_reset_covers_changed_reads.
Print Assumptions C01_analyse_step.
Print Assumptions C01_incremental_eq_fresh_partial.
Print Assumptions C01_incremental_eq_fresh_every_step.
Print Assumptions C01_no_spurious_cycle.
Print Assumptions C01_incremental_eq_fresh_small_scope.
Print Assumptions C01_no_spurious_cycle_old_refuted.
Print Assumptions C01_lint_cache_old_refuted.
Print Assumptions C01_old_models_fail_small_scope.
Print Assumptions C01_duplicates_excluded_is_needed.
Print Assumptions C01_inv_reachable.
Print Assumptions C01_lint_ok_satisfiable.
Check C01_incremental_eq_fresh_all_worlds : forall lintf W0 h,
  lint_ok lintf -> wf_world W0 -> prop_world W0 -> worlds_prop W0 h ->
  forall n, exists S0 S F,
    fresh lintf W0 = Ok S0 /\
    run_history (analyse lintf) S0 (firstn n h) = Ok S /\
    fresh lintf (fold_left world_after (firstn n h) W0) = Ok F /\
    units S = units F /\
    (forall x, memo_get (a_memo (sast S)) x = memo_get (a_memo (sast F)) x) /\
    (forall k, lint_get (lintc S) k = lint_get (lintc F) k) /\
    (forall x, memo_get (a_memo (sast S)) x = ref (fold_left world_after (firstn n h) W0) x).
Print Assumptions C01_den_fuel_bound.
Print Assumptions C01_analysis_computes_reference_all_worlds.
Print Assumptions C01_reset_covers_changed_reads_all_worlds.
Print Assumptions C01_analyse_step_all_worlds.
Print Assumptions C01_incremental_eq_fresh_all_worlds.
Print Assumptions C01_no_spurious_cycle_all_worlds.
Print Assumptions C01_discarding_errors_breaks_equality.
Print Assumptions C01_sprog_propagating.
Print Assumptions C01_all_worlds_hyps_satisfiable.
