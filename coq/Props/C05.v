(* Props/C05.v — Valid programs produce no error diagnostics: the theorems about the REFERENCE semantics of the
   MiniVHDL fragment (Mini/Sem.v).  The analyser itself is tied to the reference by the correspondence run of
   checks/c05.py only (claim: partial).  Statements only; proofs in Mini/Proofs*.v, Mini/MiniProofs.v.
   DRAFT: the rewrite theorems are added when Mini/ProofsPhrase.v and Mini/ProofsAgree.v are complete. *)
From Coq Require Import List NArith Arith Bool.
Import ListNotations.
From RH Require Import Mini.Syntax Mini.Sem Mini.Typing Mini.Gen Mini.Walk Mini.Faults Mini.Rewrites Mini.MiniProofs.
Open Scope N_scope.

(* erasure: a complete-context expression / statement list with a typing derivation is accepted by the reference *)
Theorem C05_erase_WT : forall md GE G,
  (forall t (e : troot md GE G t), root md GE G t (erase_root md GE e) = Ok tt) /\
  (forall s : tstmts md GE G, check_stmts md GE G (erase_stmts md GE s) = Ok tt).
Proof. intros md GE G. split; [intros t e; exact (erase_root_WT md GE G t e) | intros s; exact (erase_stmts_WT md GE G s)]. Qed.

Theorem C05_gen_valid : forall choices, Valid (gen_program choices).
Proof. exact gen_valid. Qed.

Print Assumptions C05_erase_WT.
Print Assumptions C05_gen_valid.
