(* Props/C05.v — Valid programs produce no error diagnostics: the theorems about the REFERENCE static semantics
   of the MiniVHDL fragment (Mini/Sem.v: `check_program`, `Valid p := check_program p = Ok tt`).  The analyser itself
   (vhdl_lang/src/analysis, not modelled) is tied to the reference only by the correspondence run of checks/c05.py:
   the claim is PARTIAL (evidence level `other`).
   Statements only; proofs in Mini/ProofsTyping.v, Mini/ProofsPhrase*.v, Mini/ProofsAgree*.v, Mini/MiniProofs.v. *)
From Coq Require Import List NArith Arith Bool.
Import ListNotations.
From RH Require Import Mini.Syntax Mini.Sem Mini.Typing Mini.Gen Mini.Walk Mini.Faults Mini.Rewrites Mini.MiniProofs.
Open Scope N_scope.

(* Erasure.  Typed syntax = raw syntax packaged with a derivation of the declarative typing judgment
   (Mini/Typing.v).  Every derivable expression has an interpretation of its type in the reference; every derivable
   complete context and every derivable statement list is accepted by the reference (in both modes: with
   `unamb` as a premise of the judgment where the reference demands exactly one interpretation). *)
Theorem C05_erase_WT : forall md GE G,
  (forall e a, HasTy md GE G e a -> exists l, interp md GE G e = Ok l /\ existsb (sty_eqb a) l = true) /\
  (forall t (e : troot md GE G t), root md GE G t (erase_root md GE e) = Ok tt) /\
  (forall s : tstmts md GE G, check_stmts md GE G (erase_stmts md GE s) = Ok tt).
Proof.
  intros md GE G. split; [|split].
  - exact (hasty_sound md GE G).
  - intros t e. exact (erase_root_WT md GE G t e).
  - intros s. exact (erase_stmts_WT md GE G s).
Qed.

(* The generator (which builds expressions and statements as typed syntax and threads declarations and units
   through the reference) only returns Valid programs. *)
Theorem C05_gen_valid : forall choices, Valid (gen_program choices).
Proof. exact gen_valid. Qed.

(* Every listed rewrite preserves validity where it is applicable ... *)
Theorem C05_rewrites_preserve_valid : forall r p,
  Valid p -> applicable r p = true -> Valid (apply_rewrite r p).
Proof. exact rewrite_valid. Qed.
(* ... and so does every composition. *)
Theorem C05_rewrites_compose : forall rs p,
  Valid p -> applicable_all rs p = true -> Valid (apply_rewrites rs p).
Proof. exact rewrites_valid. Qed.

(* The individual rewrites (R1 swap of independent declarations, R2 positional <-> named association, R3 selected
   names, R4 wrap in a block, R5 added unused declaration).  `RUseItems` (item-wise use clause) and `RAddLocal` (a local
   declaration that OVERLOADS a designator of an enclosing region: an enumeration type re-using a literal, an integer
   type with its implicit operators, a subprogram with an outer name and a profile of its own — whether the program
   stays valid depends on how the designator is used, which the counting semantics decides) are the two rewrites
   whose `applicable` re-runs the reference on the result, so their preservation is immediate; for the others
   `applicable` is a syntactic side condition (R1, R5) or the acceptance of the one rewritten phrase in the
   environment of the original phrase (R2, R3, R4). *)
Theorem C05_swap_valid : forall p s,
  Valid p -> applicable (RSwap s) p = true -> Valid (apply_rewrite (RSwap s) p).
Proof. exact swap_valid. Qed.
Theorem C05_phrase_rewrites_valid : forall p r,
  Valid p -> phrase_rewrite r -> applicable r p = true -> Valid (apply_rewrite r p).
Proof. exact rewrite_phrase_valid. Qed.
Theorem C05_adddecl_valid : forall p s x k,
  Valid p -> applicable (RAddDecl s x k) p = true -> Valid (apply_rewrite (RAddDecl s x k) p).
Proof. exact adddecl_valid. Qed.
(* the first formulation of R5's side condition was too weak: the counterexample, kept as a regression *)
Example C05_adddecl_old_refuted :
  Valid adddecl_cex /\ applicable (RAddDecl 103 id_false 0) adddecl_cex = false /\
  check_program (apply_rewrite (RAddDecl 103 id_false 0) adddecl_cex) = Bad 104 Conservative.
Proof. exact adddecl_cex_not_applicable. Qed.

(* Non-vacuity: a generated program with two non-empty libraries and overloaded subprograms; it is Valid, its node
   ids are pairwise different, and a chain of three different rewrites is applicable to it (and changes it: the number of nodes differs). *)
Example C05_example :
  let p := example_program in
  map (fun l => Nat.ltb 0 (length (l_units l))) p = [true; true] /\
  has_overloads p = true /\ valid_b p = true /\ nodup_nids p = true /\ gen_fell_back example_choices = false /\
  exists rs, length rs = 3%nat /\ applicable_all rs p = true /\
             Nat.eqb (length (nids_program (apply_rewrites rs p))) (length (nids_program p)) = false.
Proof. exact example_C05. Qed.

Check C05_erase_WT : forall md GE G,
  (forall e a, HasTy md GE G e a -> exists l, interp md GE G e = Ok l /\ existsb (sty_eqb a) l = true) /\
  (forall t (e : troot md GE G t), root md GE G t (erase_root md GE e) = Ok tt) /\
  (forall s : tstmts md GE G, check_stmts md GE G (erase_stmts md GE s) = Ok tt).
Check C05_gen_valid : forall choices, Valid (gen_program choices).
Check C05_rewrites_preserve_valid : forall r p, Valid p -> applicable r p = true -> Valid (apply_rewrite r p).
Check C05_rewrites_compose : forall rs p, Valid p -> applicable_all rs p = true -> Valid (apply_rewrites rs p).

Print Assumptions C05_erase_WT.
Print Assumptions C05_gen_valid.
Print Assumptions C05_rewrites_preserve_valid.
Print Assumptions C05_rewrites_compose.
Print Assumptions C05_swap_valid.
Print Assumptions C05_phrase_rewrites_valid.
Print Assumptions C05_adddecl_valid.
Print Assumptions C05_adddecl_old_refuted.
Print Assumptions C05_example.
