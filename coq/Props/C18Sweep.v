(* Props/C18Sweep.v — thorough tier only: agreement of the two lexer models for ALL strings of length
   <= 4 over the 24-symbol alphabet ALPHA (346 201 inputs) by vm_compute (about 4 minutes). *)
From Coq Require Import List NArith Arith Bool.
Import ListNotations.
From RH Require Import Lex.LexGrammar Lex.Agree Lex.AgreeSweep.
Open Scope N_scope.

Lemma sweep4 : forallb agree_or_known (strings_upto ALPHA 4) = true.
Proof. vm_compute. reflexivity. Qed.

Theorem C18_lexemes_agree_bounded4 : forall s, (length s <= 4)%nat -> Forall (fun c => In c ALPHA) s ->
  in_quantifier s = true -> known_difference s = false -> lexemes_lang s = lexemes_syn s.
Proof.
  intros s Hl Ha Q K. apply agree_or_known_sound; [|exact Q|exact K].
  pose proof sweep4 as S. rewrite forallb_forall in S. apply S. apply strings_upto_complete; assumption.
Qed.
Print Assumptions C18_lexemes_agree_bounded4.
