(* Props/C09.v — Rename is meaning-preserving.
   Statements only: each theorem is closed by `exact` of a lemma proved in Lsp/EditsProofs.v,
   the main ones are pinned by `Check`, each is followed by `Print Assumptions`.

   FULL PROPERTY (for the record; see DESIGN.md section 8, claim PARTIAL):
     for every error-free analysed project P, every renameable declaration d of P and every
     identifier n that does not occur in P:  let E = rename(P, d, n) be the edits the server
     returns; then  analyse(apply(P, E))  has the diagnostics of analyse(P) up to the
     substituted name and the reference map of apply(P, E) is that of P with d renamed; E
     covers every occurrence of d and nothing else; prepareRename refuses operator symbols
     and character literals.
   PROVED HERE:
     (a) the edit algebra: what `apply` does with a set of edits (simultaneous replacement,
         independence of the order, every byte outside the ranges unchanged, line structure
         preserved, the replaced tokens are again single identifier tokens), and that the
         boolean run-time checker `rename_edits_ok` implies all of it;
     (b) the glue code rename.rs: one edit per returned reference, grouped by file, nothing
         deduplicated; prepare_rename refuses every non-identifier designator;
     (c) on a reference semantics of name resolution: renaming one declaration and exactly the
         uses that resolve to it to a fresh name leaves the resolution graph unchanged, and a
         rename that misses an occurrence does not.
   NOT PROVED (explored by checks/c09.py on generated projects through the real server):
     that `find_all_references` of the implementation returns exactly the occurrences of the
     entity (C08 relates it to item_at_cursor), and that the real analyser behaves like the
     reference semantics. *)
From Coq Require Import List NArith Arith Bool Permutation.
Import ListNotations.
From RH Require Import Text.Contents Text.Splice Lsp.Edits Lsp.Rename Lsp.EditsProofs.

(* ---- (a) edit algebra ---------------------------------------------------------------- *)

(* Sorted, pairwise disjoint edits applied back-to-front give the concatenation of the
   untouched gaps and the replacements. *)
Theorem C09_edits_replace_exactly :
  forall s es, wf_sorted 0 (length s) es = true -> apply_sorted s es = simul s 0 es.
Proof. exact edits_replace_exactly. Qed.

(* Every character outside the edit ranges is unchanged (found at its shifted offset). *)
Theorem C09_outside_unchanged :
  forall s es i, wf_sorted 0 (length s) es = true -> outside es i = true -> i < length s ->
    nth_error (simul s 0 es) (new_index es i) = nth_error s i.
Proof. exact outside_unchanged. Qed.

(* Every replacement text is present at the shifted start of its range. *)
Theorem C09_replacement_present :
  forall s es e, wf_sorted 0 (length s) es = true -> forallb (oe_inside (length s)) es = true ->
    In e es ->
    sub (simul s 0 es) (new_start es e) (new_start es e + length (oe_text e)) = oe_text e.
Proof. exact replacement_present. Qed.

(* Any arrival order of a set of pairwise disjoint non-empty edits (ranges against the
   original document), applied back-to-front, is the simultaneous replacement. *)
Theorem C09_apply_order_irrelevant :
  forall s es es', wf_set (length s) es = true -> Permutation es es' ->
    apply_oedits s es' = simul s 0 (sort_oe es) /\ apply_oedits s es' = apply_oedits s es.
Proof. exact apply_order_irrelevant. Qed.

(* Two identical edits are not a well-formed set and corrupt the text: hence the run-time
   check that no position is returned twice. *)
Theorem C09_duplicate_edits_break :
  exists s e, oe_inside (length s) e = true /\ wf_set (length s) [e; e] = false /\
              apply_oedits s [e; e] <> apply_oedits s [e].
Proof. exact duplicate_edits_break. Qed.

Theorem C09_checker_rejects_duplicates :
  forall s old new es, rename_edits_ok s old new es = true -> NoDup es.
Proof. exact edits_ok_nodup. Qed.

(* Token-level theorem = soundness of the run-time checker: if every edit range is exactly
   one identifier token spelled like the old name (up to case), the ranges are pairwise
   disjoint and the new name is a basic identifier, then the result is the simultaneous
   replacement, every character outside the ranges is unchanged and stays on its line, the
   number of lines is unchanged, and each replaced occurrence is again exactly one
   identifier token, spelled as the new name (no neighbouring token is merged or split). *)
Theorem C09_rename_edits_sound :
  forall s old new es, rename_edits_ok s old new es = true ->
    let ses := sort_oe es in
    let r := apply_oedits s es in
    r = simul s 0 ses
    /\ (forall i, i < length s -> outside es i = true ->
          nth_error r (new_index ses i) = nth_error s i
          /\ line_of r (new_index ses i) = line_of s i)
    /\ (forall e, In e es ->
          let a' := new_start ses e in
          ident_token r a' (a' + length new) = true /\ sub r a' (a' + length new) = new)
    /\ count_lf r = count_lf s.
Proof. exact rename_edits_sound. Qed.

(* ---- (b) rename.rs ------------------------------------------------------------------- *)

Theorem C09_prepare_refuses :
  forall c p,
    (forall s, prepare_rename c (Some (p, DOperatorSymbol s)) = None)
    /\ (forall ch, prepare_rename c (Some (p, DCharacter ch)) = None)
    /\ (forall n, prepare_rename c (Some (p, DAnonymous n)) = None)
    /\ prepare_rename c None = None.
Proof. exact prepare_refuses. Qed.

Theorem C09_prepare_accepts :
  forall c p n, ctx_ok c = true ->
    prepare_rename c (Some (p, DIdentifier n)) = Some (sp_start p, sp_end p).
Proof. exact prepare_accepts. Qed.

(* One edit per returned reference, per file in the order returned. *)
Theorem C09_rename_edits_of :
  forall new refs f, edits_of (rename_changes new refs) f = map (mk_edit new) (refs_in f refs).
Proof. exact rename_edits_of. Qed.

Theorem C09_rename_edit_count :
  forall new refs, length (concat (map snd (rename_changes new refs))) = length refs.
Proof. exact rename_edit_count. Qed.

(* Nothing is deduplicated: the edits of a file are duplicate-free iff the references are. *)
Theorem C09_rename_keeps_duplicates :
  forall new refs f, NoDup (edits_of (rename_changes new refs) f) <-> NoDup (refs_in f refs).
Proof. exact rename_keeps_duplicates. Qed.

(* ---- (c) reference semantics --------------------------------------------------------- *)

Theorem C09_alpha_rename_preserves :
  forall p d new, fresh new p = true -> resolve (alpha_rename d new p) = resolve p.
Proof. exact alpha_rename_preserves. Qed.

Theorem C09_alpha_rename_valid :
  forall p d new, fresh new p = true -> valid_prog p = true -> valid_prog (alpha_rename d new p) = true.
Proof. exact alpha_rename_valid. Qed.

(* no occurrence missed / nothing else touched, on the reference semantics *)
Theorem C09_alpha_rename_exact :
  forall p d new i,
    (nth_error (resolve p) i = Some (Some d) -> nth_error (alpha_rename d new p) i = Some (IUse new))
    /\ (is_decl_at p d = true -> nth_error (alpha_rename d new p) d = Some (IDecl new))
    /\ (i <> d -> nth_error (resolve p) i <> Some (Some d) ->
        nth_error (alpha_rename d new p) i = nth_error p i).
Proof. exact alpha_rename_exact. Qed.

(* a rename that misses one occurrence changes the resolution graph *)
Theorem C09_missed_occurrence_breaks :
  exists p p' d new, fresh new p = true /\ valid_prog p = true /\
    p' = [IDecl new; IUse 1%N] /\ alpha_rename d new p = [IDecl new; IUse new] /\
    resolve p' <> resolve p /\ valid_prog p' = false.
Proof. exact missed_occurrence_breaks. Qed.

(* ---- non-vacuity -------------------------------------------------------------------- *)
(* "sig <= sig_2 or SIG;" with the two occurrences of `sig` (one spelled SIG) renamed to `n1`:
   the hypotheses of C09_rename_edits_sound hold and the result is as expected. *)
Example C09_hyps_satisfiable :
  let s := [115; 105; 103; 32; 60; 61; 32; 115; 105; 103; 95; 50; 32; 111; 114; 32; 83; 73; 71; 59; 10]%N in
  let es := [(16, 19, [110; 49]%N); (0, 3, [110; 49]%N)] in
  rename_edits_ok s [115; 105; 103]%N [110; 49]%N es = true
  /\ apply_oedits s es = [110; 49; 32; 60; 61; 32; 115; 105; 103; 95; 50; 32; 111; 114; 32; 110; 49; 59; 10]%N
  /\ apply_edits s [TE 0 16 0 19 [110; 49]%N; TE 0 0 0 3 [110; 49]%N] = apply_oedits s es
  /\ rename_edits_ok s [115; 105; 103]%N [110; 49]%N [(7, 10, [110; 49]%N)] = false.
Proof. exact hyps_satisfiable. Qed.

Check C09_edits_replace_exactly :
  forall s es, wf_sorted 0 (length s) es = true -> apply_sorted s es = simul s 0 es.
Check C09_apply_order_irrelevant :
  forall s es es', wf_set (length s) es = true -> Permutation es es' ->
    apply_oedits s es' = simul s 0 (sort_oe es) /\ apply_oedits s es' = apply_oedits s es.
Check C09_prepare_refuses :
  forall c p,
    (forall s, prepare_rename c (Some (p, DOperatorSymbol s)) = None)
    /\ (forall ch, prepare_rename c (Some (p, DCharacter ch)) = None)
    /\ (forall n, prepare_rename c (Some (p, DAnonymous n)) = None)
    /\ prepare_rename c None = None.
Check C09_alpha_rename_preserves :
  forall p d new, fresh new p = true -> resolve (alpha_rename d new p) = resolve p.

Print Assumptions C09_edits_replace_exactly.
Print Assumptions C09_outside_unchanged.
Print Assumptions C09_replacement_present.
Print Assumptions C09_apply_order_irrelevant.
Print Assumptions C09_duplicate_edits_break.
Print Assumptions C09_checker_rejects_duplicates.
Print Assumptions C09_rename_edits_sound.
Print Assumptions C09_prepare_refuses.
Print Assumptions C09_prepare_accepts.
Print Assumptions C09_rename_edits_of.
Print Assumptions C09_rename_edit_count.
Print Assumptions C09_rename_keeps_duplicates.
Print Assumptions C09_alpha_rename_preserves.
Print Assumptions C09_alpha_rename_valid.
Print Assumptions C09_alpha_rename_exact.
Print Assumptions C09_missed_occurrence_breaks.
Print Assumptions C09_hyps_satisfiable.
