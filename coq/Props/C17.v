(* Props/C17.v — Concrete syntax trees are lossless and tree edits are local (crate vhdl_syntax).
   Statements only: each theorem is closed by `exact` of a lemma proved in Lex/SynLexerProofs.v or
   Cst/CstProofs.v, the main ones are pinned by `Check`, all are followed by `Print Assumptions`.

   Models: Lex/SynLexer.v (byte tokenizer, trivia, merge_bit_string_literals), Cst/Green.v (green trees,
   red offsets), Cst/Builder.v (NodeBuilder stack machine, parser utilities and error spans),
   Cst/Rewrite.v (Rewriter, TokenRewriter).

   Partial (stated here, observed per input by checks/c17.py, not proved): that the parser productions
   of vhdl_syntax consume every token of the stream and close every node they open.  The productions
   are abstracted as an arbitrary program `ops` over the parser utilities; `C17_parse_lossless`
   has the hypotheses `rest = []`, `d = None` ("all tokens consumed") and "the program ends without a
   panic"; `C17_parse_lossless_bail` derives them for a program that bailed out and closes its root. *)
From Coq Require Import List NArith Arith Bool.
Import ListNotations.
From RH Require Import Lex.SynLexer Lex.SynLexerProofs Cst.Green Cst.Builder Cst.Rewrite Cst.CstProofs.
Open Scope N_scope.

Notation printed ts := (concat (map (fun x : ltok => token_bytes (fst x)) ts)).

(* ---------------------------------------------------------------------------------------------- *)
(* Lexing                                                                                         *)
(* ---------------------------------------------------------------------------------------------- *)

(* The tokenizer terminates without panic on every byte sequence and keyword table: neither the
   fuel bound nor the `unreachable!` of `next` is ever hit. *)
Theorem C17_lex_total : forall kws bs, exists ts, synlex kws bs = LexOk ts.
Proof. exact synlex_total. Qed.

(* Printing the tokens (leading trivia, then text) reproduces the input byte for byte, and the
   `byte_len`s tile it: their sum is the input length.  Every byte sequence. *)
Theorem C17_lex_lossless :
  forall kws bs, exists ts,
    synlex kws bs = LexOk ts /\
    printed ts = bs /\
    fold_right (fun x acc => tok_len (fst x) + acc) 0 ts = N.of_nat (length bs).
Proof. exact synlex_lossless. Qed.

(* `byte_len` is the printed length, for every token and trivia piece (also hand-made ones). *)
Theorem C17_tok_len_printed : forall t, tok_len t = N.of_nat (length (token_bytes t)).
Proof. exact tok_len_bytes. Qed.

(* The token sequence is a non-empty sequence of non-Eof tokens with non-empty text, then one Eof
   token with empty text; lexer errors refer to existing trivia pieces. *)
Theorem C17_lex_shape :
  forall kws bs ts, synlex kws bs = LexOk ts ->
    exists front eof e,
      ts = front ++ [(eof, e)] /\ t_kind eof = KEof /\ t_text eof = [] /\
      Forall (fun x : ltok => t_kind (fst x) <> KEof /\ t_text (fst x) <> []) front /\
      forallb err_ok ts = true.
Proof. exact synlex_shape. Qed.

(* The code before the repair of F10 prints an unterminated block comment with a closing `*/`:
   the statement of C17_lex_lossless fails on "/*" (printed "/**/", byte_len 4). *)
Theorem C17_lex_old_refuted :
  exists bs ts, synlex_old kw2008 bs = LexOk ts /\ printed ts <> bs /\
    fold_right (fun x acc => tok_len (fst x) + acc) 0 ts <> N.of_nat (length bs).
Proof. exact synlex_old_refuted. Qed.

(* merge_bit_string_literals changes neither the printed bytes nor the validity of error positions *)
Theorem C17_merge_lossless :
  forall ts, printed (merge ts) = printed ts /\
             (forallb err_ok ts = true -> forallb err_ok (merge ts) = true).
Proof. exact merge_lossless. Qed.

(* `TokenStream::from(bytes)` *)
Theorem C17_token_stream_lossless :
  forall kws bs, exists ts, token_stream kws bs = Some ts /\ printed ts = bs /\ forallb err_ok ts = true.
Proof. exact token_stream_lossless. Qed.

(* ---------------------------------------------------------------------------------------------- *)
(* Building                                                                                       *)
(* ---------------------------------------------------------------------------------------------- *)

(* Every builder program that ends without a panic yields a root whose text is exactly what was
   pushed, in order, whose tokens are the pushed tokens, and whose cached lengths are right. *)
Theorem C17_builder_lossless :
  forall ops root, forallb op_ok ops = true -> build ops = Some root ->
    bytes_of root = pushed_bytes ops /\
    leaves root = pushed_leaves ops /\
    len_ok root = true /\
    glen root = N.of_nat (length (pushed_bytes ops)).
Proof. exact builder_lossless. Qed.

(* `current_pos()` is the length of the text pushed so far *)
Theorem C17_builder_current_pos :
  forall ops s, forallb op_ok ops = true -> b_run ops b_init = BOk s ->
    b_text_len s = N.of_nat (length (pushed_bytes ops)).
Proof. exact builder_current_pos. Qed.

(* The parser as a program over its utilities (skip/expect/opt = take one token, start_node, end_node,
   start_node_at, expect_tokens_recover; since d10aa14 also the bail-out of check_nesting_depth after
   more than `max` open nodes and push_deferred_tokens when the root is closed): if it ends without
   panic, the tree, the unconsumed stream and the tokens still set aside print the input; if nothing
   is left the tree prints the input; in any case every reported error span lies within the input. *)
Theorem C17_parse_lossless :
  forall max kws bs ts ops root errs rest d,
    token_stream kws bs = Some ts -> parse_with max ops ts = Some (root, errs, rest, d) ->
    bytes_of root ++ printed rest ++ printed (deferred_list d) = bs /\
    len_ok root = true /\
    (rest = [] -> d = None ->
       bytes_of root = bs /\ leaves root = map fst ts /\ glen root = N.of_nat (length bs)).
Proof. exact parse_lossless. Qed.

(* Bail-out on input that is nested too deep: a program that has set tokens aside and then closes its
   root node has consumed every token, and the tree prints the input (lossless after bail-out). *)
Theorem C17_parse_lossless_bail :
  forall max kws bs ts ops s1 dts s2 root,
    token_stream kws bs = Some ts -> p_run max ops (p_init ts) = POk s1 ->
    p_deferred s1 = Some dts -> p_depth s1 = 1%nat ->
    p_step max PEnd s1 = POk s2 -> b_end (p_builder s2) = Some root ->
    p_stream s2 = [] /\ p_deferred s2 = None /\ bytes_of root = bs /\ leaves root = map fst ts /\
    len_ok root = true /\ glen root = N.of_nat (length bs).
Proof. exact parse_lossless_bail. Qed.

Theorem C17_error_spans_inside :
  forall max kws bs ts ops root errs rest d,
    token_stream kws bs = Some ts -> parse_with max ops ts = Some (root, errs, rest, d) ->
    Forall (fun sp : N * N => fst sp <= snd sp /\ snd sp <= N.of_nat (length bs)) errs.
Proof. exact error_spans_inside. Qed.

(* Finding F25: `expect_tokens_recover` has the precondition "the next token is not expected"
   (a debug_assert).  A production that calls it otherwise (concurrent_statement.rs did before commit
   22440b9, for a label that is not followed by a statement: `architecture a of e is begin l: end;`;
   sequential_statement.rs did before b0ec70e: `process begin l: end process;`) makes the parser
   panic in builds with debug assertions and report an inverted span (start > end) in builds
   without.  The inputs are in corpus/C17.cases. *)
Theorem C17_recover_contract_violation :
  exists s, p_recover 0 true s = PCrash /\
    exists s', p_recover_noassert 0 true s = POk s' /\
      exists sp, In sp (p_errors s') /\ snd sp < fst sp.
Proof. exact recover_contract_violation. Qed.

(* on lexer-produced streams the slice indexing of from_lex_err never panics *)
Theorem C17_take_never_crashes :
  forall s, forallb err_ok (p_stream s) = true -> exists s', p_take s = POk s'.
Proof. exact take_never_crashes. Qed.

(* ---------------------------------------------------------------------------------------------- *)
(* Offsets                                                                                        *)
(* ---------------------------------------------------------------------------------------------- *)

(* Node and token offsets tile the text exactly: the children of every node are adjacent and cover
   the node's range; every element of the red tree denotes exactly the slice of the root text at its
   range; token offsets are the prefix sums of the token lengths. *)
Theorem C17_offsets_tile :
  forall root, len_ok root = true ->
    glen root = N.of_nat (length (bytes_of root)) /\
    leaf_offsets 0 root = scan_offsets 0 (leaves root) /\
    (forall o c, In (o, c) (red_walk 0 root) ->
       bytes_of c = slice o (glen c) (bytes_of root) /\
       o + glen c <= glen root /\
       match c with
       | GTok _ => True
       | GNode _ cs l => tiles o (o + l) (map (fun oc => (fst oc, glen (snd oc))) (red_children o cs))
       end).
Proof. exact offsets_tile. Qed.

(* ---------------------------------------------------------------------------------------------- *)
(* Rewriting                                                                                      *)
(* ---------------------------------------------------------------------------------------------- *)

(* The identity action yields an identical tree (cached lengths included), through both interfaces. *)
Theorem C17_rewrite_leave_id :
  forall g, len_ok g = true -> rewrite leave_all tt g = g.
Proof. exact rewrite_leave_id. Qed.

Theorem C17_token_rewrite_keep_id :
  forall g, len_ok g = true -> token_rewrite no_hook keep_all no_hook tt g = g.
Proof. exact token_rewrite_keep_id. Qed.

(* Before the repair of F11 `Keep` pushed nothing: the result of the identity rewrite was empty. *)
Theorem C17_token_rewrite_keep_id_old_refuted :
  exists g, len_ok g = true /\ token_rewrite_old no_hook keep_all no_hook tt g <> g /\
            bytes_of (token_rewrite_old no_hook keep_all no_hook tt g) <> bytes_of g.
Proof. exact token_rewrite_keep_id_old_refuted. Qed.

(* Replacing the i-th token changes only that token: the text before and after it is unchanged,
   the other tokens are the same, the cached lengths of the new tree are right.  TokenRewriter: *)
Theorem C17_replace_one_token_local :
  forall k cs l i t t', let g := GNode k cs l in
    nth_error (leaves g) i = Some t ->
    let g' := token_rewrite nat_hook (replace_nth_t i t') nat_hook 0%nat g in
    let pre := concat (map token_bytes (firstn i (leaves g))) in
    let post := concat (map token_bytes (skipn (S i) (leaves g))) in
    bytes_of g = pre ++ token_bytes t ++ post /\
    bytes_of g' = pre ++ token_bytes t' ++ post /\
    leaves g' = firstn i (leaves g) ++ [t'] ++ skipn (S i) (leaves g) /\
    len_ok g' = true.
Proof. exact replace_one_token_local_t. Qed.

(* Rewriter with `Change`: *)
Theorem C17_replace_one_token_local_rewriter :
  forall k cs l i t t', let g := GNode k cs l in
    nth_error (leaves g) i = Some t ->
    let g' := rewrite (replace_nth_e i t') 0%nat g in
    let pre := concat (map token_bytes (firstn i (leaves g))) in
    let post := concat (map token_bytes (skipn (S i) (leaves g))) in
    bytes_of g = pre ++ token_bytes t ++ post /\
    bytes_of g' = pre ++ token_bytes t' ++ post /\
    leaves g' = firstn i (leaves g) ++ [t'] ++ skipn (S i) (leaves g) /\
    len_ok g' = true.
Proof. exact replace_one_token_local_e. Qed.

(* `clone_with_text`: only the bytes of the token's text change (leading trivia kept). *)
Theorem C17_replace_text_local :
  forall k cs l i t new, let g := GNode k cs l in
    nth_error (leaves g) i = Some t ->
    let g' := token_rewrite nat_hook (replace_nth_t i (clone_with_text t new)) nat_hook 0%nat g in
    let pre := concat (map token_bytes (firstn i (leaves g))) ++ trivia_bytes (t_trivia t) in
    let post := concat (map token_bytes (skipn (S i) (leaves g))) in
    bytes_of g = pre ++ t_text t ++ post /\ bytes_of g' = pre ++ new ++ post.
Proof. exact replace_text_local. Qed.

(* `clone_with_leading_trivia`: a replacement that differs from the original token only in its leading
   trivia (the formatter-style edit) changes exactly the trivia bytes, through both interfaces. *)
Theorem C17_replace_trivia_local :
  forall k cs l i t tr, let g := GNode k cs l in
    nth_error (leaves g) i = Some t ->
    let t' := clone_with_leading_trivia t tr in
    let g1 := token_rewrite nat_hook (replace_nth_t i t') nat_hook 0%nat g in
    let g2 := rewrite (replace_nth_e i t') 0%nat g in
    let pre := concat (map token_bytes (firstn i (leaves g))) in
    let post := t_text t ++ concat (map token_bytes (skipn (S i) (leaves g))) in
    bytes_of g = pre ++ trivia_bytes (t_trivia t) ++ post /\
    bytes_of g1 = pre ++ trivia_bytes tr ++ post /\ bytes_of g2 = pre ++ trivia_bytes tr ++ post /\
    len_ok g1 = true /\ len_ok g2 = true.
Proof. exact replace_trivia_local. Qed.

(* `Token::set_leading_trivia` (also behind the builders' with_<token>_trivia / with_trivia setters): the
   token's byte_len is the printed length of the modified token, and a tree that receives such a token through
   either rewriter (clone_with_token) has right cached lengths everywhere: root length = printed length. *)
Theorem C17_set_leading_trivia_len :
  forall t tr,
    tok_len (set_leading_trivia t tr) = trivia_len tr + text_len t /\
    tok_len (set_leading_trivia t tr) = N.of_nat (length (token_bytes (set_leading_trivia t tr))) /\
    token_bytes (set_leading_trivia t tr) = trivia_bytes tr ++ t_text t.
Proof. exact set_leading_trivia_len. Qed.

Theorem C17_replace_set_trivia_consistent :
  forall k cs l i t tr, let g := GNode k cs l in
    nth_error (leaves g) i = Some t ->
    let t' := clone_with_token t (set_leading_trivia t tr) in
    let g1 := token_rewrite nat_hook (replace_nth_t i t') nat_hook 0%nat g in
    let g2 := rewrite (replace_nth_e i t') 0%nat g in
    len_ok g1 = true /\ len_ok g2 = true /\
    glen g1 = N.of_nat (length (bytes_of g1)) /\ glen g2 = N.of_nat (length (bytes_of g2)) /\
    bytes_of g1 = bytes_of g2.
Proof. exact replace_set_trivia_consistent. Qed.

(* ---------------------------------------------------------------------------------------------- *)
(* Non-vacuity: concrete inputs that exercise the hypotheses                                      *)
(* ---------------------------------------------------------------------------------------------- *)

(* a 57-byte input with every trivia kind, two bit strings (merged), a character literal after `(`,
   `1:=2` (F13), an illegal byte and an unterminated block comment: 13 tokens, two lexer errors *)
Definition ex_bs : list byte :=
  [9; 11; 13; 10; 13; 10; 13; 12; 10; 32; 45; 45; 99; 10; 47; 42; 98; 42; 47; 160; 32; 120; 34; 49; 70;
   34; 32; 49; 48; 117; 98; 34; 48; 34; 32; 116; 39; 40; 39; 97; 39; 41; 32; 49; 58; 61; 50; 32; 36; 32;
   92; 101; 92; 32; 47; 42; 117].
Example C17_ex_lex :
  exists ts, token_stream kw2008 ex_bs = Some ts /\ printed ts = ex_bs /\
    map (fun x : ltok => t_kind (fst x)) ts =
      [KBitStringLiteral; KBitStringLiteral; KIdentifier; KTick; KLeftPar; KCharacterLiteral; KRightPar;
       KAbstractLiteral; KColonEq; KAbstractLiteral; KUnknown; KIdentifier; KEof] /\
    map snd ts = [None; None; None; None; None; None; None; None; None; None;
                  Some (EIllegal, PToken); None; Some (EUntermBlockComment, PTrivia 1)] /\
    map (fun x : ltok => t_trivia (fst x)) ts =
      [[HTabs 1; VTabs 1; CRLFs 2; CRs 1; FFs 1; LFs 1; Spaces 1; LineC [99]; LFs 1; BlockC [98];
        NBSPs 1; Spaces 1]; [Spaces 1]; [Spaces 1]; []; []; []; []; [Spaces 1]; []; []; [Spaces 1];
       [Spaces 1]; [Spaces 1; UBlockC [117]]].
Proof. exact ex_lex. Qed.

(* a builder program with a checkpoint (start_node_at), an elided empty node and nested nodes ends
   without panic; the red offsets of its tree *)
Definition ex_ta := mkTok KIdentifier [97] [].
Definition ex_tb := mkTok KIdentifier [98] [Spaces 1; LineC [120]; LFs 1].
Definition ex_te := mkTok KEof [] [LFs 1].
Definition ex_ops : list bop :=
  [OStart 1; OPush ex_ta; OStart 2; OEnd; OStart 3; OPush ex_tb; OEnd; OStartAt 1 4; OEnd; OPush ex_te; OEnd].
Definition ex_tree : green :=
  GNode 1 [GTok ex_ta; GNode 4 [GNode 3 [GTok ex_tb] 6] 6; GTok ex_te] 8.
Example C17_ex_build :
  forallb op_ok ex_ops = true /\ build ex_ops = Some ex_tree /\
  bytes_of ex_tree = [97; 32; 45; 45; 120; 10; 98; 10] /\
  map fst (red_walk 0 ex_tree) = [0; 0; 1; 1; 1; 7] /\
  leaf_offsets 0 ex_tree = [(0, ex_ta); (1, ex_tb); (7, ex_te)].
Proof. exact ex_build. Qed.

(* a parser program over the token stream of "a $ b /*": it consumes everything and reports the lexer
   error of `$`, one recovery error and the unterminated comment, all inside the 8 input bytes *)
Example C17_ex_parse :
  exists ts root, token_stream kw2008 [97; 32; 36; 32; 98; 32; 47; 42] = Some ts /\
    parse_with 1024 [PStart 1; PTake; PStart 2; PRecover 2 false; PEnd; PTake; PEnd] ts
      = Some (root, [(2, 3); (2, 5); (6, 8)], [], None) /\
    bytes_of root = [97; 32; 36; 32; 98; 32; 47; 42].
Proof. exact ex_parse. Qed.

(* a program that bails out ("a b $ d" with at most 2 open nodes): the third start_node reports `$` as
   unexpected and sets `$ d Eof` aside; closing the root pushes them (with the lexer error of `$`) *)
Example C17_ex_bail :
  exists ts root s1, token_stream kw2008 [97; 32; 98; 32; 36; 32; 100] = Some ts /\
    parse_with 2 [PStart 1; PTake; PStart 2; PTake; PStart 3; PTake; PEnd; PEnd; PEnd] ts
      = Some (root, [(4, 5); (4, 5)], [], None) /\
    bytes_of root = [97; 32; 98; 32; 36; 32; 100] /\
    p_run 2 [PStart 1; PTake; PStart 2; PTake; PStart 3; PTake; PEnd; PEnd] (p_init ts) = POk s1 /\
    p_depth s1 = 1%nat /\ p_deferred s1 <> None.
Proof. exact ex_bail. Qed.

(* a single-token replacement (clone_with_text) on the tree of C17_ex_build *)
Example C17_ex_replace :
  nth_error (leaves ex_tree) 1 = Some ex_tb /\ len_ok ex_tree = true /\
  token_rewrite nat_hook (replace_nth_t 1 (clone_with_text ex_tb [99; 100; 101])) nat_hook 0%nat ex_tree
    = GNode 1 [GTok ex_ta; GNode 4 [GNode 3 [GTok (clone_with_text ex_tb [99; 100; 101])] 8] 8; GTok ex_te] 10 /\
  rewrite (replace_nth_e 1 (clone_with_text ex_tb [99; 100; 101])) 0%nat ex_tree
    = GNode 1 [GTok ex_ta; GNode 4 [GNode 3 [GTok (clone_with_text ex_tb [99; 100; 101])] 8] 8; GTok ex_te] 10.
Proof. exact ex_replace. Qed.

Check C17_lex_lossless :
  forall kws bs, exists ts, synlex kws bs = LexOk ts /\ printed ts = bs /\
    fold_right (fun x acc => tok_len (fst x) + acc) 0 ts = N.of_nat (length bs).
Check C17_builder_lossless :
  forall ops root, forallb op_ok ops = true -> build ops = Some root ->
    bytes_of root = pushed_bytes ops /\ leaves root = pushed_leaves ops /\ len_ok root = true /\
    glen root = N.of_nat (length (pushed_bytes ops)).
Check C17_rewrite_leave_id : forall g, len_ok g = true -> rewrite leave_all tt g = g.
Check C17_token_rewrite_keep_id :
  forall g, len_ok g = true -> token_rewrite no_hook keep_all no_hook tt g = g.
Check C17_error_spans_inside :
  forall max kws bs ts ops root errs rest d,
    token_stream kws bs = Some ts -> parse_with max ops ts = Some (root, errs, rest, d) ->
    Forall (fun sp : N * N => fst sp <= snd sp /\ snd sp <= N.of_nat (length bs)) errs.

Print Assumptions C17_lex_total.
Print Assumptions C17_lex_lossless.
Print Assumptions C17_tok_len_printed.
Print Assumptions C17_lex_shape.
Print Assumptions C17_lex_old_refuted.
Print Assumptions C17_merge_lossless.
Print Assumptions C17_token_stream_lossless.
Print Assumptions C17_builder_lossless.
Print Assumptions C17_builder_current_pos.
Print Assumptions C17_parse_lossless.
Print Assumptions C17_parse_lossless_bail.
Print Assumptions C17_error_spans_inside.
Print Assumptions C17_recover_contract_violation.
Print Assumptions C17_take_never_crashes.
Print Assumptions C17_offsets_tile.
Print Assumptions C17_rewrite_leave_id.
Print Assumptions C17_token_rewrite_keep_id.
Print Assumptions C17_token_rewrite_keep_id_old_refuted.
Print Assumptions C17_replace_one_token_local.
Print Assumptions C17_replace_one_token_local_rewriter.
Print Assumptions C17_replace_text_local.
Print Assumptions C17_replace_trivia_local.
Print Assumptions C17_set_leading_trivia_len.
Print Assumptions C17_replace_set_trivia_consistent.
Print Assumptions C17_ex_lex.
Print Assumptions C17_ex_build.
Print Assumptions C17_ex_parse.
Print Assumptions C17_ex_bail.
Print Assumptions C17_ex_replace.
