(* Props/C20.v — Sensitivity-list lint is exact on combinational processes with known reads.
   Statements only: each theorem is closed by `exact` of a lemma proved in Lint/SensProofs.v,
   the main ones are pinned by `Check`, each is followed by `Print Assumptions`.

   Model: Lint/Sens.v (`lint_model` = `lint_sensitivity_list` of vhdl_lang/src/lint/sensitivity_list.rs
   as repaired by d3610d9 (F14/F15) and 8599f6f (F20); `lint_model_f20` = the code before 8599f6f,
   `lint_model_old` = the code before d3610d9).
   Hypotheses of the exactness theorems (all decidable, all evaluated by the check on every
   generated process):
   * `in_family`      — positions the statement walker never visits mention no signal (index expressions
                        of assignment targets, slice bounds of names that are read, `after` expressions, report/severity
                        expressions of assert, severity of report, arguments of attributes other than
                        'image), no 'event attribute, no wait statement;
   * `calls_resolved` — the mode the specification attaches to every association element of a procedure call is what
                        the code resolves (`is_out_mode_formal` holds exactly for the elements associated with an
                        out-mode formal): true in every design that analyses without errors.  Procedure calls with
                        in, out and inout formals, positional or named, are IN the family (8599f6f repaired F20;
                        the pre-fix model is refuted in C20_out_actual_old_refuted);
   * `wf_pos`         — the token positions of the AST agree with the textual order;
   * `listed_signals` — every name of the sensitivity list denotes a signal (superfluous part only). *)
From Coq Require Import List NArith Bool.
Import ListNotations.
From Coq Require Import Permutation.
From RH Require Import Lint.Sens Lint.SensProofs Lint.SensCache Lint.SensCacheProofs.
Open Scope N_scope.

(* The whole diagnostic list: at most one `missing` diagnostic at the process keyword that lists
   exactly reads p \ listed in first-read (textual) order with the position of each first read,
   followed by one `superfluous` diagnostic per listed signal that the process never mentions. *)
Theorem C20_lint_exact :
  forall root p names,
    p_sens p = Some (SensNames names) ->
    get_likely_process_category root p = Some Combinational ->
    in_family root p = true -> calls_resolved root p = true ->
    wf_pos root p = true -> listed_signals root names = true ->
    lint_model root p = Some (spec_diags root p names).
Proof. exact lint_exact. Qed.

Theorem C20_missing_exact :
  forall root p names,
    p_sens p = Some (SensNames names) ->
    get_likely_process_category root p = Some Combinational ->
    in_family root p = true -> calls_resolved root p = true -> wf_pos root p = true ->
    exists ds, lint_model root p = Some ds /\
      missing_of ds = match spec_missing root p names with
                      | [] => []
                      | m => [(p_kw p, m)]
                      end.
Proof. exact missing_exact. Qed.

(* first-read order is position order: the reported list is strictly increasing in its positions,
   holds one entry per signal, and no listed signal *)
Theorem C20_missing_ordered :
  forall root p names, wf_pos root p = true ->
    let m := spec_missing root p names in
    increasing (map (fun x : N * span => sp_start (snd x)) m) = true /\ NoDup (map fst m) /\
    (forall i sp, In (i, sp) m ->
        assoc_mem i (sens_map names) = false /\ In (i, sp, true) (occ_stmts root (p_body p))) /\
    (forall i sp, In (i, sp, true) (occ_stmts root (p_body p)) -> assoc_mem i (sens_map names) = false ->
        exists sp', In (i, sp') m /\ (sp_start sp' <= sp_start sp)).
Proof. exact missing_ordered. Qed.

Theorem C20_superfluous_exact :
  forall root p names,
    p_sens p = Some (SensNames names) ->
    get_likely_process_category root p = Some Combinational ->
    in_family root p = true -> calls_resolved root p = true ->
    listed_signals root names = true ->
    exists ds, lint_model root p = Some ds /\ superfluous_of ds = spec_superfluous root p names.
Proof. exact superfluous_exact. Qed.

(* one diagnostic per entry: with pairwise different listed signals the superfluous diagnostics are
   the spans of exactly those list entries whose signal the process never mentions *)
Theorem C20_superfluous_per_entry :
  forall root p names ids,
    map suffix_ref_disregard_index names = map Some ids -> NoDup ids ->
    spec_superfluous root p names =
      map span_of (filter (fun n => match suffix_ref_disregard_index n with
                                    | Some i => negb (memN i (mentioned (occ_stmts root (p_body p))))
                                    | None => false
                                    end) names).
Proof. exact superfluous_per_entry. Qed.

(* `all`, no sensitivity list, or a clock-edge condition: no diagnostic *)
Theorem C20_no_lint_cases :
  forall root p,
    (p_sens p = None \/ p_sens p = Some SensAll \/ get_likely_process_category root p = Some Sequential) ->
    lint_model root p = Some [].
Proof. exact no_lint_cases. Qed.

(* the lint only panics on an `if` without any condition, which the parser never builds *)
Theorem C20_total :
  forall root p,
    forallb (fun s => match s with SIf [] _ => false | _ => true end) (p_body p) = true ->
    lint_model root p <> None.
Proof. exact lint_total. Qed.

(* the clocked shapes of the statement: `if rising_edge(clk)`, `if clk'event and clk = '1'`,
   `if rst = '1' then .. elsif rising_edge(clk)`, at any place among the top-level statements *)
Theorem C20_clocked_shapes :
  forall root p pre post c0 b0 rest els,
    p_body p = pre ++ SIf ((c0, b0) :: rest) els :: post ->
    forallb (fun s => match s with SIf [] _ => false | _ => true end) pre = true ->
    is_likely_clocked root c0 = true ->
    get_likely_process_category root p = Some Sequential.
Proof. exact clocked_shape_first. Qed.
Theorem C20_clocked_shapes_elsif :
  forall root p pre post c0 b0 c1 b1 els,
    p_body p = pre ++ SIf [(c0, b0); (c1, b1)] els :: post ->
    forallb (fun s => match s with SIf [] _ => false | _ => true end) pre = true ->
    is_likely_clocked root c1 = true ->
    get_likely_process_category root p = Some Sequential.
Proof. exact clocked_shape_elsif. Qed.

(* ---- witnesses (the processes f14, f15, f20 and `hyps` are defined at the end of Lint/Sens.v) ---- *)
(* the repaired code on the F14 / F15 inputs: a non-trivial instance of the theorem (4 missing, 1 superfluous) *)
Example C20_f14_now :
  hyps root6 f14 [sg 2 5] /\ calls_resolved root6 f14 = true /\
  lint_model root6 f14 =
    Some [DMissing (tk 0) [(1, tk 6); (2, tk 12); (3, tk 16); (4, tk 25)]; DSuperfluous (tk 2)].
Proof. exact f14_now. Qed.
Example C20_f15_now :
  hyps root6 f15 [sg 2 5] /\ calls_resolved root6 f15 = true /\
  lint_model root6 f15 =
    Some [DMissing (tk 0) [(4, tk 7); (2, tk 9); (3, tk 11); (1, tk 13)]; DSuperfluous (tk 2)].
Proof. exact f15_now. Qed.

(* F14: the pre-fix code keeps the first VISITED position (all conditions of an if statement are
   visited before its branches): signal x is attributed to the elsif condition (token 19) and
   reported after z *)
Theorem C20_order_old_refuted :
  exists root p names,
    hyps root p names /\ calls_resolved root p = true /\
    lint_model_old root p <> Some (spec_diags root p names) /\
    lint_model_old root p =
      Some [DMissing (tk 0) [(1, tk 6); (3, tk 16); (2, tk 19); (4, tk 25)]; DSuperfluous (tk 2)].
Proof. exact order_old_refuted. Qed.

(* F15: the pre-fix code gives every actual of a procedure call the span of the call *)
Theorem C20_call_span_old_refuted :
  exists root p names,
    hyps root p names /\ calls_resolved root p = true /\
    lint_model_old root p <> Some (spec_diags root p names) /\
    lint_model_old root p =
      Some [DMissing (tk 0) [(4, (5, 14)); (2, (5, 14)); (3, (5, 14)); (1, (5, 14))]; DSuperfluous (tk 2)].
Proof. exact call_span_old_refuted. Qed.

(* F20 on the repaired code (8599f6f): the actual of an out-mode formal is written; the index expressions inside
   it are read (positional and named association) *)
Example C20_f20_now :
  hyps root6 f20 [sg 2 1] /\ lint_model root6 f20 = Some [] /\
  hyps root6 f20n [sg 2 1] /\ lint_model root6 f20n = Some [DMissing (tk 0) [(3, tk 11)]].
Proof. exact f20_now. Qed.

(* ports: the code asks `ent.is_signal()` (object class) only, so a port of ANY mode is a read signal; in
   particular an OUT port that the process reads back (legal since VHDL-2008) must be in the list *)
Theorem C20_port_is_signal : forall root i m, root i = KPort m -> is_signal root i = true.
Proof. exact port_is_signal. Qed.
Example C20_out_port_read :
  root6 6 = KPort MOut /\ hyps root6 f_outport [sg 2 1] /\
  lint_model root6 f_outport = Some [DMissing (tk 0) [(6, tk 9)]].
Proof. exact out_port_read. Qed.

(* F20: the code before 8599f6f analysed the actuals of all modes: the out-mode actual `o` was reported as
   missing although it is only written *)
Theorem C20_out_actual_old_refuted :
  exists root p names,
    hyps root p names /\
    spec_diags root p names = [] /\
    lint_model_f20 root p <> Some (spec_diags root p names) /\
    lint_model_f20 root p = Some [DMissing (tk 0) [(5, tk 9)]].
Proof. exact out_actual_old_refuted. Qed.

(* ---- unit level: which processes are linted ----
   `analyze_unit` runs on every design unit of every kind and lints every process statement the Search traversal
   reaches: in the statement part of an architecture body AND of an entity declaration (passive processes),
   directly or nested in block and for/if/case generate statements; plain, labelled or postponed.  For all of
   them the diagnostics are the concatenation of what the statement says per process (`expected`: spec_diags for
   a combinational process with a list of names, nothing otherwise), provided every process is `covered`. *)
Theorem C20_unit_exact :
  forall root u, Forall (covered root) (procs_of u) ->
    analyze_unit root u = Some (flat_map (expected root) (procs_of u)).
Proof. exact unit_exact. Qed.
(* seeded variant "only architecture bodies are searched": a passive process in an entity is missed *)
Theorem C20_unit_arch_only_refuted :
  Forall (covered root6) (procs_of u_entity) /\
  analyze_unit root6 u_entity = Some [DMissing (tk 0) [(6, tk 9)]] /\
  analyze_unit_arch_only root6 u_entity = Some [] /\
  analyze_unit_arch_only root6 u_entity <> Some (flat_map (expected root6) (procs_of u_entity)).
Proof. exact unit_arch_only_refuted. Qed.

(* ---- the linter's per-unit cache (`SensitivityListLinter::lint`, Lint/SensCache.v) ----
   D = the diagnostics `analyze_unit` yields for one unit (C20_unit_exact: the `lint_model` diagnostics of all
   processes of that unit, entity or architecture).  `reported lib` = `config.get_library(name)` finds the library
   under the name it is configured with (verbatim spelling, any letter case) and it is not third party.  `wf_hist` is what `DesignRoot::analyze` guarantees about `analyzed_units`: a unit that exists
   and is not reported as analysed existed at the previous call with the same result. *)
(* after any history of lint calls the emitted diagnostics are exactly those of the units that exist now
   (in the libraries that are configured and not third party), whatever was cached before *)
Theorem C20_cache_history_exact :
  forall (D : Type) (steps : list (step D)) (st : step D),
    wf_hist D None (steps ++ [st]) ->
    Permutation (snd (run D (steps ++ [st]))) (spec_emitted D st).
Proof. exact cache_history_exact. Qed.
(* ... and so after every call of the history *)
Theorem C20_cache_every_step_exact :
  forall (D : Type) (pre : list (step D)) (st : step D) (post : list (step D)),
    wf_hist D None (pre ++ st :: post) ->
    Permutation (snd (run D (pre ++ [st]))) (spec_emitted D st).
Proof. exact cache_every_step_exact. Qed.
(* seeded variant "keep an entry while the PRIMARY unit of its key exists": entity + architecture, then the
   architecture disappears while the entity stays: the architecture's diagnostics are still emitted *)
Theorem C20_cache_prune_by_primary_refuted :
  exists (steps : list (step N)) (st : step N),
    wf_hist N None (steps ++ [st]) /\
    Permutation (snd (run N (steps ++ [st]))) (spec_emitted N st) /\
    ~ Permutation (snd (run_by_primary N (steps ++ [st]))) (spec_emitted N st) /\
    snd (run_by_primary N (steps ++ [st])) = [(w_arch, 7); (w_ent, 0)].
Proof. exact cache_prune_by_primary_refuted. Qed.

Check C20_lint_exact :
  forall root p names,
    p_sens p = Some (SensNames names) ->
    get_likely_process_category root p = Some Combinational ->
    in_family root p = true -> calls_resolved root p = true ->
    wf_pos root p = true -> listed_signals root names = true ->
    lint_model root p = Some (spec_diags root p names).
Check C20_no_lint_cases :
  forall root p,
    (p_sens p = None \/ p_sens p = Some SensAll \/ get_likely_process_category root p = Some Sequential) ->
    lint_model root p = Some [].

Print Assumptions C20_lint_exact.
Print Assumptions C20_missing_exact.
Print Assumptions C20_missing_ordered.
Print Assumptions C20_superfluous_exact.
Print Assumptions C20_superfluous_per_entry.
Print Assumptions C20_no_lint_cases.
Print Assumptions C20_total.
Print Assumptions C20_clocked_shapes.
Print Assumptions C20_clocked_shapes_elsif.
Print Assumptions C20_f14_now.
Print Assumptions C20_f15_now.
Print Assumptions C20_order_old_refuted.
Print Assumptions C20_call_span_old_refuted.
Print Assumptions C20_f20_now.
Print Assumptions C20_out_actual_old_refuted.
Print Assumptions C20_port_is_signal.
Print Assumptions C20_out_port_read.
Print Assumptions C20_unit_exact.
Print Assumptions C20_unit_arch_only_refuted.
Print Assumptions C20_cache_history_exact.
Print Assumptions C20_cache_every_step_exact.
Print Assumptions C20_cache_prune_by_primary_refuted.
