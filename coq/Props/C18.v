(* Props/C18.v — The two front ends agree on lexing and accept the same valid code.
   Statements only: each theorem is closed by `exact` of a lemma proved in Lex/AgreeSweep.v,
   Lex/AgreeSyn.v (and Lex/AgreeLang.v), pinned by `Check`, and followed by `Print Assumptions`.

   Models: RH.Lex.LangLexer (crate vhdl_lang: Contents::from_str + Tokenizer + TokenStream::new) and
   RH.Lex.SynLexer (crate vhdl_syntax: Tokenizer + merge_bit_string_literals), both shared with
   C11/C17 and tied to the code by differential runs; observed through RH.Lex.Agree:
     lexemes_lang s / lexemes_syn s   the sequence of lexeme TEXTS each front end splits s into
     clean_lang s / clean_syn s       no lexical diagnostic
     in_quantifier s                  latin1 s, clean for both, no grave accent, no `vhdl_ls`
   Specification: RH.Lex.LexGrammar.split_spec, the longest-match splitter of the LRM 15 lexeme
   grammar, written without reference to either model.

   FULL STATEMENT of the property's first clause (lexeme agreement):
       forall s, in_quantifier s = true -> lexemes_lang s = lexemes_syn s.
   It is still FALSE for today's code in one way, witnessed below (C18_crlf_character_refuted) and reproduced on
   the real lexers (KNOWN-FINDING F43 of checks/c18.py): (D) CR LF between two ticks.  `known_difference s`
   (= has_crlf_char s) delimits it.  Three further ways found by this development have been repaired in the
   code, and the models follow the repaired code: (B, F40, commit bba3236) ':' as replacement of '#' in based
   literals — C18_colon_based_literal_agree; (C, F41, commit f2c0e80) a non-integer abstract literal merged with
   a bit string — C18_merge_any_literal_old_refuted against SynLexer.merge_old; (A, F42, commit 9360ea7) the
   reserved words assume_guarantee / restrict_guarantee before a tick — C18_psl_reserved_word_old_refuted against
   the old keyword table.  The corrected statement
       forall s, in_quantifier s = true -> known_difference s = false -> lexemes_lang s = lexemes_syn s
   is PROVED FOR ALL INPUTS (C18_lexemes_agree), through the common step-wise characterisation: each lexer
   realises split_spec when clean (C18_lang_is_spec_eol over the reader model of vhdl_lang, C18_syn_is_spec_eol
   over the tokenizer + merge model of vhdl_syntax; a line break inside a lexeme reads as LF), proved arm by arm;
   C18_lexemes_are_spec adds that the common value is what the LRM grammar prescribes.  The finite-domain theorem
   (C18_lexemes_agree_bounded; length 4 in the thorough tier: Props/C18Sweep.v) is kept as an independent
   evaluation of both executable models.
   The second clause (both parsers accept LRM-valid sources, the tree validates) has no theorem: it is
   explored by checks/c18.py on the bundled libraries and generated programs. *)
From Coq Require Import List NArith Arith Bool.
Import ListNotations.
From RH Require Lex.LangLexer Lex.SynLexer.
From RH Require Import Lex.LexGrammar Lex.Agree Lex.AgreeSweep Lex.AgreeSyn Lex.AgreeSynEol Lex.AgreeLang Lex.AgreeLangEol Lex.AgreeProofs.
Open Scope N_scope.

(* ---------- finite domain: every string of length <= 3 over ALPHA (14 425 inputs), by vm_compute ---------- *)
Theorem C18_lexemes_agree_bounded : forall s, (length s <= 3)%nat -> Forall (fun c => In c ALPHA) s ->
  in_quantifier s = true -> known_difference s = false -> lexemes_lang s = lexemes_syn s.
Proof. exact lexemes_agree_bounded. Qed.
Check C18_lexemes_agree_bounded : forall s, (length s <= 3)%nat -> Forall (fun c => In c ALPHA) s ->
  in_quantifier s = true -> known_difference s = false -> lexemes_lang s = lexemes_syn s.
Print Assumptions C18_lexemes_agree_bounded.
(* the hypotheses are satisfiable by a non-trivial input: `a'b` (identifier, attribute tick, identifier) *)
Example C18_bounded_example :
  in_quantifier [97; 39; 98] = true /\ known_difference [97; 39; 98] = false
  /\ lexemes_lang [97; 39; 98] = Some [[97]; [39]; [98]] /\ Forall (fun c => In c ALPHA) [97; 39; 98].
Proof. split; [vm_compute; reflexivity|]. split; [vm_compute; reflexivity|]. split; [vm_compute; reflexivity|].
  repeat constructor; cbn; tauto. Qed.
Print Assumptions C18_bounded_example.


(* ---------- step-wise characterisation: each lexer realises split_spec when clean ---------- *)
(* vhdl_syntax half, ALL inputs: on an input that is clean for the model of vhdl_syntax's tokenizer, has no
   grave accent and no CR, the merged token stream spells exactly
   the lexemes of the reference splitter.  (Proved arm by arm: trivia = separators and comments; identifiers and
   reserved words; abstract literals; bit strings through merge_bit_string_literals; character literal versus
   tick; strings; extended identifiers; every delimiter.) *)
Theorem C18_syn_is_spec : forall s,
  clean_syn s = true -> no_directive s = true -> no_cr s = true ->
  split_spec LangLexer.keywords_2008 s = lexemes_syn s.
Proof. exact syn_is_spec. Qed.
Check C18_syn_is_spec : forall s,
  clean_syn s = true -> no_directive s = true -> no_cr s = true ->
  split_spec LangLexer.keywords_2008 s = lexemes_syn s.
Print Assumptions C18_syn_is_spec.
(* the hypotheses hold of `x"A" 12sb"0"'a'('b')'c --x LF 16#F#e1?/=\a\"q""":=1.5` (14 lexemes) *)
Example C18_syn_is_spec_example : clean_syn ex_syn = true /\ no_directive ex_syn = true /\ no_cr ex_syn = true

  /\ length (match lexemes_syn ex_syn with Some l => l | None => [] end) = 14%nat.
Proof. exact ex_syn_ok. Qed.
Print Assumptions C18_syn_is_spec_example.

(* the same for inputs that may hold CR (as separator, inside comments, strings, character literals): a line
   break inside a lexeme reads as LF *)
Theorem C18_syn_is_spec_eol : forall s,
  clean_syn s = true -> no_directive s = true ->
  option_map (map norm_eol) (split_spec LangLexer.keywords_2008 s) = lexemes_syn s.
Proof. exact syn_is_spec_eol. Qed.
Print Assumptions C18_syn_is_spec_eol.
Example C18_syn_is_spec_eol_example : clean_syn ex_syn_eol = true /\ no_directive ex_syn_eol = true

  /\ lexemes_syn ex_syn_eol = Some [[120]; [58; 61]; [34; 97; 10; 98; 34]; [40]; [39; 10; 39]; [41]].
Proof. exact ex_syn_eol_ok. Qed.
Print Assumptions C18_syn_is_spec_eol_example.

(* vhdl_lang half, ALL inputs: on a Latin-1 input without CR, grave accent and `vhdl_ls` on which the model of vhdl_lang's tokenizer pushes no diagnostic, the texts between the
   positions of its tokens are exactly the lexemes of the reference splitter.  (Proved through the reader
   invariant of C11: every loop of the tokenizer against span / drop_line / drop_block / quoted_rest on the
   remaining text; pop_raw = skip_gap + lexeme_step; Tokenizer::pop = pop_raw without pragma comments.) *)
Theorem C18_lang_is_spec : forall s : list N,
  latin1 s = true -> clean_lang s = true -> no_directive s = true -> no_pragma s = true ->
  no_cr s = true ->
  lexemes_lang s = split_spec LangLexer.keywords_2008 s.
Proof. exact lang_is_spec. Qed.
Check C18_lang_is_spec : forall s : list N,
  latin1 s = true -> clean_lang s = true -> no_directive s = true -> no_pragma s = true ->
  no_cr s = true ->
  lexemes_lang s = split_spec LangLexer.keywords_2008 s.
Print Assumptions C18_lang_is_spec.

(* the same for inputs that may hold CR: vhdl_lang lexes the normalised text (Contents::from_str), so a CR or
   CR LF inside a lexeme reads as LF; tick CR LF tick (difference D) is excluded *)
Theorem C18_lang_is_spec_eol : forall s : list N,
  latin1 s = true -> clean_lang s = true -> no_directive s = true -> no_pragma s = true ->
  has_crlf_char s = false ->
  lexemes_lang s = option_map (map norm_eol) (split_spec LangLexer.keywords_2008 s).
Proof. exact lang_is_spec_eol. Qed.
Print Assumptions C18_lang_is_spec_eol.
(* the reference splitter commutes with line-break normalisation (a fact about the grammar alone) *)
Theorem C18_split_spec_normalisation : forall kws s, has_crlf_char s = false ->
  split_spec kws (norm_eol s) = option_map (map norm_eol) (split_spec kws s).
Proof. exact split_spec_ne. Qed.
Print Assumptions C18_split_spec_normalisation.

(* LEXEME AGREEMENT — the property's first clause with the one remaining difference of today's code (D) excluded:
   for every Latin-1 source that is lexically clean for both front ends and holds neither a tool directive nor
   a `vhdl_ls` pragma, the two front ends split it into the same sequence of lexemes (bit strings merged). *)
Theorem C18_lexemes_agree : forall s,
  in_quantifier s = true -> known_difference s = false -> lexemes_lang s = lexemes_syn s.
Proof. exact lexemes_agree. Qed.
Check C18_lexemes_agree : forall s,
  in_quantifier s = true -> known_difference s = false -> lexemes_lang s = lexemes_syn s.
Print Assumptions C18_lexemes_agree.
(* and the common value is what the LRM grammar prescribes *)
Theorem C18_lexemes_are_spec : forall s,
  in_quantifier s = true -> known_difference s = false ->
  exists l, split_spec LangLexer.keywords_2008 s = Some l
            /\ lexemes_lang s = Some (map norm_eol l) /\ lexemes_syn s = Some (map norm_eol l).
Proof. exact lexemes_are_spec_eol. Qed.
Print Assumptions C18_lexemes_are_spec.
(* the hypotheses are satisfiable: a 22-lexeme LF text (based real literal, bit strings with and without length,
   character literal, attribute tick, both comment forms, extended identifier, doubled quote, matching operator,
   `all` before a tick) and a 15-lexeme text whose line breaks are CR, CR LF and LF *)
Example C18_lexemes_agree_example : in_quantifier ex_both = true /\ known_difference ex_both = false
  /\ no_cr ex_both = true /\ length (match lexemes_lang ex_both with Some l => l | None => [] end) = 22%nat.
Proof. exact ex_both_ok. Qed.
Print Assumptions C18_lexemes_agree_example.
Example C18_lexemes_agree_example_eol : in_quantifier ex_eol = true /\ known_difference ex_eol = false
  /\ no_cr ex_eol = false /\ length (match lexemes_lang ex_eol with Some l => l | None => [] end) = 15%nat.
Proof. exact ex_eol_ok. Qed.
Print Assumptions C18_lexemes_agree_example_eol.

(* a text holding both repaired differences, `x := 16:FF: & assume_guarantee'a' range 0 to 1:= 1`, is inside the
   theorem's hypotheses now *)
Example C18_lexemes_agree_example_repaired : in_quantifier ex_repaired = true /\ known_difference ex_repaired = false
  /\ lexemes_lang ex_repaired
     = Some [[120]; [58; 61]; [49; 54; 58; 70; 70; 58]; [38]; ASSUME_G; [39; 97; 39]; [114; 97; 110; 103; 101]; [48];
             [116; 111]; [49]; [58; 61]; [49]].
Proof. exact ex_repaired_ok. Qed.
Print Assumptions C18_lexemes_agree_example_repaired.

(* ---------- F13: the tokenizer of vhdl_syntax before commit 5ee4d03 ---------- *)
(* `1:= ` (from `range 0 to 1:= 1`, legal VHDL): clean for vhdl_lang, which splits `1` `:=`; the old
   vhdl_syntax tokenizer read an unterminated based literal `1:`; the repaired one agrees with vhdl_lang *)
Theorem C18_clean_mismatch_old_refuted :
  lang_result w_f13 = Some (true, [[49]; [58; 61]])
  /\ syn_result_old w_f13 = Some (false, [[49; 58]; [61]])
  /\ syn_result w_f13 = Some (true, [[49]; [58; 61]]).
Proof. exact clean_mismatch_old. Qed.
Print Assumptions C18_clean_mismatch_old_refuted.

(* ---------- the literal property is still false on today's code: one witness; the repaired ones ---------- *)
Theorem C18_lexemes_agree_refuted :
  exists s, in_quantifier s = true /\ lexemes_lang s <> lexemes_syn s.
Proof. exists w_crlf. exact (proj1 mismatch_crlf). Qed.
Print Assumptions C18_lexemes_agree_refuted.
(* (D, open F43) tick CR LF tick — vhdl_lang reads the character literal of the normalised text *)
Theorem C18_crlf_character_refuted : mismatch w_crlf
  /\ lexemes_lang w_crlf = Some [[39; 10; 39]] /\ lexemes_syn w_crlf = Some [[39]; [39]].
Proof. exact mismatch_crlf. Qed.
Print Assumptions C18_crlf_character_refuted.
(* (B, F40, repaired by bba3236) `16:FF:` is one based literal for both lexers (LRM 15.10) *)
Theorem C18_colon_based_literal_agree :
  lang_result w_colon = Some (true, [w_colon]) /\ syn_result w_colon = Some (true, [w_colon]).
Proof. exact colon_based_literal_agree. Qed.
Print Assumptions C18_colon_based_literal_agree.
(* (C, F41) `1.5x"0"` — merge_bit_string_literals before commit f2c0e80 merged the real literal into a bit
   string literal although the input is clean for both; the repaired merge agrees with vhdl_lang *)
Theorem C18_merge_any_literal_old_refuted :
  lang_result w_merge = Some (true, [[49; 46; 53]; [120; 34; 48; 34]])
  /\ syn_result_merge_old w_merge = Some (true, [w_merge])
  /\ syn_result w_merge = Some (true, [[49; 46; 53]; [120; 34; 48; 34]]).
Proof. exact merge_any_literal_old. Qed.
Print Assumptions C18_merge_any_literal_old_refuted.
(* (A, F42) `assume_guarantee'a'` — with the keyword table before commit 9360ea7 the word was an identifier for
   vhdl_syntax and the tick an attribute tick; now both read a character literal *)
Theorem C18_psl_reserved_word_old_refuted :
  lang_result w_psl = Some (true, [ASSUME_G; [39; 97; 39]])
  /\ syn_result_kw_old w_psl = Some (true, [ASSUME_G; [39]; [97]; [39]])
  /\ syn_result w_psl = Some (true, [ASSUME_G; [39; 97; 39]]).
Proof. exact psl_reserved_word_old. Qed.
Print Assumptions C18_psl_reserved_word_old_refuted.
(* only the open witness is inside `known_difference` *)
Theorem C18_witnesses_are_known : known_difference w_crlf = true /\ known_difference w_colon = false
  /\ known_difference w_merge = false /\ known_difference w_psl = false.
Proof. exact witnesses_known. Qed.
Print Assumptions C18_witnesses_are_known.
