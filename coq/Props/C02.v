(* Props/C02.v — Parsing is total and yields in-bounds, consistent syntax.
   Statements only: each theorem is closed by `exact` of a lemma proved in Parse/ParseProofs.v,
   Parse/C02Examples.v or (lexer) Lex/LangLexerProofs.v, Lex/LangLexerNoCrash.v,
   Lex/LangLexerSlices.v, pinned by `Check`, and followed by `Print Assumptions`.

   Model: RH.Lex.LangLexer (Tokenizer + TokenStream::new; shared with C11),
          RH.Parse.Stream (TokenStream's cursor algebra, recover.rs, TokenSpan::new),
          RH.Parse.DesignFileLoop (parse_design_file / parse_design_source).
   PARTIAL: the ~80 production functions of vhdl_lang/src/syntax/*.rs are NOT modelled.  In the
   loop they are the oracle `step` constrained by the progress hypothesis `H_progress`; in
   C02_ids_in_slice a production is any forward cursor program.  That the real productions
   are such programs — consume, never leave the vector, build every TokenSpan ordered — is
   explored on every run by the implementation-level oracle of checks/c02.py and monitored per
   iteration through hook H3.  Full statement that is not a theorem here:
     forall s, exists units diags, parse_design_source s = (units, diags)   (no panic, no hang)
       /\ every TokenId / TokenSpan stored in units[i].1 is < length units[i].0, spans ordered
       /\ units' vectors are consecutive slices of tokens(s) /\ diagnostics in the document.
   What is proved: the same with `step` abstract (C02_parse_source_total, C02_slices_partition),
   the id arithmetic of the cursor algebra (C02_ids_in_slice, C02_last_id_.. theorems), and the ranges of
   the diagnostics the cursor algebra itself produces (C02_eof_in_bounds, C02_pos_before_.. theorems). *)
From Coq Require Import List NArith Arith Bool.
Import ListNotations.
From RH Require Import Text.Contents Text.Reader Text.ReaderProofs Text.ReaderInv
  Lex.LangLexer Lex.LangLexerProofs Lex.LangLexerSlices Lex.LangLexerNoCrash
  Parse.Stream Parse.DesignFileLoop Parse.ParseProofs Parse.C02Examples.
Open Scope N_scope.

(* ---------- (a) the lexer (imported from the shared model; proofs belong to C11) ---------- *)
(* TokenStream::new terminates on every input (regression theorem of finding F5) ... *)
Theorem C02_lex_total : forall s, lex_all s <> Aborted OutOfFuel.
Proof. exact lex_total. Qed.
(* ... never panics ... *)
Theorem C02_lex_no_crash : forall s, lex_all s <> Aborted Crash.
Proof. exact lex_no_crash. Qed.
(* ... hence yields a token vector and diagnostics for every Unicode string, and for every byte
   string decoded as ISO-8859-1 *)
Theorem C02_lex_all_done : forall s, exists toks diags, lex_all s = Done toks diags.
Proof. exact lex_all_done. Qed.
Theorem C02_lex_latin1_file_done : forall bytes, exists toks diags, lex_latin1_file bytes = Done toks diags.
Proof. exact lex_latin1_file_done. Qed.
(* token ranges are well-ordered (start < end), increasing and non-overlapping *)
Theorem C02_lex_ranges : forall s toks diags,
  lex_all s = Done toks diags -> ranges_sorted (0, 0) toks.
Proof. exact token_ranges_ordered. Qed.
(* every token lies in the document: its range is delimited by two character boundaries *)
Theorem C02_lex_tokens_in_document : forall s toks diags,
  lex_all s = Done toks diags -> Forall (tok_slice s) toks.
Proof. exact token_slices_consumed. Qed.
(* the code before e2799d7 loops on "x€" *)
Theorem C02_lex_old_refuted : lex_all_old [120; 8364] = Aborted OutOfFuel.
Proof. exact lex_old_refuted. Qed.

(* ---------- (b) the design-file loop ---------- *)
(* loop_total: if every production started on a token leaves the cursor strictly further and
   inside the vector, the loop ends within `length toks` iterations (the fuel of
   parse_design_file is length toks + 1) with Ok(design file) or with the Err return; it
   neither hangs nor panics *)
Theorem C02_loop_total : forall toks step, H_progress toks step ->
  (exists us fin, parse_design_file toks step = LDone us fin) \/
  (exists i us, parse_design_file toks step = LNoUnit i us).
Proof. exact loop_total. Qed.
Theorem C02_loop_no_abort : forall toks step, H_progress toks step ->
  forall a, parse_design_file toks step <> LAbort a.
Proof. exact loop_no_abort. Qed.
(* lexer + loop: every input text gives tokens, diagnostics and a design file *)
Theorem C02_parse_source_total : forall step,
  (forall toks, H_progress toks (step toks)) ->
  forall s, exists toks diags r,
    lex_all s = Done toks diags /\ parse_source step s = Some (r, diags) /\
    ((exists us fin, r = LDone us fin) \/ (exists i us, r = LNoUnit i us)).
Proof. exact parse_source_total. Qed.
(* the third outcome: a token that starts no unit makes the whole function return Err, and
   parse_design_source answers with the empty design file *)
Theorem C02_no_unit_empty : forall toks step i us,
  parse_design_file toks step = LNoUnit i us ->
  design_units (parse_design_file toks step) = Some [].
Proof. exact no_unit_empty. Qed.

(* slices_partition: the token vectors of the returned units are the consecutive, disjoint,
   in-order, non-empty slices [0,b1) [b1,b2) ... [b(n-1),bn) of the file's tokens (boundaries
   strictly increasing, none beyond the end); their concatenation is the prefix of length bn
   = final token_offset of the file's tokens *)
Theorem C02_slices_partition : forall toks step, H_progress toks step -> forall us fin,
  parse_design_file toks step = LDone us fin ->
  exists bs, chain toks 0 bs /\ map snd us = slices_of toks 0 bs /\
             Forall (fun v => v <> []) (map snd us) /\
             concat (map snd us) = firstn (N.to_nat (last bs 0)) toks /\
             s_off fin = last bs 0 /\ s_idx fin = slen toks /\ last bs 0 <= slen toks.
Proof. exact slices_partition. Qed.

(* ---------- (c) token ids ---------- *)
(* ids_in_slice: a production is a forward cursor program (no back/set_state/slice) started
   with token_offset <= idx.  If it leaves the cursor inside the vector, the following
   slice_tokens returns toks[token_offset..idx), and every id obtained from expect_kind,
   pop_if_kind, get_last_token_id or expect_semicolon_or_last is smaller than the length of that
   vector and denotes in it the token of the file it was computed for *)
Theorem C02_ids_in_slice : forall d toks ops st outs st1,
  forallb forward ops = true -> s_off st <= s_idx st -> run_ops d toks ops st = (outs, st1) ->
  s_idx st1 <= slen toks ->
  exists v, slice_tokens toks st1 = (POk v, {| s_idx := s_idx st1; s_off := s_idx st1 |}) /\
    v = slice toks (s_off st) (s_idx st1) /\
    N.of_nat (length v) = s_idx st1 - s_off st /\
    forall k o b i, nth_error ops k = Some o -> nth_error outs k = Some (POk b) ->
      consuming_id o b = Some i ->
      i < N.of_nat (length v) /\ nth_error v (N.to_nat i) = tok_at toks (s_off st + i).
Proof. exact ids_in_slice. Qed.
(* get_last_token_id never underflows provided one token was consumed since the last slice,
   and it does underflow (panic / wrapped id) otherwise *)
Theorem C02_last_id_no_underflow : forall st,
  (s_off st < s_idx st -> get_last_token_id st = POk (s_idx st - 1 - s_off st)) /\
  (s_idx st <= s_off st -> get_last_token_id st = PAb Crash).
Proof. exact last_id_spec. Qed.
Theorem C02_cur_id_spec : forall st,
  (s_off st <= s_idx st -> get_current_token_id st = POk (s_idx st - s_off st)) /\
  (s_idx st < s_off st -> get_current_token_id st = PAb Crash).
Proof. exact cur_id_spec. Qed.
(* expect_semicolon_or_last: the id lies before the cursor; it panics exactly in the state
   "nothing consumed since the last slice" (next token neither ';' nor ':') *)
Theorem C02_expect_semicolon_or_last : forall d toks st r st' ds, s_off st <= s_idx st ->
  expect_semicolon_or_last d toks st = (r, st', ds) ->
  s_off st' = s_off st /\ s_idx st <= s_idx st' /\
  (forall id, r = POk id -> s_off st + id < s_idx st') /\
  (forall a, r = PAb a -> a = Crash /\ s_idx st' = s_off st).
Proof. exact expect_semicolon_or_last_spec. Qed.
(* skip_until started inside the vector needs at most len - idx + 1 steps *)
Theorem C02_skip_until_total : forall d toks fuel cond st r st',
  (N.to_nat (slen toks - s_idx st) < fuel)%nat ->
  skip_until d toks fuel cond st = (r, st') -> r <> PAb OutOfFuel.
Proof. exact skip_until_fuel. Qed.

(* ---------- (d) diagnostics of the cursor algebra ---------- *)
(* eof_in_bounds: eof_error's range is the EOF marker [end, end+1) where `end` is the end of
   the last stored line of the document (0:0 for the empty document) *)
Theorem C02_eof_in_bounds : forall d,
  eof_range d = (contents_end d, next_char (contents_end d)) /\
  (d <> [] -> nth_error d (N.to_nat (fst (contents_end d))) = Some (last d []) /\
              snd (contents_end d) = len16s (last d [])) /\
  contents_end [] = (0, 0).
Proof.
  intros d. split; [exact (proj1 (eof_range_spec d))|].
  split; [exact (contents_end_in_last_line d)|exact contents_end_empty].
Qed.
(* pos_before returns an ordered range whose two ends are character boundaries of the text *)
Theorem C02_pos_before_in_document : forall s toks diags, lex_all s = Done toks diags ->
  forall i t, tok_at toks i = Some t ->
    let r := pos_before toks i t in
    ple (fst r) (snd r) = true /\
    exists r1 r2, RInv (split_lines s) r1 /\ RInv (split_lines s) r2 /\
                  fst r = r_pos r1 /\ snd r = r_pos r2.
Proof. exact pos_before_in_document. Qed.
(* every Err of expect_kind / skip_until / peek_expect and every diagnostic pushed by
   expect_semicolon is the EOF marker or an ordered range between endpoints of file tokens *)
Theorem C02_expect_kind_err_range : forall d toks, (exists lo, ranges_sorted lo toks) ->
  forall k st e st', expect_kind d toks k st = (PErr e, st') -> range_ok d toks e.
Proof. exact expect_kind_err_ok. Qed.
Theorem C02_skip_until_err_range : forall d toks fuel cond st e st',
  skip_until d toks fuel cond st = (PErr e, st') -> e = eof_range d.
Proof. exact skip_until_err_ok. Qed.
Theorem C02_expect_semicolon_diag_ranges : forall d toks, (exists lo, ranges_sorted lo toks) ->
  forall st r st' ds, expect_semicolon d toks st = (r, st', ds) -> Forall (range_ok d toks) ds.
Proof. exact expect_semicolon_diags_ok. Qed.

(* ---------- examples (non-vacuity) and witnesses ---------- *)
(* H_progress is satisfiable by a non-trivial oracle (productions that scan to the next ';') *)
Example C02_progress_satisfiable : forall toks, H_progress toks (step_semi toks).
Proof. exact step_semi_progress. Qed.
Example C02_example_parses :
  exists toks us fin,
    parse_source step_semi example_text = Some (LDone us fin, []) /\
    lex_all example_text = Done toks [] /\ length toks = 28%nat /\
    map (fun u => (fst u, N.of_nat (length (snd u)))) us =
      [(UEntity, 9); (UPackageBody, 4); (UPackageInstance, 6); (UPackage, 3); (UArchitecture, 6)] /\
    concat (map snd us) = toks /\ fin = {| s_idx := 28; s_off := 28 |}.
Proof. exact example_parses. Qed.
Example C02_example_no_unit :
  exists toks us r,
    lex_all example_text_no_unit = Done toks [] /\
    parse_source step_semi example_text_no_unit = Some (r, []) /\
    r = LNoUnit 3 us /\ length us = 1%nat /\ design_units r = Some [].
Proof. exact example_no_unit. Qed.
(* without H_progress: a production that does not consume hangs the loop; one that leaves the
   cursor beyond the end makes slice_tokens panic *)
Example C02_no_progress_hangs :
  exists toks, lex_all example_text_no_unit = Done toks [] /\
    parse_design_file toks (step_stuck toks) = LAbort OutOfFuel.
Proof. exact example_no_progress_hangs. Qed.
Example C02_beyond_end_crashes :
  exists toks, lex_all example_text_no_unit = Done toks [] /\
    parse_design_file toks (step_beyond toks) = LAbort Crash.
Proof. exact example_beyond_crashes. Qed.
Example C02_example_cursor_program :
  forallb forward example_ops = true /\
  run_ops example_doc example_toks example_ops sstart =
    ([POk (BId 0); POk (BId 1); POk BNone; POk (BDiags (BId 2) [])], {| s_idx := 3; s_off := 0 |}) /\
  fst (run_op example_doc example_toks OpSlice {| s_idx := 3; s_off := 0 |}) = POk (BLen 3).
Proof. exact example_ops_run. Qed.
Example C02_last_id_before_consuming_crashes :
  run_ops example_doc example_toks [OpExpectKind K_ENTITY; OpExpectSemiOrLast] {| s_idx := 3; s_off := 3 |} =
    ([POk (BErr ((0, 10), (0, 11))); PAb Crash], {| s_idx := 3; s_off := 3 |}) /\
  get_last_token_id sstart = PAb Crash /\
  get_last_token_id {| s_idx := 4; s_off := 3 |} = POk 0.
Proof. exact example_last_id_crash. Qed.
Example C02_example_pos_before :
  exists toks t, lex_all example_text_lines = Done toks [] /\ tok_at toks 4 = Some t /\
    pos_before toks 4 t = ((1, 3), (1, 3)) /\
    eof_range (split_lines example_text_lines) = ((2, 6), (2, 7)) /\
    fst (expect_kind (split_lines example_text_lines) toks K_IS {| s_idx := 4; s_off := 0 |}) = PErr ((1, 3), (1, 3)) /\
    fst (expect_kind (split_lines example_text_lines) toks K_IS {| s_idx := 5; s_off := 0 |}) = PErr ((2, 6), (2, 7)).
Proof. exact example_pos_before. Qed.
(* TokenSpan::new: the ordering assertion *)
Example C02_span_new : span_new 2 5 = POk (2, 5) /\ span_new 3 3 = POk (3, 3) /\ span_new 3 2 = PAb Crash.
Proof. exact span_new_examples. Qed.
(* a slice_tokens that is off by one makes consecutive units overlap *)
Example C02_slice_off_by_one_refuted :
  let v1 := fst (slice_tokens_off_by_one example_toks {| s_idx := 3; s_off := 0 |}) in
  let v2 := fst (slice_tokens_off_by_one example_toks {| s_idx := 4; s_off := 3 |}) in
  length v1 = 4%nat /\ length v2 = 2%nat /\ nth_error v1 3 = nth_error v2 0 /\ nth_error v2 0 <> None.
Proof. exact slice_off_by_one_refuted. Qed.

Check C02_lex_total : forall s, lex_all s <> Aborted OutOfFuel.
Check C02_loop_total : forall toks step, H_progress toks step ->
  (exists us fin, parse_design_file toks step = LDone us fin) \/
  (exists i us, parse_design_file toks step = LNoUnit i us).
Check C02_slices_partition : forall toks step, H_progress toks step -> forall us fin,
  parse_design_file toks step = LDone us fin ->
  exists bs, chain toks 0 bs /\ map snd us = slices_of toks 0 bs /\
             Forall (fun v => v <> []) (map snd us) /\
             concat (map snd us) = firstn (N.to_nat (last bs 0)) toks /\
             s_off fin = last bs 0 /\ s_idx fin = slen toks /\ last bs 0 <= slen toks.
Check C02_last_id_no_underflow : forall st,
  (s_off st < s_idx st -> get_last_token_id st = POk (s_idx st - 1 - s_off st)) /\
  (s_idx st <= s_off st -> get_last_token_id st = PAb Crash).

Print Assumptions C02_lex_total.
Print Assumptions C02_lex_no_crash.
Print Assumptions C02_lex_all_done.
Print Assumptions C02_lex_latin1_file_done.
Print Assumptions C02_lex_ranges.
Print Assumptions C02_lex_tokens_in_document.
Print Assumptions C02_lex_old_refuted.
Print Assumptions C02_loop_total.
Print Assumptions C02_loop_no_abort.
Print Assumptions C02_parse_source_total.
Print Assumptions C02_no_unit_empty.
Print Assumptions C02_slices_partition.
Print Assumptions C02_ids_in_slice.
Print Assumptions C02_last_id_no_underflow.
Print Assumptions C02_cur_id_spec.
Print Assumptions C02_expect_semicolon_or_last.
Print Assumptions C02_skip_until_total.
Print Assumptions C02_eof_in_bounds.
Print Assumptions C02_pos_before_in_document.
Print Assumptions C02_expect_kind_err_range.
Print Assumptions C02_skip_until_err_range.
Print Assumptions C02_expect_semicolon_diag_ranges.
Print Assumptions C02_progress_satisfiable.
Print Assumptions C02_example_parses.
Print Assumptions C02_example_no_unit.
Print Assumptions C02_no_progress_hangs.
Print Assumptions C02_beyond_end_crashes.
Print Assumptions C02_example_cursor_program.
Print Assumptions C02_last_id_before_consuming_crashes.
Print Assumptions C02_example_pos_before.
Print Assumptions C02_span_new.
Print Assumptions C02_slice_off_by_one_refuted.
