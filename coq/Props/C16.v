(* Props/C16.v — Semantic tokens and document symbols are well-formed encodings.
   Statements only: each theorem is closed by `exact` of a lemma proved in
   Lsp/SemTokProofs.v, the main ones are pinned by `Check`, all followed by
   `Print Assumptions`.

   Model: Lsp/SemTok.v (`map_and_sort`, `encode` with explicit u32 subtraction,
   `overlaps_lines`, client-side `decode`), Lsp/DocSym.v (`EntHierarchy`, the ranges of
   `to_document_symbol`). *)
From Coq Require Import List NArith Bool Sorted Permutation.
Import ListNotations.
From RH Require Import Lsp.SemTok Lsp.DocSym Lsp.SemTokProofs.
Open Scope N_scope.

(* ---- semantic tokens: encode / decode ------------------------------------------------ *)

(* Tokens sorted by start, single-line, start <= end: decoding the full answer returns
   the token list itself, no u32 subtraction wraps (release) or panics (debug). *)
Theorem C16_decode_encode : forall ts,
  StronglySorted tle ts ->
  Forall (fun t => wf_range (c_range t) = true) ts ->
  Forall (fun t => single_line t = true) ts ->
  decode (fst (encode ts None)) = ts /\ snd (encode ts None) = false /\
  encode_debug ts None = Some (fst (encode ts None)).
Proof. exact decode_encode. Qed.

(* Full or range request on any sorted token list (multi-line tokens allowed): no wrap,
   and the decoded answer is exactly the sub-list of the tokens that touch the requested
   lines and are on one line.  The delta encoding restarts from the previous *emitted*
   token; this is what makes the statement non-trivial. *)
Theorem C16_encode_decode_general : forall ts f,
  StronglySorted tle ts ->
  Forall (fun t => wf_range (c_range t) = true) ts ->
  snd (encode ts f) = false /\
  decode (fst (encode ts f)) = filter (fun t => keep f t && single_line t) ts.
Proof. exact encode_decode_general. Qed.

(* A range request returns exactly those tokens of the full answer that touch the
   requested lines (any range: empty, inverted, beyond the end of the file). *)
Theorem C16_range_is_filter : forall ts r,
  StronglySorted tle ts ->
  Forall (fun t => wf_range (c_range t) = true) ts ->
  decode (fst (encode ts (Some r))) = filter (touches r) (decode (fst (encode ts None)))
  /\ snd (encode ts (Some r)) = false.
Proof. exact range_is_filter. Qed.

(* `touches` on a single-line token: its line is within the requested lines *)
Theorem C16_touches_single_line : forall r t, single_line t = true ->
  touches r t = (line (rstart r) <=? line (rstart (c_range t))) && (line (rstart (c_range t)) <=? line (rend r)).
Proof. exact touches_single_line. Qed.

(* Multi-line tokens are skipped (they cannot be expressed in the encoding). *)
Theorem C16_multiline_skipped : forall ts,
  StronglySorted tle ts ->
  Forall (fun t => wf_range (c_range t) = true) ts ->
  decode (fst (encode ts None)) = filter single_line ts /\ snd (encode ts None) = false.
Proof. exact multiline_skipped. Qed.

(* ---- map_and_sort ------------------------------------------------------------------ *)

(* the model's sort is a stable sort by start position *)
Theorem C16_sort_is_stable_sort : forall (E : Type) (l : list (range * E)),
  StronglySorted rle (sort l) /\ Permutation (sort l) l /\
  (forall k, filter (has_start E k) (sort l) = filter (has_start E k) l).
Proof. exact sort_is_stable_sort. Qed.

(* when classify drops nothing (today's code) the cached positions are exactly the
   collected positions *)
Theorem C16_map_and_sort_positions : forall (E : Type) (classify : E -> option (N * N)) (l : list (range * E)) r,
  (forall e, classify e <> None) ->
  (In r (map c_range (map_and_sort classify l)) <-> In r (map fst l)).
Proof. intros E classify l r. exact (map_and_sort_positions E classify l r). Qed.

(* The whole pipeline.  Collected positions in any order and multiplicity, pairwise
   identical or disjoint, each non-empty (one position per lexical token): for the full
   request and for every range request no subtraction wraps and the decoded stream is
   well formed (each token non-empty, on one line, ending before every later token
   starts) and strictly increasing. *)
Theorem C16_well_formed : forall (E : Type) (classify : E -> option (N * N)) (l : list (range * E)) f,
  (forall a, In a l -> nonempty (fst a) = true) ->
  (forall a b, In a l -> In b l -> compat (fst a) (fst b) = true) ->
  let out := encode (map_and_sort classify l) f in
  snd out = false /\
  well_formed_stream (decode (fst out)) = true /\
  strictly_increasing (decode (fst out)) = true.
Proof. exact well_formed_raw. Qed.

(* what `well_formed_stream = true` says *)
Theorem C16_well_formed_stream_spec : forall l, well_formed_stream l = true ->
  StronglySorted (fun a b => before (c_range a) (c_range b) = true) l /\
  Forall (fun t => nonempty (c_range t) = true /\ single_line t = true) l.
Proof. exact well_formed_stream_spec. Qed.

(* Finding F9 (repaired by fc0b2f0): without the dedup a file mapped to two libraries
   yields every token twice: deltaLine = deltaStart = 0, overlapping. *)
Theorem C16_dedup_needed :
  flatten (fst (semantic_tokens_full_old cls0 f9_raw)) = [0; 7; 1; 7; 0;  0; 0; 1; 7; 0;  2; 11; 1; 7; 0;  0; 0; 1; 7; 0]
  /\ flatten (fst (semantic_tokens_full cls0 f9_raw)) = [0; 7; 1; 7; 0;  2; 11; 1; 7; 0].
Proof. exact dedup_needed. Qed.

Theorem C16_well_formed_old_refuted :
  exists (E : Type) (classify : E -> option (N * N)) (l : list (range * E)),
    (forall a, In a l -> nonempty (fst a) = true) /\
    (forall a b, In a l -> In b l -> compat (fst a) (fst b) = true) /\
    well_formed_stream (decode (fst (encode (map_and_sort_old classify l) None))) = false /\
    strictly_increasing (decode (fst (encode (map_and_sort_old classify l) None))) = false.
Proof. exact well_formed_old_refuted. Qed.

(* without the sort the u32 subtraction wraps in release and panics in debug *)
Theorem C16_unsorted_wraps :
  snd (encode [CT (R (P 3 4) (P 3 5)) 0 0; CT (R (P 1 2) (P 1 3)) 0 0] None) = true /\
  encode_debug [CT (R (P 3 4) (P 3 5)) 0 0; CT (R (P 1 2) (P 1 3)) 0 0] None = None /\
  flatten (fst (encode [CT (R (P 3 4) (P 3 5)) 0 0; CT (R (P 1 2) (P 1 3)) 0 0] None))
    = [3; 4; 1; 0; 0;  4294967294; 2; 1; 0; 0].
Proof. exact unsorted_wraps. Qed.

(* ---- document symbols ------------------------------------------------------------- *)

(* If the span of every entity contains its declaration position and the spans of its
   children, every symbol has selectionRange inside range and every child's range
   inside its parent's range, recursively. *)
Theorem C16_hierarchy_nested : forall symbols root h,
  (forall x, In x (root :: symbols) -> contains (span x) (selection x) = true) ->
  (forall c p, In c symbols -> In p (root :: symbols) -> e_parent c = Some (e_id p) ->
               contains (span p) (span c) = true) ->
  from_parent root symbols = Some h ->
  nested (to_document_symbol h) = true.
Proof. exact hierarchy_nested_from_parent. Qed.

(* unnamed elements (no declaration position): nothing to assume *)
Theorem C16_selection_unnamed : forall e, e_decl e = None -> contains (span e) (selection e) = true.
Proof. exact selection_unnamed. Qed.

(* the recursion of from_ent terminates on every acyclic parent relation *)
Theorem C16_from_parent_total : forall symbols root (rank : N -> nat),
  (forall c p, In c symbols -> e_parent c = Some p -> (rank p < rank (e_id c))%nat) ->
  (forall c, In c symbols -> (rank (e_id c) <= List.length symbols)%nat) ->
  (rank (e_id root) <= List.length symbols)%nat ->
  exists h, from_parent root symbols = Some h.
Proof. exact from_parent_total. Qed.

(* ---- non-vacuity ------------------------------------------------------------------- *)
Example C16_hyps_satisfiable :
  (StronglySorted tle ex_tokens /\ Forall (fun t => wf_range (c_range t) = true) ex_tokens) /\
  flatten (fst (encode ex_tokens None)) = [0; 8; 4; 7; 0;  1; 4; 4; 7; 0;  0; 5; 14; 7; 0;  5; 0; 3; 10; 1] /\
  flatten (fst (encode ex_tokens (Some (R (P 1 0) (P 3 0))))) = [1; 4; 4; 7; 0;  0; 5; 14; 7; 0] /\
  decode (fst (encode ex_tokens (Some (R (P 1 0) (P 3 0)))))
     = [CT (R (P 1 4) (P 1 8)) 7 0; CT (R (P 1 9) (P 1 23)) 7 0].
Proof. split; [exact ex_tokens_hyps|exact ex_tokens_values]. Qed.

Example C16_raw_hyps_satisfiable :
  (forall a, In a f9_raw -> nonempty (fst a) = true) /\
  (forall a b, In a f9_raw -> In b f9_raw -> compat (fst a) (fst b) = true).
Proof. exact f9_hyps. Qed.

Example C16_hierarchy_hyps_satisfiable :
  ((forall x, In x (ex_root :: ex_symbols) -> contains (span x) (selection x) = true) /\
   (forall c p, In c ex_symbols -> In p (ex_root :: ex_symbols) -> e_parent c = Some (e_id p) ->
               contains (span p) (span c) = true)) /\
  option_map (fun h => map e_id (into_flat h)) (from_parent ex_root ex_symbols) = Some [1; 2; 3; 4].
Proof. split; [exact ex_hier_hyps|exact (proj2 (proj2 ex_hier_value))]. Qed.

Check C16_decode_encode : forall ts,
  StronglySorted tle ts -> Forall (fun t => wf_range (c_range t) = true) ts ->
  Forall (fun t => single_line t = true) ts ->
  decode (fst (encode ts None)) = ts /\ snd (encode ts None) = false /\
  encode_debug ts None = Some (fst (encode ts None)).
Check C16_range_is_filter : forall ts r,
  StronglySorted tle ts -> Forall (fun t => wf_range (c_range t) = true) ts ->
  decode (fst (encode ts (Some r))) = filter (touches r) (decode (fst (encode ts None)))
  /\ snd (encode ts (Some r)) = false.
Check C16_well_formed : forall (E : Type) (classify : E -> option (N * N)) (l : list (range * E)) f,
  (forall a, In a l -> nonempty (fst a) = true) ->
  (forall a b, In a l -> In b l -> compat (fst a) (fst b) = true) ->
  let out := encode (map_and_sort classify l) f in
  snd out = false /\ well_formed_stream (decode (fst out)) = true /\ strictly_increasing (decode (fst out)) = true.
Check C16_hierarchy_nested : forall symbols root h,
  (forall x, In x (root :: symbols) -> contains (span x) (selection x) = true) ->
  (forall c p, In c symbols -> In p (root :: symbols) -> e_parent c = Some (e_id p) ->
               contains (span p) (span c) = true) ->
  from_parent root symbols = Some h -> nested (to_document_symbol h) = true.

Print Assumptions C16_decode_encode.
Print Assumptions C16_encode_decode_general.
Print Assumptions C16_range_is_filter.
Print Assumptions C16_touches_single_line.
Print Assumptions C16_multiline_skipped.
Print Assumptions C16_sort_is_stable_sort.
Print Assumptions C16_map_and_sort_positions.
Print Assumptions C16_well_formed.
Print Assumptions C16_well_formed_stream_spec.
Print Assumptions C16_dedup_needed.
Print Assumptions C16_well_formed_old_refuted.
Print Assumptions C16_unsorted_wraps.
Print Assumptions C16_hierarchy_nested.
Print Assumptions C16_selection_unnamed.
Print Assumptions C16_from_parent_total.
