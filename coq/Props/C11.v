(* Props/C11.v — Token positions are exact UTF-16 coordinates of their lexemes.
   Statements only: each theorem is closed by `exact` of a lemma proved in
   Lex/LangLexerProofs.v, Text/ReaderProofs.v, Text/ReaderInv.v or Lex/C11Examples.v,
   pinned by `Check`, and followed by `Print Assumptions`.

   Model: RH.Text.Reader (ContentReader), RH.Lex.LangLexer (Tokenizer + TokenStream::new),
   `lex_all s` = tokens and diagnostics of `TokenStream::new` on `Source::inline(s)`.
   Specification: RH.Lex.LexSpec (slice16, lexeme_ok, relex_prop). *)
From Coq Require Import List NArith Arith Bool.
Import ListNotations.
From RH Require Import Text.Contents Text.Reader Text.ReaderProofs Lex.LangLexer Lex.LexSpec
  Lex.LangLexerProofs Lex.C11Examples.
Open Scope N_scope.

(* (a) The tokenizer terminates on every input (regression theorem of finding F5): with fuel
   greater than the number of characters no loop of the model runs out of fuel. *)
Theorem C11_lex_total : forall s, lex_all s <> Aborted OutOfFuel.
Proof. exact lex_total. Qed.
Theorem C11_lex_total_gen : forall (kws : list (list N)) (fuel : nat) (s : list char),
  (length s < fuel)%nat -> lex_gen kws true fuel s <> Aborted OutOfFuel.
Proof. exact lex_total_gen. Qed.
(* every pop of the tokenizer that yields a token or an error consumes at least one character *)
Theorem C11_pop_progress : forall d kws F, (length (concat d) < F)%nat ->
  forall fuel t r t', tk_pop d kws F true fuel t = (r, t') ->
    r <> Ok None -> (forall a, r <> Ab a) -> sadv d (k_rd t) (k_rd t').
Proof. intros d kws F HF fuel t r t' H. exact (proj1 (proj2 (tk_pop_props d kws F HF fuel t r t' H))). Qed.
(* The code before the repair (lookahead error propagated without consuming) loops on "x€". *)
Theorem C11_lex_old_refuted : lex_all_old [120; 8364] = Aborted OutOfFuel.
Proof. exact lex_old_refuted. Qed.

(* (c) Token ranges are well-ordered (start < end), increasing and non-overlapping. *)
Theorem C11_token_ranges_ordered : forall s toks diags,
  lex_all s = Done toks diags -> ranges_sorted (0, 0) toks.
Proof. exact token_ranges_ordered. Qed.
Theorem C11_token_ranges_ordered_gen : forall kws fuel s toks diags,
  (length s < fuel)%nat -> lex_gen kws true fuel s = Done toks diags -> ranges_sorted (0, 0) toks.
Proof. exact token_ranges_ordered_gen. Qed.

(* Non-vacuity: a three-line input with CRLF and a lone CR, a Latin-1 character in a string, a
   supplementary-plane character in a comment, bit strings and a based literal lexes to six
   tokens without diagnostics; each slice is the token's lexeme and re-lexes to the token. *)
Example C11_example_lexes :
  exists toks, lex_all example_text = Done toks [] /\ length toks = 6%nat /\
    ranges_sorted (0, 0) toks /\
    Forall (fun t => lexeme_ok t (slice_of_text example_text (t_s t) (t_e t)) = true) toks /\
    Forall (fun t => relex_prop t (slice_of_text example_text (t_s t) (t_e t))) toks.
Proof. exact example_lexes. Qed.

(* (e) is FALSE for the current code on lexically erroneous input (open finding, reproduced on
   the implementation): "1g.5" yields a real-valued literal with text "1" whose slice re-lexes to
   an integer. *)
Theorem C11_relex_refuted :
  exists s toks ds t, lex_all s = Done toks ds /\ In t toks /\
    ~ relex_prop t (slice_of_text s (t_s t) (t_e t)).
Proof. exact relex_refuted. Qed.

Check C11_lex_total : forall s, lex_all s <> Aborted OutOfFuel.
Check C11_token_ranges_ordered : forall s toks diags, lex_all s = Done toks diags -> ranges_sorted (0, 0) toks.

Print Assumptions C11_lex_total.
Print Assumptions C11_lex_total_gen.
Print Assumptions C11_pop_progress.
Print Assumptions C11_lex_old_refuted.
Print Assumptions C11_token_ranges_ordered.
Print Assumptions C11_token_ranges_ordered_gen.
Print Assumptions C11_example_lexes.
Print Assumptions C11_relex_refuted.
