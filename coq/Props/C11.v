(* Props/C11.v — Token positions are exact UTF-16 coordinates of their lexemes.
   Statements only: each theorem is closed by `exact` of a lemma proved in
   Lex/LangLexerProofs.v, Lex/LangLexerRelex*.v, Text/ReaderProofs.v, Text/ReaderInv.v or Lex/C11Examples.v,
   pinned by `Check`, and followed by `Print Assumptions`.

   Model: RH.Text.Reader (ContentReader), RH.Lex.LangLexer (Tokenizer + TokenStream::new),
   `lex_all s` = tokens and diagnostics of `TokenStream::new` on `Source::inline(s)`.
   Specification: RH.Lex.LexSpec (slice16, lexeme_ok, relex_prop). *)
From Coq Require Import List NArith Arith Bool.
Import ListNotations.
From RH Require Import Text.Contents Text.ContentsProofs Text.LineTable Text.Reader Text.ReaderProofs Text.ReaderInv
  Lex.LangLexer Lex.LexSpec Lex.LangLexerProofs Lex.LangLexerSlices Lex.LangLexerNoCrash Lex.LangLexerComments Lex.LangLexerText Lex.LangLexerRelex Lex.LangLexerRelex4 Lex.C11Examples.
Open Scope N_scope.

(* (a) The tokenizer terminates on every input (regression theorem of finding F5): with fuel
   greater than the number of characters no loop of the model runs out of fuel. *)
Theorem C11_lex_total : forall s, lex_all s <> Aborted OutOfFuel.
Proof. exact lex_total. Qed.
Theorem C11_lex_total_gen : forall (kws : list (list N)) (fuel : nat) (s : list char),
  (length s < fuel)%nat -> lex_gen kws true fuel s <> Aborted OutOfFuel.
Proof. exact lex_total_gen. Qed.
(* every pop of the tokenizer that yields a token or an error consumes at least one character *)
Theorem C11_pop_progress : forall d kws F, (length (concat d) < F)%nat ->
  forall fuel t r t', tk_pop d kws F true fuel t = (r, t') ->
    r <> Ok None -> (forall a, r <> Ab a) -> sadv d (k_rd t) (k_rd t').
Proof. intros d kws F HF fuel t r t' H. exact (proj1 (proj2 (tk_pop_props d kws F HF fuel t r t' H))). Qed.
(* The code before the repair (lookahead error propagated without consuming) loops on "x€". *)
Theorem C11_lex_old_refuted : lex_all_old [120; 8364] = Aborted OutOfFuel.
Proof. exact lex_old_refuted. Qed.

(* The tokenizer never panics: no read inside a multi-byte character, and the `unwrap`s of the
   integer-exponent arm (`peek`) and of parse_bit_string (`value_at`) cannot fail.  Hence total
   correctness of the modelled front end: every input yields tokens and diagnostics. *)
Theorem C11_lex_no_crash : forall s, lex_all s <> Aborted Crash.
Proof. exact lex_no_crash. Qed.
Theorem C11_lex_all_done : forall s, exists toks diags, lex_all s = Done toks diags.
Proof. exact lex_all_done. Qed.
Theorem C11_lex_latin1_file_done : forall bytes, exists toks diags, lex_latin1_file bytes = Done toks diags.
Proof. exact lex_latin1_file_done. Qed.
(* bit_string_value_at: parse_bit_string entered after the literal's first characters l0 (length,
   base specifier, opening quote; Latin-1, one line) were consumed from the token start s0 *)
Theorem C11_parse_bit_string_never_panics : forall d F, Forall lf_last d ->
  forall base len s0 l0 st r st', RInv d s0 -> lrun d l0 s0 st -> l0 <> [] ->
    parse_bit_string d F base len (snd (r_pos s0)) st = (r, st') -> r <> Ab Crash /\ RInv d st'.
Proof. exact parse_bit_string_nocr. Qed.

(* (b) Reader invariant: `idx` (UTF-8 bytes) and `character` (UTF-16 units) denote the same character
   boundary of line `line`.  It holds initially, every pop preserves it, and under it get_char never
   reads inside a multi-byte character (the undefined-behaviour outcome GBad of the model). *)
Theorem C11_reader_inv_start : forall d, RInv d rstart.
Proof. exact rinv_start. Qed.
Theorem C11_reader_inv_preserved : forall d st c,
  RInv d st -> get_char d st = GChar c -> RInv d (skip_char st c).
Proof. exact rinv_skip. Qed.
Theorem C11_reader_inv_reachable : forall d st st', adv d st st' -> RInv d st -> RInv d st'.
Proof. exact rinv_adv. Qed.
Theorem C11_reader_never_bad : forall d st, RInv d st -> get_char d st <> GBad.
Proof. exact rinv_not_bad. Qed.
Example C11_reader_example :
  let d := split_lines example_text in
  let st := {| r_pos := (0, 7); r_idx := 8 |} in
  RInv d st /\ run d [97; 32; 60; 61; 32; 34; 233] rstart st /\ get_char d st = GChar 34 /\
  slice_of_text example_text (0, 0) (0, 7) = [97; 32; 60; 61; 32; 34; 233].
Proof. exact reader_example. Qed.
(* the characters popped between two reader states are the text between their two UTF-16 positions
   (slice16: lines split at LF/CR/CRLF, columns in UTF-16 units; defined without the reader) *)
Theorem C11_consumed_is_slice : forall s l st st',
  RInv (split_lines s) st -> run (split_lines s) l st st' ->
  l = slice_of_text s (r_pos st) (r_pos st').
Proof. exact consumed_is_slice_text. Qed.
(* parse_bit_string re-reads the literal through value_at(line, start column, end column): for
   Latin-1 text consumed on one line it returns exactly the consumed characters (no `unwrap` panic) *)
Theorem C11_bit_string_value_at : forall d, Forall lf_last d -> forall l st st',
  RInv d st -> run d l st st' -> fst (r_pos st) = fst (r_pos st') -> l <> [] ->
  Forall (fun c => c < 256) l ->
  value_at d (fst (r_pos st')) (snd (r_pos st)) (snd (r_pos st')) = Some l.
Proof. exact value_at_consumed. Qed.

(* (c) Token ranges are well-ordered (start < end), increasing and non-overlapping. *)
Theorem C11_token_ranges_ordered : forall s toks diags,
  lex_all s = Done toks diags -> ranges_sorted (0, 0) toks.
Proof. exact token_ranges_ordered. Qed.
Theorem C11_token_ranges_ordered_gen : forall kws fuel s toks diags,
  (length s < fuel)%nat -> lex_gen kws true fuel s = Done toks diags -> ranges_sorted (0, 0) toks.
Proof. exact token_ranges_ordered_gen. Qed.

(* Attached comments lie between their neighbours: for every token of the stream, its leading
   comments are ordered (start <= end, each starts at or after the previous one's end), begin at or
   after `lo` (the end of the previous token and of its trailing comment) and end at or before the
   token's start; its trailing comment starts at or after the token's end; the next token's
   comments start after it. *)
Theorem C11_comments_between : forall s toks diags,
  lex_all s = Done toks diags -> stream_comments (0, 0) toks.
Proof. exact comments_between. Qed.

(* (d) token_text_exact: for every token the front end produces from any input, the source text
   between the token's start and end position (slice_of_text: lines split at LF, CR or CRLF, columns
   counted in UTF-16 code units; defined in Lex/LexSpec.v without reference to the reader) is exactly
   that token's lexeme (lexeme_ok: identifiers and keywords up to letter case, string literals and
   extended identifiers with their quote doubled, abstract and bit-string literals: their text,
   delimiters: their spelling). *)
Theorem C11_token_text_exact : forall s toks diags, lex_all s = Done toks diags ->
  Forall (fun t => lexeme_ok t (slice_of_text s (t_s t) (t_e t)) = true) toks.
Proof. exact token_text_exact. Qed.
(* in more detail: the range of every token is delimited by two character boundaries of the text
   (reader states satisfying the invariant) and the text between them is the non-empty string of
   characters the reader consumed from the token's start to its end *)
Theorem C11_token_slices_consumed : forall s toks diags,
  lex_all s = Done toks diags -> Forall (tok_slice s) toks.
Proof. exact token_slices_consumed. Qed.
(* (e) relex: re-lexing the slice of a token alone yields exactly one token with the same kind and the
   same value.  Proved for every token of the stream (C11_relex), without side condition on the
   token or its context: each arm of parse_token, run on exactly the characters it consumed followed
   by the end of the input, returns the same (kind, value, warning) — the tokenizer inspects at most
   the one character that follows a lexeme, and the end of the input behaves like any character that
   does not continue the lexeme (Lex/LangLexerRelex2.v, 3, 4).  The statement was false before commit
   10bee32 (C11_relex_old_refuted below).
   C11_relex_partial (delimiters and character literals, by finite evaluation) is kept; the other
   kinds are C11_relex_identifier (basic and extended identifiers, keywords), C11_relex_string,
   C11_relex_bit_string (all base specifiers, with and without a length) and
   C11_relex_abstract_literal (integers with exponent, reals, based literals). *)
Theorem C11_relex_partial : forall s toks diags, lex_all s = Done toks diags ->
  Forall (fun t =>
    ((t_val t = VNone /\ In (t_kind t) delim_kinds) \/
     (t_kind t = KCharacter /\ exists c, t_val t = VChar c /\ c < 256 /\ c <> 13)) ->
    relex_prop t (slice_of_text s (t_s t) (t_e t))) toks.
Proof. exact relex_partial. Qed.
Theorem C11_relex_identifier : forall s toks diags, lex_all s = Done toks diags ->
  Forall (fun t => (t_kind t = KIdentifier \/ exists n, t_kind t = KKw n) ->
                   relex_prop t (slice_of_text s (t_s t) (t_e t))) toks.
Proof. exact relex_identifier. Qed.
Theorem C11_relex_string : forall s toks diags, lex_all s = Done toks diags ->
  Forall (fun t => t_kind t = KStringLiteral -> relex_prop t (slice_of_text s (t_s t) (t_e t))) toks.
Proof. exact relex_string. Qed.
Theorem C11_relex_bit_string : forall s toks diags, lex_all s = Done toks diags ->
  Forall (fun t => t_kind t = KBitString -> relex_prop t (slice_of_text s (t_s t) (t_e t))) toks.
Proof. exact relex_bit_string. Qed.
Theorem C11_relex_abstract_literal : forall s toks diags, lex_all s = Done toks diags ->
  Forall (fun t => t_kind t = KAbstractLiteral -> relex_prop t (slice_of_text s (t_s t) (t_e t))) toks.
Proof. exact relex_abstract_literal. Qed.
(* all five literal/identifier kinds at once, for any keyword table and any sufficient fuel; relex_gen
   also names the diagnostics of the re-lexing: `warn_diag w t'` is empty unless w is the warning of a
   basic identifier that violates the identifier rules *)
Theorem C11_relex_lit_gen : forall kws fuel s toks diags, lex_gen kws true fuel s = Done toks diags ->
  Forall (fun t => lit_kind (t_kind t) = true -> relex_gen kws t (slice_of_text s (t_s t) (t_e t))) toks.
Proof. exact relex_lit_gen. Qed.
(* every token of the stream is of one of the three classes covered *)
Theorem C11_tokens_classified : forall s toks diags, lex_all s = Done toks diags -> Forall tok_class toks.
Proof. exact tokens_classified. Qed.
(* the full statement *)
Theorem C11_relex : forall s toks diags, lex_all s = Done toks diags ->
  Forall (fun t => relex_prop t (slice_of_text s (t_s t) (t_e t))) toks.
Proof. exact relex. Qed.
(* the mechanism: a literal/identifier/keyword token produced by parse_token from st consumed b :: l,
   and on every canonical buffer d' in which b :: l is followed by the end of the input parse_token
   returns the same kind, value and warning (any start position, any previous token kind, any fuel > |l|) *)
Theorem C11_parse_token_stops_at_eof : forall d kws F start last st k v w st2, Forall lf_last d -> RInv d st ->
  parse_token d kws F true start last st = (Ok (Some (k, v, w)), st2) -> lit_kind k = true ->
  stops_at_eof d kws st st2 k v w.
Proof. exact parse_token_sim. Qed.
(* re-lexing yields no diagnostic for string, bit string and abstract literals, and none for an
   identifier or keyword whose spelling satisfies validate_basic_identifier; the side condition is
   necessary: `a__b` re-lexes to the same identifier with the same warning *)
Theorem C11_relex_clean_literals : forall s toks diags, lex_all s = Done toks diags ->
  Forall (fun t => (t_kind t = KStringLiteral \/ t_kind t = KBitString \/ t_kind t = KAbstractLiteral) ->
                   relex_clean t (slice_of_text s (t_s t) (t_e t))) toks.
Proof. exact relex_clean_literals. Qed.
Theorem C11_relex_clean_identifier : forall s toks diags, lex_all s = Done toks diags ->
  Forall (fun t => (t_kind t = KIdentifier \/ exists n, t_kind t = KKw n) ->
                   validate_basic_identifier (slice_of_text s (t_s t) (t_e t)) = None ->
                   relex_clean t (slice_of_text s (t_s t) (t_e t))) toks.
Proof. exact relex_clean_identifier. Qed.
Example C11_relex_identifier_warning :
  let s := [97; 95; 95; 98] in
  exists t, lex_all s = Done [t] [TErr (0, 0) (0, 4) 18] /\ t_kind t = KIdentifier /\
            slice_of_text s (t_s t) (t_e t) = s /\ validate_basic_identifier s = Some 18.
Proof. exact relex_identifier_warning. Qed.
(* non-vacuity: eleven tokens of all the literal kinds (a real whose integer part overflows u64
   included), no diagnostic, each re-lexes from its slice *)
Example C11_relex_example :
  exists toks, lex_all relex_example_text = Done toks [] /\
    map t_kind toks = [KIdentifier; KKw [101; 110; 116; 105; 116; 121]; KBitString; KIdentifier; KStringLiteral;
                       KAbstractLiteral; KAbstractLiteral; KAbstractLiteral; KAbstractLiteral; KBitString; KAbstractLiteral] /\
    Forall (fun t => lit_kind (t_kind t) = true) toks /\
    Forall (fun t => relex_prop t (slice_of_text relex_example_text (t_s t) (t_e t))) toks.
Proof. exact relex_example. Qed.

(* From the ORIGINAL text to the line table (Contents::from_str = split_lines; from_latin1_file =
   split_lines after decoding): the table's text is the original text with CR LF / CR replaced by LF and
   nothing else changed, and split_lines s is the only canonical table with that text.  All position
   theorems above are stated with slice_of_text on the original text s. *)
Theorem C11_line_table_text : forall s, concat (split_lines s) = normalize_eol s.
Proof. exact line_table_text. Qed.
Theorem C11_line_table_unique : forall s d, cdoc d -> concat d = normalize_eol s -> d = split_lines s.
Proof. exact line_table_unique. Qed.
Theorem C11_line_table_keeps_characters : forall s,
  filter (fun c => negb ((c =? LF) || (c =? CR))) (concat (split_lines s))
  = filter (fun c => negb ((c =? LF) || (c =? CR))) s.
Proof. exact line_table_keeps_characters. Qed.
Example C11_bom_not_dropped : split_lines [65279; 101] <> split_lines [101].
Proof. exact bom_not_dropped. Qed.

(* (f) Files are decoded as ISO-8859-1: iso_8859_1_to_utf8 followed by UTF-8 decoding is the identity
   on code points 0..255, every character is one UTF-16 unit, so a column is a byte offset. *)
Theorem C11_decode_latin1_id : forall bytes, Forall (fun b => b < 256) bytes -> decode_latin1 bytes = bytes.
Proof. exact decode_latin1_id. Qed.
Theorem C11_latin1_columns : forall (bytes : list N), Forall (fun b => b < 256) bytes ->
  forall line pre suf, In line (split_lines (decode_latin1 bytes)) -> line = pre ++ suf ->
    len16s pre = N.of_nat (length pre).
Proof. exact latin1_columns. Qed.

(* Non-vacuity: a three-line input with CRLF and a lone CR, a Latin-1 character in a string, a
   supplementary-plane character in a comment, bit strings and a based literal lexes to six
   tokens without diagnostics; each slice is the token's lexeme and re-lexes to the token. *)
Example C11_example_lexes :
  exists toks, lex_all example_text = Done toks [] /\ length toks = 6%nat /\
    ranges_sorted (0, 0) toks /\
    Forall (fun t => lexeme_ok t (slice_of_text example_text (t_s t) (t_e t)) = true) toks /\
    Forall (fun t => relex_prop t (slice_of_text example_text (t_s t) (t_e t))) toks.
Proof. exact example_lexes. Qed.

(* Finding F24 (fixed in /repo by 10bee32): with the pre-fix real-literal arm `1g.5` yields the
   real-valued literal `1` for the range 0:0-0:1, whose slice re-lexes to an INTEGER literal:
   "re-lexing the slice yields the same kind and value" was false.  The repaired code reports
   the invalid character instead. *)
Theorem C11_relex_old_refuted :
  let s := [49; 103; 46; 53] in
  exists st', parse_abstract_literal_old (split_lines s) 10 rstart = (Ok (KAbstractLiteral, VAbsReal [49]), st')
    /\ slice_of_text s (0, 0) (r_pos st') = [49]
    /\ exists t ds, lex_all [49] = Done [t] ds /\ t_kind t = KAbstractLiteral /\ t_val t <> VAbsReal [49].
Proof. exact relex_old_refuted. Qed.
Example C11_f24_fixed :
  exists toks, lex_all [49; 103; 46; 53] = Done toks [TErr (0, 1) (0, 2) 2] /\
    map t_kind toks = [KIdentifier; KDot; KAbstractLiteral].
Proof. exact f24_fixed. Qed.

Check C11_lex_total : forall s, lex_all s <> Aborted OutOfFuel.
Check C11_lex_all_done : forall s, exists toks diags, lex_all s = Done toks diags.
Check C11_token_text_exact : forall s toks diags, lex_all s = Done toks diags ->
  Forall (fun t => lexeme_ok t (slice_of_text s (t_s t) (t_e t)) = true) toks.
Check C11_token_ranges_ordered : forall s toks diags, lex_all s = Done toks diags -> ranges_sorted (0, 0) toks.
Check C11_relex : forall s toks diags, lex_all s = Done toks diags ->
  Forall (fun t => relex_prop t (slice_of_text s (t_s t) (t_e t))) toks.

Print Assumptions C11_lex_total.
Print Assumptions C11_lex_total_gen.
Print Assumptions C11_pop_progress.
Print Assumptions C11_lex_old_refuted.
Print Assumptions C11_lex_no_crash.
Print Assumptions C11_lex_all_done.
Print Assumptions C11_lex_latin1_file_done.
Print Assumptions C11_parse_bit_string_never_panics.
Print Assumptions C11_reader_inv_start.
Print Assumptions C11_reader_inv_preserved.
Print Assumptions C11_reader_inv_reachable.
Print Assumptions C11_reader_never_bad.
Print Assumptions C11_reader_example.
Print Assumptions C11_consumed_is_slice.
Print Assumptions C11_bit_string_value_at.
Print Assumptions C11_comments_between.
Print Assumptions C11_token_text_exact.
Print Assumptions C11_token_slices_consumed.
Print Assumptions C11_relex_partial.
Print Assumptions C11_relex_identifier.
Print Assumptions C11_relex_string.
Print Assumptions C11_relex_bit_string.
Print Assumptions C11_relex_abstract_literal.
Print Assumptions C11_relex_lit_gen.
Print Assumptions C11_tokens_classified.
Print Assumptions C11_relex.
Print Assumptions C11_parse_token_stops_at_eof.
Print Assumptions C11_relex_clean_literals.
Print Assumptions C11_relex_clean_identifier.
Print Assumptions C11_relex_identifier_warning.
Print Assumptions C11_relex_example.
Print Assumptions C11_line_table_text.
Print Assumptions C11_line_table_unique.
Print Assumptions C11_line_table_keeps_characters.
Print Assumptions C11_bom_not_dropped.
Print Assumptions C11_decode_latin1_id.
Print Assumptions C11_latin1_columns.
Print Assumptions C11_token_ranges_ordered.
Print Assumptions C11_token_ranges_ordered_gen.
Print Assumptions C11_example_lexes.
Print Assumptions C11_relex_old_refuted.
Print Assumptions C11_f24_fixed.
