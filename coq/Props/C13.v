(* Props/C13.v — property C13 "Analysis is insensitive to layout, comments and letter case".

   What is a theorem here (front end) and what is explored by checks/c13.py (the rest):

   * the Latin-1 lower-case table of `Latin1String::lowercase`               C13_lowercase_spec, C13_lowercase_table
   * the symbol table (data/symbol_table.rs, model Symtab/Symtab.v), for ALL insertion histories,
     i.e. for every interleaving of the lock-protected steps of any number of parser threads:
     ids of basic identifiers are equal iff the lower-case spellings are equal, an extended identifier
     shares its id only with the identical spelling                          C13_symtab_case_insensitive
     keywords pre-inserted first keep the ids 0..N-1                         C13_keywords_keep_ids
     `insert(name).id < N` (the keyword test of `Symbols::insert_or_keyword`) holds exactly for the
     case variants of keywords, and the id is the keyword's index            C13_keyword_lookup_case_insensitive
   * the tokenizer (shared model Lex/LangLexer.v): changing the case of letters anywhere outside
     tool-directive comments changes no token kind, no position, no diagnostic, no numeric value; every
     text value is changed only in letter case                               C13_case_invariant_partial
     case variants of a basic identifier are the same symbol                 C13_case_same_symbol
     strings, character literals and extended identifiers whose characters were not changed keep
     their values; an extended identifier whose case was changed is another symbol
                                                                             C13_case_untouched_values, C13_extended_case_sensitive
   * re-layout: two writings of the token list of a diagnostic-free text with any gaps of blanks, line
     breaks and comments that keep the tokens apart lex to the same kinds and values (from the C12
     render -> lex round trip)                                               C13_relayout_invariant, C13_relayout_invariant_sep
     and a bounded exhaustive evaluation (with tabs)                         C13_relayout_invariant_partial
   NOT proved: that parser, semantic analysis and lints consult identifiers only through kinds, values
   and symbol ids (and re-layout with tabs/CR/CRLF or of texts with lexical errors).  That is what the
   project-vs-transformed-project oracle of checks/c13.py explores on every run. *)
From Coq Require Import List Arith NArith Bool.
Import ListNotations.
From RH Require Import Text.Contents Text.Reader Lex.LangLexer Lex.LexSpec Lex.CaseLayout Lex.CaseLayoutProofs
  Lex.CaseLayoutCorollaries Symtab.Symtab Symtab.SymtabProofs Symtab.SymtabCase.
From RH Require Lex.Render Lex.RenderLex Lex.RenderFull Lex.CaseLayoutRelayout.
Local Open Scope nat_scope.

(* ------------------------------------------------------------------------------------------ *)
(* lower case                                                                                 *)
(* ------------------------------------------------------------------------------------------ *)
Theorem C13_lowercase_spec : forall c : nat, (c < 256)%nat ->
  lower_byte c = (if is_upper_l1 c then c + 32 else c)%nat
  /\ lower_byte (lower_byte c) = lower_byte c
  /\ (lower_byte c < 256)%nat
  /\ is_upper_l1 (lower_byte c) = false
  /\ (lower_byte c <> c <-> is_upper_l1 c = true).
Proof. exact lower_byte_spec. Qed.

(* the 256 values, written out (compared with the implementation's 256 values on every run) *)
Theorem C13_lowercase_table : map lower_byte (seq 0 256) = lower_table
  /\ lower_byte 215 = 215%nat /\ lower_byte 247 = 247%nat.
Proof. exact (conj lower_table_ok lower_byte_fixed_215_247). Qed.

(* the table inside the tokenizer model (Text/Reader.v) is the same function *)
Theorem C13_lexer_lowercase_is_symtab_lowercase : forall c : N, N.to_nat (lowercase c) = lower_byte (N.to_nat c).
Proof. exact lowercase_N_nat. Qed.

(* ------------------------------------------------------------------------------------------ *)
(* symbol table                                                                               *)
(* ------------------------------------------------------------------------------------------ *)
Theorem C13_symtab_case_insensitive : forall t a sa b sb,
  reachable t -> find t a = Some sa -> find t b = Some sb ->
  (is_ext a = false -> is_ext b = false -> (s_id sa = s_id sb <-> lower_latin1 a = lower_latin1 b))
  /\ (is_ext a = true -> (s_id sa = s_id sb <-> a = b)).
Proof. exact symtab_case_insensitive. Qed.

(* the same for two calls of `insert` separated by any history; the returned symbol carries the
   spelling it was inserted with (what messages quote) *)
Theorem C13_insert_case_insensitive : forall t a t1 sa ops t2 b t3 sb,
  reachable t -> insert lower_latin1 t a = Some (t1, sa) -> run lower_latin1 t1 ops = Some t2 ->
  insert lower_latin1 t2 b = Some (t3, sb) ->
  s_name sa = a /\ s_name sb = b
  /\ (is_ext a = false -> is_ext b = false -> (s_id sa = s_id sb <-> lower_latin1 a = lower_latin1 b))
  /\ (is_ext a = true -> (s_id sa = s_id sb <-> a = b)).
Proof. exact insert_case_insensitive_full. Qed.

Theorem C13_insert_total : forall t n, exists t' s, insert lower_latin1 t n = Some (t', s).
Proof. exact insert_total. Qed.

Theorem C13_keywords_keep_ids : forall kws ops t0 t i k,
  kw_table_ok kws -> run lower_latin1 [] kws = Some t0 -> run lower_latin1 t0 ops = Some t ->
  nth_error kws i = Some k -> exists s, find t k = Some s /\ s_id s = i.
Proof. exact keywords_keep_ids. Qed.

Theorem C13_keyword_lookup_case_insensitive : forall kws ops t0 t n t' s,
  kw_table_ok kws -> run lower_latin1 [] kws = Some t0 -> run lower_latin1 t0 ops = Some t ->
  insert lower_latin1 t n = Some (t', s) ->
  (s_id s < length kws <-> (is_ext n = false /\ In (lower_latin1 n) kws))
  /\ (s_id s < length kws -> nth_error kws (s_id s) = Some (lower_latin1 n)).
Proof. exact keyword_lookup. Qed.

(* the committed keyword table of the lexer model satisfies the hypothesis *)
Example C13_keywords_2008_ok : kw_table_ok (map to_name keywords_2008).
Proof. exact keywords_2008_ok. Qed.

(* `EnTiTy`, inserted after the keywords, some attribute names and two identifiers, gets the id of the
   keyword `entity` (index 29); `entity_x` does not *)
Example C13_keyword_lookup_example :
  kw_index 115 (map to_name keywords_2008 ++ [[108; 101; 102; 116]; [120]; [88; 121]]) [69; 110; 84; 105; 84; 121] = Some (Some 29)
  /\ kw_index 115 (map to_name keywords_2008) [101; 110; 116; 105; 116; 121; 95; 120] = Some None.
Proof. split; vm_compute; reflexivity. Qed.

(* x-times / x-divide (215 / 247) are different identifiers, A-grave / a-grave (192 / 224) the same,
   \A\ and \a\ and A are three symbols, A and a one *)
Example C13_symtab_example :
  ids_from [] [[97; 215]; [97; 247]; [192]; [224]; [92; 65; 92]; [92; 97; 92]; [65]; [97]] = Some [0; 1; 2; 2; 4; 5; 6; 6].
Proof. vm_compute. reflexivity. Qed.

(* a table that treated 215 as a letter would merge two identifiers *)
Theorem C13_bad215_refuted : lower_byte_bad215 215 = 247 /\ lower_byte 215 <> lower_byte 247
  /\ map lower_byte_bad215 [97; 215] = map lower_byte_bad215 [97; 247].
Proof. exact bad215_refuted. Qed.

(* ------------------------------------------------------------------------------------------ *)
(* case invariance of the tokenizer                                                           *)
(* ------------------------------------------------------------------------------------------ *)
(* FULL STATEMENT (C13_case_invariant): if s' is obtained from s by changing the case of letters inside
   the keywords and basic identifiers of `lex_all s` only, then `lex_all s'` has the same token kinds at
   the same positions, the same diagnostics, each identifier value denotes the same symbol in every
   reachable symbol table, and strings, character literals and extended identifiers are untouched.
   PROVED below, in a form that is stronger in one direction and weaker in another:
   - stronger: letters may change ANYWHERE (base specifiers, based digits, exponents, strings, ...);
     kinds, positions, diagnostics, numeric values are still equal and values are case variants
     (C13_case_invariant_partial); values of untouched string/character/extended-identifier tokens are
     equal (C13_case_untouched_values); case variants of basic identifiers are the same symbol
     (C13_case_same_symbol);
   - weaker: "the change is outside keywords-and-identifiers-only" is replaced by the hypothesis
     `directives_agree`, i.e. no `vhdl_ls off/on` comment changes its status (a case change inside
     keywords and identifiers cannot touch a comment, so the hypothesis holds for the transformations of
     the full statement; that implication itself is not proved).  C13_case_invariant_no_underscore
     discharges it for texts without underscores. *)
Theorem C13_case_invariant_partial : forall s s' : list char,
  tsim s s' -> directives_agree (split_lines s) (split_lines s') (lex_fuel s) ->
  outcome_sim (lex_all s) (lex_all s').
Proof. exact lex_all_case_sim. Qed.

(* the same for every keyword table and for the tokenizer before the repair of finding F5 *)
Theorem C13_case_invariant_gen : forall kws fixed fuel (s s' : list char),
  tsim s s' -> directives_agree (split_lines s) (split_lines s') fuel ->
  outcome_sim (lex_gen kws fixed fuel s) (lex_gen kws fixed fuel s').
Proof. exact lex_gen_case_sim. Qed.

Theorem C13_case_invariant_no_underscore : forall s s' : list char,
  tsimb s s' = true -> no_underscore_b s = true -> no_underscore_b s' = true ->
  outcome_sim (lex_all s) (lex_all s').
Proof. exact lex_all_case_sim_no_underscore. Qed.

Theorem C13_no_underscore_directives_agree : forall d d' F,
  ~ In 95%N (concat d) -> ~ In 95%N (concat d') -> directives_agree d d' F.
Proof. exact no_underscore_directives_agree. Qed.

Theorem C13_case_same_symbol : forall a a' : list N, lsim a a' -> hd 0%N a <> 92%N ->
  forall t sa sb, reachable t -> find t (to_name a) = Some sa -> find t (to_name a') = Some sb ->
  s_id sa = s_id sb.
Proof. exact case_variants_same_symbol. Qed.

Theorem C13_extended_case_sensitive : forall a a' : list N, hd 0%N a = 92%N ->
  forall t sa sb, reachable t -> find t (to_name a) = Some sa -> find t (to_name a') = Some sb ->
  (s_id sa = s_id sb <-> a' = a).
Proof. exact extended_same_symbol_iff_equal. Qed.

Theorem C13_case_untouched_values : forall s s' toks ds toks' ds',
  lex_all s = Done toks ds -> lex_all s' = Done toks' ds' -> Forall2 tok_sim toks toks' ->
  Forall2 (fun t t' => slice_of_text s' (t_s t') (t_e t') = slice_of_text s (t_s t) (t_e t) ->
                       value_untouched (t_val t) (t_val t')) toks toks'.
Proof. exact untouched_tokens_keep_values. Qed.

(* `Entity E Is -- c` LF `X"aB" 16#fF# 'a' "sT" \Ab\ 1E3;` against a case variant of its keywords,
   identifiers, base specifier, based digits and exponent: the hypotheses hold, and so does the
   conclusion; and the text really has 12 tokens *)
Definition ex_s : list char :=
  [69;110;116;105;116;121;32;69;32;73;115;32;45;45;32;99;10;88;34;97;66;34;32;49;54;35;102;70;35;32;39;97;39;32;
   34;115;84;34;32;92;65;98;92;32;49;69;51;59]%N.
Definition ex_s' : list char :=
  [101;78;84;73;84;89;32;101;32;105;83;32;45;45;32;99;10;120;34;97;66;34;32;49;54;35;70;102;35;32;39;97;39;32;
   34;115;84;34;32;92;65;98;92;32;49;101;51;59]%N.
Example C13_case_example :
  tsimb ex_s ex_s' = true /\ no_underscore_b ex_s = true /\ no_underscore_b ex_s' = true
  /\ outcome_sim (lex_all ex_s) (lex_all ex_s')
  /\ (exists ts, lex_all ex_s = Done ts [] /\ length ts = 10%nat)
  /\ ex_s <> ex_s'.
Proof.
  assert (A : tsimb ex_s ex_s' = true) by (vm_compute; reflexivity).
  assert (B : no_underscore_b ex_s = true) by (vm_compute; reflexivity).
  assert (C : no_underscore_b ex_s' = true) by (vm_compute; reflexivity).
  split; [exact A|]. split; [exact B|]. split; [exact C|].
  split; [exact (lex_all_case_sim_no_underscore _ _ A B C)|].
  split; [|discriminate].
  destruct (lex_all ex_s) as [ts ds|a] eqn:E; vm_compute in E; [|discriminate].
  injection E as <- <-. eexists. split; reflexivity.
Qed.

(* upper-casing a `vhdl_ls off` comment does change the tokens: the hypothesis cannot be dropped *)
Example C13_directive_comment_is_case_sensitive :
  let s  := [45;45;32;118;104;100;108;95;108;115;32;111;102;102;10;97;59]%N in     (* "-- vhdl_ls off" LF "a;" *)
  let s' := [45;45;32;86;72;68;76;95;76;83;32;79;70;70;10;97;59]%N in             (* "-- VHDL_LS OFF" LF "a;" *)
  tsimb s s' = true /\ (exists ds, lex_all s = Done [] ds) /\ (exists ts ds, lex_all s' = Done ts ds /\ length ts = 2%nat).
Proof.
  cbv zeta. split; [vm_compute; reflexivity|]. split.
  - destruct (lex_all [45;45;32;118;104;100;108;95;108;115;32;111;102;102;10;97;59]%N) as [ts ds|a] eqn:E;
      vm_compute in E; [|discriminate]. injection E as <- <-. eexists. reflexivity.
  - destruct (lex_all [45;45;32;86;72;68;76;95;76;83;32;79;70;70;10;97;59]%N) as [ts ds|a] eqn:E;
      vm_compute in E; [|discriminate]. injection E as <- <-. eexists. eexists. split; reflexivity.
Qed.

(* ------------------------------------------------------------------------------------------ *)
(* re-layout                                                                                  *)
(* ------------------------------------------------------------------------------------------ *)
(* C13_relayout_invariant (GENERAL, proved from the render -> lex round trip of the C12 development, files
   Lex/Render*.v imported read-only): a writing of a token list is a list of pieces — blank, line break, `--`
   comment, block comment, token text (Lex/Render.v `piece`, `pieces_text`).  If ts is the token list of a
   diagnostic-free text and ps, ps' are two writings of exactly these tokens (`lex_toks`), with ANY gaps that
   obey the separator discipline `pieces_ok` (behind each token text something its tokenizer arm stops at; a
   `--` comment followed by a line break or the end; comment bodies without line break resp. `*/`, and not the
   `vhdl_ls off` directive), then both writings lex without diagnostics to tokens with the kinds and values of
   ts, in order; only comments and positions differ.  C13_relayout_invariant_sep is the same statement for two
   separator assignments of the formatter's buffer model (`sep_ok`).
   Outside the general theorem: tabs, CR/CRLF and other blank characters in gaps (pieces know ' ' and LF only),
   inputs with lexical diagnostics, tool directives.  Those, and the implementation itself, are covered by the
   lexer half of the oracle of checks/c13.py; the bounded `_partial` sweep below (which includes a tab) is kept. *)
Theorem C13_relayout_invariant : forall s ts ps ps',
  lex_all s = Done ts [] -> RenderLex.lex_toks ps = ts -> RenderLex.lex_toks ps' = ts ->
  Render.pieces_ok None ps = true -> Render.pieces_ok None ps' = true ->
  same_kinds_values (lex_all (Render.pieces_text ps)) (lex_all (Render.pieces_text ps'))
  /\ exists ts1 ts2, lex_all (Render.pieces_text ps) = Done ts1 [] /\ lex_all (Render.pieces_text ps') = Done ts2 []
                     /\ map kv ts1 = map kv ts /\ map kv ts2 = map kv ts.
Proof. exact CaseLayoutRelayout.relayout_invariant. Qed.

Theorem C13_relayout_invariant_sep : forall s ts s0 l text s0' l' text',
  lex_all s = Done ts [] -> map fst l = ts -> map fst l' = ts ->
  Render.render s0 l = Some text -> Render.render s0' l' = Some text' ->
  Render.sep_ok_from s0 l = true -> Render.sep_ok_from s0' l' = true ->
  same_kinds_values (lex_all text) (lex_all text').
Proof. exact CaseLayoutRelayout.relayout_invariant_sep. Qed.

(* the hypotheses are satisfiable: 16 tokens of every literal kind, written with single blanks and written one
   token per line with a line comment and a block comment in front of every token *)
Example C13_relayout_general_example : exists ts, lex_all RenderFull.full_src = Done ts [] /\ length ts = 16
  /\ RenderLex.lex_toks (CaseLayoutRelayout.blanked ts) = ts /\ RenderLex.lex_toks (CaseLayoutRelayout.commented ts) = ts
  /\ Render.pieces_ok None (CaseLayoutRelayout.blanked ts) = true /\ Render.pieces_ok None (CaseLayoutRelayout.commented ts) = true
  /\ Render.pieces_text (CaseLayoutRelayout.blanked ts) <> Render.pieces_text (CaseLayoutRelayout.commented ts).
Proof. exact CaseLayoutRelayout.relayout_example. Qed.

(* BOUNDED form, kept: evaluation over a finite family written with the gap type of Lex/CaseLayout.v (12 lexemes:
   identifier, keyword, :=, character literal, string, exponent literal, based literal, bit string, extended
   identifier, -, ;, <= ; 8 gaps: blank, line break, tab+blank, blank + line comment, block comment, two line breaks +
   blank, empty line comment + tab, block comment holding `--` + blank): all 1728 triples with each gap used
   throughout and all 144 pairs with every middle gap and 2 x 2 outer gaps, against single blanks; and that the
   statement is false without the separator discipline. *)
Theorem C13_relayout_invariant_partial : relayout_sweep_b = true.
Proof. exact relayout_sweep. Qed.

Theorem C13_relayout_needs_separator_discipline :
  (same_kv_b (lex_all (render [] [([45], [GLine [99]]); ([97], [])]))
             (lex_all (render [] [([45], blank); ([97], [])])) = false)%N.
Proof. exact relayout_needs_sep_ok. Qed.

(* one member of the family written out: `ab` `:=` `16#F#` with block comments and line comments between
   them lexes to the same kinds and values as with single blanks *)
Example C13_relayout_example :
  (relayout_case [GBlock [32; 99; 32]] [([97; 98], [GWs 32; GLine [99]]); ([58; 61], [GWs 10; GWs 10; GWs 32]);
                                       ([49; 54; 35; 70; 35], [GLine []; GWs 9])] = true
  /\ all_sep_ok [([97; 98], [GWs 32; GLine [99]]); ([58; 61], [GWs 10; GWs 10; GWs 32]); ([49; 54; 35; 70; 35], [GLine []; GWs 9])] = true)%N.
Proof. split; vm_compute; reflexivity. Qed.

(* ------------------------------------------------------------------------------------------ *)
Check C13_lowercase_spec : forall c : nat, (c < 256)%nat ->
  lower_byte c = (if is_upper_l1 c then c + 32 else c)%nat /\ lower_byte (lower_byte c) = lower_byte c
  /\ (lower_byte c < 256)%nat /\ is_upper_l1 (lower_byte c) = false /\ (lower_byte c <> c <-> is_upper_l1 c = true).
Check C13_symtab_case_insensitive : forall t a sa b sb,
  reachable t -> find t a = Some sa -> find t b = Some sb ->
  (is_ext a = false -> is_ext b = false -> (s_id sa = s_id sb <-> lower_latin1 a = lower_latin1 b))
  /\ (is_ext a = true -> (s_id sa = s_id sb <-> a = b)).
Check C13_keyword_lookup_case_insensitive : forall kws ops t0 t n t' s,
  kw_table_ok kws -> run lower_latin1 [] kws = Some t0 -> run lower_latin1 t0 ops = Some t ->
  insert lower_latin1 t n = Some (t', s) ->
  (s_id s < length kws <-> (is_ext n = false /\ In (lower_latin1 n) kws))
  /\ (s_id s < length kws -> nth_error kws (s_id s) = Some (lower_latin1 n)).
Check C13_case_invariant_partial : forall s s' : list char,
  tsim s s' -> directives_agree (split_lines s) (split_lines s') (lex_fuel s) -> outcome_sim (lex_all s) (lex_all s').
Check C13_case_same_symbol : forall a a' : list N, lsim a a' -> hd 0%N a <> 92%N ->
  forall t sa sb, reachable t -> find t (to_name a) = Some sa -> find t (to_name a') = Some sb -> s_id sa = s_id sb.

Print Assumptions C13_lowercase_spec.
Print Assumptions C13_lowercase_table.
Print Assumptions C13_lexer_lowercase_is_symtab_lowercase.
Print Assumptions C13_symtab_case_insensitive.
Print Assumptions C13_insert_case_insensitive.
Print Assumptions C13_insert_total.
Print Assumptions C13_keywords_keep_ids.
Print Assumptions C13_keyword_lookup_case_insensitive.
Print Assumptions C13_keywords_2008_ok.
Print Assumptions C13_bad215_refuted.
Print Assumptions C13_case_invariant_partial.
Print Assumptions C13_case_invariant_gen.
Print Assumptions C13_case_invariant_no_underscore.
Print Assumptions C13_no_underscore_directives_agree.
Print Assumptions C13_case_same_symbol.
Print Assumptions C13_extended_case_sensitive.
Print Assumptions C13_case_untouched_values.
Print Assumptions C13_case_example.
Print Assumptions C13_directive_comment_is_case_sensitive.
Print Assumptions C13_relayout_invariant.
Print Assumptions C13_relayout_invariant_sep.
Print Assumptions C13_relayout_general_example.
Print Assumptions C13_relayout_invariant_partial.
Print Assumptions C13_relayout_needs_separator_discipline.
Print Assumptions C13_relayout_example.
