(* Props/C15.v — Every request is answered exactly once; the server survives well-formed traffic.
   Statements only: each theorem is closed by `exact` of a lemma proved in Lsp/DispatchProofs.v,
   pinned by `Check`, and followed by `Print Assumptions`.

   Model: Lsp/Dispatch.v (`RequestDispatcher` chain, notification chain, `handle_shutdown`, main loop of
   vhdl_ls/src/stdio_server.rs).  All theorems quantify over the abstract parts: the JSON value type, the
   id type, the server state, the method tables (any list of links; the real ones are
   `vhdl_ls_requests` / `vhdl_ls_notifications`), every decoder (free: may fail on anything) and every
   handler (`handlers_total`: no handler panics — the part that the black-box run of checks/c15.py
   explores on the real server). *)
From Coq Require Import List ZArith Bool String.
Import ListNotations.
From RH Require Import Lsp.Dispatch Lsp.DispatchProofs.
Open Scope string_scope.
Open Scope list_scope.

(* For every message list between `initialized` and `shutdown`: the loop consumes all of it without
   stopping, and the replies — in emission order, other server traffic filtered out — are in one-to-one,
   in-order correspondence (Forall2) with the requests; each reply carries the id of its request;
   unknown method -> MethodNotFound, undecodable parameters -> InvalidParams, otherwise an Ok response.
   Notification decoders and the client's responses are unconstrained. *)
Theorem C15_one_response_per_request :
  forall (Id Params State Out Emit : Type) (null_out : Out)
         (rtable : list (req_entry Params State Out Emit)) (ntable : list (note_entry Params State Emit)),
    handlers_total Params State Out Emit rtable ntable ->
    forall (msgs : list (message Id Params)) (st : State),
      lifecycle_free Id Params msgs = true ->
      exists out st',
        run Id Params State Out Emit null_out rtable ntable true st msgs = (out, Running st') /\
        Forall2 (answers Id Params State Out Emit rtable) (requests Id Params msgs) (replies Id Out Emit out).
Proof. exact one_response_per_request. Qed.

(* what `answers` says, spelled out on the error codes *)
Theorem C15_error_codes :
  forall (Id Params State Out Emit : Type) (rtable : list (req_entry Params State Out Emit))
         (id : Id) (m : string) (p : Params) (r : reply Id Out),
    answers Id Params State Out Emit rtable (id, m, p) r ->
    reply_id Id Out r = id /\
    (lookup Params State Out Emit rtable m = None -> r = RErr id (-32601)%Z) /\
    (forall e, lookup Params State Out Emit rtable m = Some e ->
               rq_decode _ _ _ _ e p = None -> r = RErr id (-32602)%Z) /\
    (forall e, lookup Params State Out Emit rtable m = Some e ->
               rq_decode _ _ _ _ e p <> None -> exists o, r = ROk id o).
Proof.
  intros Id Params State Out Emit rtable id m p r [Hid H]. split; [exact Hid|].
  split; [|split].
  - intro L. rewrite L in H. exact H.
  - intros e L D. rewrite L, D in H. exact H.
  - intros e L D. rewrite L in H. destruct (rq_decode _ _ _ _ e p); [exact H|contradiction].
Qed.

Theorem C15_reply_ids_in_request_order :
  forall (Id Params State Out Emit : Type) (null_out : Out)
         (rtable : list (req_entry Params State Out Emit)) (ntable : list (note_entry Params State Emit)),
    handlers_total Params State Out Emit rtable ntable ->
    forall (msgs : list (message Id Params)) (st : State),
      lifecycle_free Id Params msgs = true ->
      map (reply_id Id Out)
          (replies Id Out Emit (fst (run Id Params State Out Emit null_out rtable ntable true st msgs)))
      = map (fun q => fst (fst q)) (requests Id Params msgs).
Proof. exact reply_ids_in_request_order. Qed.

(* a complete session: ... traffic ..., shutdown, exit: all of the above, then the Ok(null) of shutdown, exit(0) *)
Theorem C15_session_with_shutdown :
  forall (Id Params State Out Emit : Type) (null_out : Out)
         (rtable : list (req_entry Params State Out Emit)) (ntable : list (note_entry Params State Emit)),
    handlers_total Params State Out Emit rtable ntable ->
    forall (pre : list (message Id Params)) (id : Id) (p p' : Params) (junk : list (message Id Params)) (st : State),
      lifecycle_free Id Params pre = true ->
      exists out,
        run Id Params State Out Emit null_out rtable ntable true st
            (pre ++ Request id "shutdown" p :: Notification "exit" p' :: junk)
          = (out ++ [EReply (ROk id null_out)], Exited 0) /\
        Forall2 (answers Id Params State Out Emit rtable) (requests Id Params pre) (replies Id Out Emit out).
Proof. exact session_with_shutdown. Qed.

(* No panic is reachable, provided no handler panics; the decoders of requests AND of notifications may
   fail freely (F7 repaired); protocol_ok: every `shutdown` is directly followed by `exit` (DESIGN.md 4.0). *)
Theorem C15_server_survives :
  forall (Id Params State Out Emit : Type) (null_out : Out)
         (rtable : list (req_entry Params State Out Emit)) (ntable : list (note_entry Params State Emit)),
    handlers_total Params State Out Emit rtable ntable ->
    forall (msgs : list (message Id Params)) (st : State),
      protocol_ok Id Params msgs = true ->
      crashed State (snd (run Id Params State Out Emit null_out rtable ntable true st msgs)) = false.
Proof. exact server_survives. Qed.

Theorem C15_lifecycle_free_protocol_ok :
  forall (Id Params : Type) (msgs : list (message Id Params)),
    lifecycle_free Id Params msgs = true -> protocol_ok Id Params msgs = true.
Proof. exact lifecycle_free_protocol_ok. Qed.

(* The URI conversion of today keeps the document handlers total (F8 repaired): a handler that starts with
   `uri_to_file_name(..)?` cannot panic on a URI without a file path if its body does not panic. *)
Theorem C15_doc_handler_total :
  forall (State Out Emit Uri Path P : Type) (uri_of : P -> Uri) (to_file_path : Uri -> option Path)
         (body : State -> Path -> P -> option (State * list Emit * Out)) (none_out : Out),
    (forall st f p, body st f p <> None) ->
    forall st p, doc_handler State Out Emit Uri Path P uri_of to_file_path body none_out st p <> None.
Proof. exact doc_handler_total. Qed.

Theorem C15_doc_note_total :
  forall (State Emit Uri Path P : Type) (uri_of : P -> Uri) (to_file_path : Uri -> option Path)
         (body : State -> Path -> P -> option (State * list Emit)),
    (forall st f p, body st f p <> None) ->
    forall st p, doc_note State Emit Uri Path P uri_of to_file_path body st p <> None.
Proof. exact doc_note_total. Qed.

(* Pre-fix code (e84c598), F7: with `panic!` on a notification JsonError the server dies on lifecycle-free
   traffic although every handler is total; the code of today keeps running on the same traffic. *)
Theorem C15_notification_decode_old_refuted :
  exists (rtable : list (req_entry bool unit unit unit)) (ntable : list (note_entry bool unit unit))
         (msgs : list (message nat bool)),
    handlers_total bool unit unit unit rtable ntable /\
    lifecycle_free nat bool msgs = true /\
    snd (run nat bool unit unit unit tt rtable ntable false tt msgs) = Crashed /\
    snd (run nat bool unit unit unit tt rtable ntable true tt msgs) = Running tt.
Proof. exact notification_decode_old_refuted. Qed.

(* Pre-fix code, F8: `uri_to_file_name` = `to_file_path().unwrap()` makes the hover handler partial although
   its body is total: one decodable request for a non-file URI kills the server (no reply at all); with the
   conversion of today the same request is answered Ok(null). *)
Theorem C15_nonfile_uri_old_refuted :
  exists (msgs : list (message nat bool)),
    lifecycle_free nat bool msgs = true /\
    (forall (st : unit) (f : unit) (p : bool), (fun st _ _ => Some (st, @nil unit, 1)) st f p <> None) /\
    run nat bool unit nat unit 0 [f8_entry true] [] true tt msgs = ([], Crashed) /\
    run nat bool unit nat unit 0 [f8_entry false] [] true tt msgs = ([EReply (ROk 7 0)], Running tt).
Proof. exact nonfile_uri_old_refuted. Qed.

(* Non-vacuity: the hypotheses hold for the skeleton instantiation over the real method tables, and a
   session mixing good / undecodable / unknown requests, notifications (one undecodable), a client response
   evaluates to the expected skeleton; with shutdown+exit it exits; shutdown without exit crashes. *)
Example C15_hyps_satisfiable :
  handlers_total bool unit unit unit (map sk_req vhdl_ls_requests) (map sk_note vhdl_ls_notifications) /\
  lifecycle_free nat bool demo_msgs = true /\
  predict true vhdl_ls_requests vhdl_ls_notifications demo_msgs =
    ([(1, None); (2, Some INVALID_PARAMS); (3, Some METHOD_NOT_FOUND); (4, None)], 0%nat) /\
  predict true vhdl_ls_requests vhdl_ls_notifications
          (demo_msgs ++ [Request 5 "shutdown" false; Notification "exit" false]) =
    ([(1, None); (2, Some INVALID_PARAMS); (3, Some METHOD_NOT_FOUND); (4, None); (5, None)], 1%nat) /\
  snd (predict true vhdl_ls_requests vhdl_ls_notifications
          (demo_msgs ++ [Request 5 "shutdown" false; Request 6 "textDocument/hover" true])) = 2%nat.
Proof. split; [apply sk_handlers_total|exact demo_predict]. Qed.

Check C15_one_response_per_request :
  forall (Id Params State Out Emit : Type) (null_out : Out)
         (rtable : list (req_entry Params State Out Emit)) (ntable : list (note_entry Params State Emit)),
    handlers_total Params State Out Emit rtable ntable ->
    forall (msgs : list (message Id Params)) (st : State),
      lifecycle_free Id Params msgs = true ->
      exists out st',
        run Id Params State Out Emit null_out rtable ntable true st msgs = (out, Running st') /\
        Forall2 (answers Id Params State Out Emit rtable) (requests Id Params msgs) (replies Id Out Emit out).
Check C15_server_survives :
  forall (Id Params State Out Emit : Type) (null_out : Out)
         (rtable : list (req_entry Params State Out Emit)) (ntable : list (note_entry Params State Emit)),
    handlers_total Params State Out Emit rtable ntable ->
    forall (msgs : list (message Id Params)) (st : State),
      protocol_ok Id Params msgs = true ->
      crashed State (snd (run Id Params State Out Emit null_out rtable ntable true st msgs)) = false.

Print Assumptions C15_one_response_per_request.
Print Assumptions C15_error_codes.
Print Assumptions C15_reply_ids_in_request_order.
Print Assumptions C15_session_with_shutdown.
Print Assumptions C15_server_survives.
Print Assumptions C15_lifecycle_free_protocol_ok.
Print Assumptions C15_doc_handler_total.
Print Assumptions C15_doc_note_total.
Print Assumptions C15_notification_decode_old_refuted.
Print Assumptions C15_nonfile_uri_old_refuted.
Print Assumptions C15_hyps_satisfiable.
