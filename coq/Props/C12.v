(* Props/C12.v — Formatting preserves the token stream and the comments.
   Statements only: each theorem is closed by `exact` of a lemma proved in Lex/RenderProofs.v (which builds on
   Lex/RenderStream.v, RenderArms.v, RenderGaps.v, RenderToks.v, RenderLex.v), pinned by `Check`, and followed by
   `Print Assumptions`.

   Model: RH.Lex.Render = formatting/buffer.rs (Buffer::push_token with leading/trailing comments and the blank that
   keeps a comment from merging with the previous token, push_whitespace, line_break(s), indentation, the
   insert_extra_newline flag) writing *pieces*; a formatter run is a trace of buffer operations.
   RH.Lex.LangLexer.lex_all = Tokenizer + TokenStream::new (shared with C11).
   The per-node formatter arms are not modelled (checks/c12.py reconstructs their traces from the real outputs).

   FULL STATEMENT (DESIGN.md, C12 render_lex_roundtrip):
     forall (ts : list token) (seps), ts is the output of `lex_all` on a diagnostic-free input ->
       sep_ok (combine ts seps) = true -> render [] (combine ts seps) = Some text ->
       exists ts', lex_all text = Done ts' [] /\ same_stream ts ts'.
   PROVED (`_partial`): the same with the hypothesis "ts is a lexer output" replaced by the explicit boolean
   well-formedness + kind restriction `supported_kind` on every token:
     delimiters (all 37), keywords, basic identifiers, extended identifiers, string literals, character literals,
     decimal integer literals without exponent — each with the shape the tokenizer produces (Latin-1, no line
     break, validated identifier, value = decimal value < 2^64 ...).
   MISSING: real, based and exponent literals, bit-string literals (their arms of parse_abstract_literal /
   parse_bit_string are not proved; they are covered at run time by `relex_same` in the extracted runner), and the
   derivation of `supported_kind` from "is a lexer output" for the covered kinds (checked at run time: the runner
   evaluates supported_kind on every token of every explored file). *)
From Coq Require Import List NArith Arith Bool.
Import ListNotations.
From RH Require Import Text.Contents Text.Reader Lex.LangLexer Lex.LexSpec Lex.Render Lex.RenderLex Lex.RenderProofs.
Open Scope N_scope.

(* (a) The tokenizer on a rendering, piece level: if every token text is followed by something its arm stops at,
   every `--` comment by a line break and every comment is printable as a comment (pieces_ok), then
   TokenStream::new on the text returns exactly the token texts' tokens (kind, value), no diagnostic, and attaches
   the comments `attached_keys` (leading: those in front of a token; trailing: a `--` comment right behind it). *)
Theorem C12_lex_pieces : forall ps, pieces_ok None ps = true -> pieces_supported ps = true ->
  exists ts', lex_all (pieces_text ps) = Done ts' [] /\ map tok_kv ts' = map tok_kv (lex_toks ps)
              /\ flat_map tok_keys ts' = attached_keys (S (length ps)) ps.
Proof. exact lex_pieces. Qed.

(* (b) render_lex_roundtrip for a trace of buffer operations and for a token list with a separator assignment *)
Theorem C12_render_lex_roundtrip_ops_partial : forall l text,
  render_ops l = Some text -> ops_sep_ok l = true -> forallb supported_kind (ops_tokens l) = true ->
  exists ts', lex_all text = Done ts' [] /\ same_stream (ops_tokens l) ts'.
Proof. exact render_lex_roundtrip_ops. Qed.
Theorem C12_render_lex_roundtrip_partial : forall s0 l text,
  render s0 l = Some text -> sep_ok_from s0 l = true -> forallb supported_kind (map fst l) = true ->
  exists ts', lex_all text = Done ts' [] /\ same_stream (map fst l) ts'.
Proof. exact render_lex_roundtrip_partial. Qed.

(* (c) trace_checker_sound: a rendering that emits the token ids 0 .. n-1 each exactly once, in order, and whose
   separators satisfy sep_ok re-lexes to the same tokens: checking a trace proves the property for that file. *)
Theorem C12_trace_checker_sound : forall ts tr l text,
  trace_check ts tr = true -> inst_trace ts tr = Some l -> render_ops l = Some text ->
  forallb supported_kind ts = true ->
  exists ts', lex_all text = Done ts' [] /\ same_stream ts ts'.
Proof. exact trace_checker_sound. Qed.

(* what a trace writes: its tokens in order and their comments (line comments trimmed) *)
Theorem C12_render_writes_tokens_and_comments : forall l ps, render_pieces l = Some ps ->
  lex_toks ps = ops_tokens l /\ gap_keys ps = flat_map tok_fmt_keys (ops_tokens l).
Proof. exact render_pieces_eff. Qed.

(* (d) sep_ok is necessary: each of these token lists, glued, violates sep_ok AND re-lexes differently, and with a
   blank between the tokens satisfies sep_ok and re-lexes to itself:  a - - b | ( ' a ' | 1 . | < = | x "1" |
   "a" "b" | : = | * * | / * | ? = | = > | a b | is b | 1 e.   x'('a') needs no separator at all. *)
Example C12_glue_hazard_examples : forallb hazard hazard_examples = true.
Proof. exact glue_hazard_examples. Qed.
Example C12_tick_example : sep_ok (glued tick_example) = true /\ roundtrip_b (glued tick_example) = true.
Proof. exact tick_example_ok. Qed.

(* (e) the code before the repairs violates the round trip (regression statements of F42 and F40) *)
Theorem C12_ext_ident_old_refuted :
  supported_kind ext_tok = true /\ relex_same [ext_tok] (tok_text ext_tok) = true /\
  relex_same [ext_tok] (tok_text_old ext_tok) = false.
Proof. exact ext_ident_old_refuted. Qed.
Theorem C12_push_token_old_refuted :
  (match render_ops_old minus_comment_trace with Some t => relex_same (ops_tokens minus_comment_trace) t | None => true end) = false /\
  (match render_ops minus_comment_trace with Some t => relex_same (ops_tokens minus_comment_trace) t | None => false end) = true /\
  ops_sep_ok minus_comment_trace = true.
Proof. exact push_token_old_refuted. Qed.

(* (f) non-vacuity: a trace over nine tokens (two leading comments, an on-line block comment, a trailing comment,
   an extended identifier with a backslash, a string with a quote, the character ''', an integer) passes the trace
   checker, all tokens are supported, and its rendering re-lexes to the same stream *)
Example C12_example_trace :
  trace_check ex_tokens ex_trace = true /\ forallb supported_kind ex_tokens = true /\
  exists l text, inst_trace ex_tokens ex_trace = Some l /\ render_ops l = Some text /\ relex_same ex_tokens text = true.
Proof. exact example_trace_ok. Qed.

Check C12_render_lex_roundtrip_partial : forall s0 l text,
  render s0 l = Some text -> sep_ok_from s0 l = true -> forallb supported_kind (map fst l) = true ->
  exists ts', lex_all text = Done ts' [] /\ same_stream (map fst l) ts'.
Check C12_trace_checker_sound : forall ts tr l text,
  trace_check ts tr = true -> inst_trace ts tr = Some l -> render_ops l = Some text ->
  forallb supported_kind ts = true ->
  exists ts', lex_all text = Done ts' [] /\ same_stream ts ts'.
Check C12_lex_pieces : forall ps, pieces_ok None ps = true -> pieces_supported ps = true ->
  exists ts', lex_all (pieces_text ps) = Done ts' [] /\ map tok_kv ts' = map tok_kv (lex_toks ps)
              /\ flat_map tok_keys ts' = attached_keys (S (length ps)) ps.

Print Assumptions C12_lex_pieces.
Print Assumptions C12_render_lex_roundtrip_ops_partial.
Print Assumptions C12_render_lex_roundtrip_partial.
Print Assumptions C12_trace_checker_sound.
Print Assumptions C12_render_writes_tokens_and_comments.
Print Assumptions C12_glue_hazard_examples.
Print Assumptions C12_tick_example.
Print Assumptions C12_ext_ident_old_refuted.
Print Assumptions C12_push_token_old_refuted.
Print Assumptions C12_example_trace.
