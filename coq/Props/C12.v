(* Props/C12.v — Formatting preserves the token stream and the comments.
   Statements only: each theorem is closed by `exact` of a lemma proved in Lex/RenderProofs.v (which builds on
   Lex/RenderStream.v, RenderArms.v, RenderGaps.v, RenderToks.v, RenderLex.v), pinned by `Check`, and followed by
   `Print Assumptions`.

   Model: RH.Lex.Render = formatting/buffer.rs (Buffer::push_token with leading/trailing comments and the blank that
   keeps a comment from merging with the previous token, push_whitespace, line_break(s), indentation, the
   insert_extra_newline flag) writing *pieces*; a formatter run is a trace of buffer operations.
   RH.Lex.LangLexer.lex_all = Tokenizer + TokenStream::new (shared with C11).
   The per-node formatter arms are not modelled (checks/c12.py reconstructs their traces from the real outputs).

   FULL STATEMENT (DESIGN.md, C12 render_lex_roundtrip) — PROVED as C12_render_lex_roundtrip:
     forall (ts : list token), ts is the output of `lex_all` on a diagnostic-free input ->
       for every separator assignment l over ts with sep_ok l = true and render l = Some text:
       exists ts', lex_all text = Done ts' [] /\ same_stream ts ts'
   for ALL token kinds: delimiters, keywords, basic and extended identifiers, character and string literals,
   abstract literals (decimal with and without exponent, real, based with fraction and exponent) and bit string
   literals (every base specifier, with and without length).  No kind is excluded.
   How: C11_parse_token_stops_at_eof ("the arm stops when the input ends behind the lexeme") is lifted to "the arm
   stops at every character of the follow set" by running the tokenizer in lockstep on a document that ends with
   the lexeme and on the rendering (Lex/RenderLock.v); follow_ok/sep_ok demand exactly that follow set: behind a
   number no identifier character, `.` or `#`, and no sign behind a trailing `e`; behind a string or bit string no
   double quote; behind an extended identifier no backslash; behind a bit string with a length prefix also what a number demands.
   The `_partial` theorems (explicit boolean well-formedness `supported_kind` instead of "is a lexer output",
   usable for token lists that do not come from the tokenizer) are kept. *)
From Coq Require Import List NArith Arith Bool.
Import ListNotations.
From RH Require Import Text.Contents Text.Reader Lex.LangLexer Lex.LexSpec Lex.Render Lex.RenderToks Lex.RenderLex Lex.RenderProofs
  Lex.RenderFull.
Open Scope N_scope.

(* (a) The tokenizer on a rendering, piece level: if every token text is followed by something its arm stops at,
   every `--` comment by a line break and every comment is printable as a comment (pieces_ok), then
   TokenStream::new on the text returns exactly the token texts' tokens (kind, value), no diagnostic, and attaches
   the comments `attached_keys` (leading: those in front of a token; trailing: a `--` comment right behind it). *)
Theorem C12_lex_pieces : forall ps, pieces_ok None ps = true -> pieces_supported ps = true ->
  exists ts', lex_all (pieces_text ps) = Done ts' [] /\ map tok_kv ts' = map tok_kv (lex_toks ps)
              /\ flat_map tok_keys ts' = attached_keys (S (length ps)) ps.
Proof. exact lex_pieces_supported. Qed.

(* (b) render_lex_roundtrip for a trace of buffer operations and for a token list with a separator assignment *)
Theorem C12_render_lex_roundtrip_ops_partial : forall l text,
  render_ops l = Some text -> ops_sep_ok l = true -> forallb supported_kind (ops_tokens l) = true ->
  exists ts', lex_all text = Done ts' [] /\ same_stream (ops_tokens l) ts'.
Proof. exact render_lex_roundtrip_ops. Qed.
Theorem C12_render_lex_roundtrip_partial : forall s0 l text,
  render s0 l = Some text -> sep_ok_from s0 l = true -> forallb supported_kind (map fst l) = true ->
  exists ts', lex_all text = Done ts' [] /\ same_stream (map fst l) ts'.
Proof. exact render_lex_roundtrip_partial. Qed.

(* (c) trace_checker_sound: a rendering that emits the token ids 0 .. n-1 each exactly once, in order, and whose
   separators satisfy sep_ok re-lexes to the same tokens: checking a trace proves the property for that file. *)
Theorem C12_trace_checker_sound : forall ts tr l text,
  trace_check ts tr = true -> inst_trace ts tr = Some l -> render_ops l = Some text ->
  forallb supported_kind ts = true ->
  exists ts', lex_all text = Done ts' [] /\ same_stream ts ts'.
Proof. exact trace_checker_sound. Qed.

(* (b') the FULL statement: tokens of a diagnostic-free input, every kind *)
Theorem C12_render_lex_roundtrip : forall s ts s0 l text,
  lex_all s = Done ts [] -> map fst l = ts -> render s0 l = Some text -> sep_ok_from s0 l = true ->
  exists ts', lex_all text = Done ts' [] /\ same_stream ts ts'.
Proof. exact render_lex_roundtrip. Qed.
Theorem C12_render_lex_roundtrip_ops : forall s ts l text,
  lex_all s = Done ts [] -> ops_tokens l = ts -> render_ops l = Some text -> ops_sep_ok l = true ->
  exists ts', lex_all text = Done ts' [] /\ same_stream ts ts'.
Proof. exact render_lex_roundtrip_full. Qed.
Theorem C12_trace_checker_sound_full : forall s ts tr l text,
  lex_all s = Done ts [] -> trace_check ts tr = true -> inst_trace ts tr = Some l -> render_ops l = Some text ->
  exists ts', lex_all text = Done ts' [] /\ same_stream ts ts'.
Proof. exact trace_checker_sound_full. Qed.
(* the mechanism: every token the tokenizer produces from a diagnostic-free input is read back — kind, value, no
   warning — from its printed text followed by any rest accepted by follow_ok (`tok_good`, Lex/RenderToks.v) *)
Theorem C12_lexer_output_reads_back : forall s ts, lex_all s = Done ts [] -> Forall tok_good ts.
Proof. exact lex_output_good. Qed.
(* and the round trip for any token list with that property *)
Theorem C12_render_lex_roundtrip_good : forall l text,
  render_ops l = Some text -> ops_sep_ok l = true -> Forall tok_good (ops_tokens l) ->
  exists ts', lex_all text = Done ts' [] /\ same_stream (ops_tokens l) ts'.
Proof. exact render_lex_roundtrip_good. Qed.
(* non-vacuity of the full statement: x := 16#F.F#e-1 + 1.5e3 + 12sb[01] + x[AB] + 1E3 + 8#77# - 1_0; (bit strings written with brackets here) lexes to 16
   tokens without diagnostics (not all of a `supported_kind`), one blank between the tokens satisfies sep_ok, and the
   rendering re-lexes to the same stream *)
Example C12_full_example : exists ts text, lex_all full_src = Done ts [] /\ length ts = 16%nat /\
  render [] (spaced_b ts) = Some text /\ sep_ok (spaced_b ts) = true /\ forallb supported_kind ts = false /\ relex_same ts text = true.
Proof. exact full_example. Qed.

(* what a trace writes: its tokens in order and their comments (line comments trimmed) *)
Theorem C12_render_writes_tokens_and_comments : forall l ps, render_pieces l = Some ps ->
  lex_toks ps = ops_tokens l /\ gap_keys ps = flat_map tok_fmt_keys (ops_tokens l).
Proof. exact render_pieces_eff. Qed.

(* (d) sep_ok is necessary: each of these token lists, glued, violates sep_ok AND re-lexes differently, and with a
   blank between the tokens satisfies sep_ok and re-lexes to itself:  a - - b | ( ' a ' | 1 . | < = | x "1" |
   "a" "b" | : = | * * | / * | ? = | = > | a b | is b | 1 e.   x'('a') needs no separator at all. *)
Example C12_glue_hazard_examples : forallb hazard hazard_examples = true.
Proof. exact glue_hazard_examples. Qed.
Example C12_tick_example : sep_ok (glued tick_example) = true /\ roundtrip_b (glued tick_example) = true.
Proof. exact tick_example_ok. Qed.

(* (e) the code before the repairs violates the round trip (regression statements of F42 and F40) *)
Theorem C12_ext_ident_old_refuted :
  supported_kind ext_tok = true /\ relex_same [ext_tok] (tok_text ext_tok) = true /\
  relex_same [ext_tok] (tok_text_old ext_tok) = false.
Proof. exact ext_ident_old_refuted. Qed.
Theorem C12_push_token_old_refuted :
  (match render_ops_old minus_comment_trace with Some t => relex_same (ops_tokens minus_comment_trace) t | None => true end) = false /\
  (match render_ops minus_comment_trace with Some t => relex_same (ops_tokens minus_comment_trace) t | None => false end) = true /\
  ops_sep_ok minus_comment_trace = true.
Proof. exact push_token_old_refuted. Qed.

(* (f) non-vacuity: a trace over nine tokens (two leading comments, an on-line block comment, a trailing comment,
   an extended identifier with a backslash, a string with a quote, the character ''', an integer) passes the trace
   checker, all tokens are supported, and its rendering re-lexes to the same stream *)
Example C12_example_trace :
  trace_check ex_tokens ex_trace = true /\ forallb supported_kind ex_tokens = true /\
  exists l text, inst_trace ex_tokens ex_trace = Some l /\ render_ops l = Some text /\ relex_same ex_tokens text = true.
Proof. exact example_trace_ok. Qed.

Check C12_render_lex_roundtrip : forall s ts s0 l text,
  lex_all s = Done ts [] -> map fst l = ts -> render s0 l = Some text -> sep_ok_from s0 l = true ->
  exists ts', lex_all text = Done ts' [] /\ same_stream ts ts'.
Check C12_render_lex_roundtrip_partial : forall s0 l text,
  render s0 l = Some text -> sep_ok_from s0 l = true -> forallb supported_kind (map fst l) = true ->
  exists ts', lex_all text = Done ts' [] /\ same_stream (map fst l) ts'.
Check C12_trace_checker_sound : forall ts tr l text,
  trace_check ts tr = true -> inst_trace ts tr = Some l -> render_ops l = Some text ->
  forallb supported_kind ts = true ->
  exists ts', lex_all text = Done ts' [] /\ same_stream ts ts'.
Check C12_lex_pieces : forall ps, pieces_ok None ps = true -> pieces_supported ps = true ->
  exists ts', lex_all (pieces_text ps) = Done ts' [] /\ map tok_kv ts' = map tok_kv (lex_toks ps)
              /\ flat_map tok_keys ts' = attached_keys (S (length ps)) ps.

Print Assumptions C12_lex_pieces.
Print Assumptions C12_render_lex_roundtrip_ops_partial.
Print Assumptions C12_render_lex_roundtrip_partial.
Print Assumptions C12_trace_checker_sound.
Print Assumptions C12_render_lex_roundtrip.
Print Assumptions C12_render_lex_roundtrip_ops.
Print Assumptions C12_trace_checker_sound_full.
Print Assumptions C12_lexer_output_reads_back.
Print Assumptions C12_render_lex_roundtrip_good.
Print Assumptions C12_full_example.
Print Assumptions C12_render_writes_tokens_and_comments.
Print Assumptions C12_glue_hazard_examples.
Print Assumptions C12_tick_example.
Print Assumptions C12_ext_ident_old_refuted.
Print Assumptions C12_push_token_old_refuted.
Print Assumptions C12_example_trace.
