(* Props/C04Sweep.v — larger finite-domain instances of C04 (thorough tier; several minutes of
   vm_compute in Kernel/ConcSweepA.v and Kernel/ConcSweepB.v): every interleaving of 2 workers on
   every request graph without discarded errors with 3 units / lists <= 2 (2197 graphs) and
   4 units / lists <= 1 (625 graphs): no stuck state, one result vector. *)
From Coq Require Import List Arith Bool.
Import ListNotations.
From RH Require Import Kernel.Conc Kernel.ConcSweepA Kernel.ConcSweepB.

Theorem C04_finite_sweep_3_2_2 : forall deps, small_graph 3 2 deps ->
  forall s, reach deps false (init (length deps) 2) s ->
    stuck deps false s = false /\ (final s = true -> locks s = seq_result deps false 200000).
Proof. exact finite_sweep_3_2_2. Qed.

Theorem C04_finite_sweep_4_1_2 : forall deps, small_graph 4 1 deps ->
  forall s, reach deps false (init (length deps) 2) s ->
    stuck deps false s = false /\ (final s = true -> locks s = seq_result deps false 200000).
Proof. exact finite_sweep_4_1_2. Qed.

Print Assumptions C04_finite_sweep_3_2_2.
Print Assumptions C04_finite_sweep_4_1_2.
