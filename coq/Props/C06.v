(* Props/C06.v — DRAFT (completed when Mini/ProofsPhrase.v and Mini/ProofsZap.v are complete). *)
From Coq Require Import List NArith Arith Bool.
Import ListNotations.
From RH Require Import Mini.Syntax Mini.Sem Mini.Gen Mini.Walk Mini.Faults Mini.MiniProofs.
Open Scope N_scope.

Theorem C06_gen_valid : forall choices, Valid (gen_program choices).
Proof. exact gen_valid. Qed.
Print Assumptions C06_gen_valid.
