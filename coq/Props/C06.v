(* Props/C06.v — Seeded semantic faults are reported at the fault site: the theorems about the REFERENCE static
   semantics of the MiniVHDL fragment (Mini/Sem.v).  `blame_program p` is the node and class at which the reference
   rejects p (the first position, in elaboration order, at which no rule applies).  The analyser itself is tied to the
   reference only by the correspondence run of checks/c06.py: the claim is PARTIAL (evidence level `other`).
   Statements only; proofs in Mini/ProofsPhrase*.v, Mini/ProofsZap*.v, Mini/MiniProofs.v. *)
From Coq Require Import List NArith Arith Bool.
Import ListNotations.
From RH Require Import Mini.Syntax Mini.Sem Mini.Gen Mini.Walk Mini.Faults Mini.Rewrites Mini.MiniProofs.
Open Scope N_scope.

(* One fault of the catalogue (any of the 13 classes) planted at an eligible site of a Valid program (with pairwise
   different node ids) makes the program invalid ... *)
Theorem C06_planted_invalid : forall p f st,
  Valid p -> NoDup (nids_program p) -> In st (sites f p) -> ~ Valid (plant st p).
Proof. exact planted_invalid. Qed.

(* ... and localised: the reference blames exactly the node `expect` names — the planted token (for a missing
   association the name of the instantiated unit, for a call that matches no overload the callee, for a
   signal/variable mix-up the target) — with the class of the fault. *)
Theorem C06_blame_is_site : forall p f st,
  Valid p -> NoDup (nids_program p) -> In st (sites f p) ->
  blame_program (plant st p) = Some (expect f st p).
Proof. exact planted_blame. Qed.

(* by kind of plant *)
Theorem C06_zap_blame : forall p s k x c,
  Valid p -> NoDup (nids_program p) -> In (s, k, x) (occs_program p) -> cls_of_okind k = Some c ->
  blame_program (zap s p) = Some (s, c).
Proof. exact zap_blame. Qed.
Theorem C06_dup_blame : forall p s,
  Valid p -> NoDup (nids_program p) -> In s (dup_sites p) ->
  blame_program (dup s p) = Some (s + (max_nid p + 1), Duplicate).
Proof. exact dup_blame. Qed.
Theorem C06_phrase_blame : forall p f st,
  Valid p -> NoDup (nids_program p) -> phrase_class f -> In st (sites f p) ->
  blame_program (plant st p) = Some (expect f st p).
Proof. exact plant_phrase_blame. Qed.

(* Design units that do not contain the plant site are textually unchanged (no plant adds, removes or moves units),
   and all units before the faulty one are accepted in the planted program as they were in the original. *)
Theorem C06_independent_units_unchanged : forall p st,
  (forall k l u, nth_error (flat_units p) k = Some (l, u) -> ~ In (site_nid st) (nids_dunit u) ->
                 nth_error (flat_units (plant st p)) k = Some (l, u)) /\
  (forall k, Valid p ->
     (forall j l u, (j < k)%nat -> nth_error (flat_units p) j = Some (l, u) -> ~ In (site_nid st) (nids_dunit u)) ->
     prefix_ok (plant st p) k).
Proof.
  intros p st. split.
  - intros k l u. exact (plant_other_units_unchanged p st k l u).
  - intros k HV H. exact (plant_prefix_ok p st k HV H).
Qed.

(* the generated programs satisfy the hypotheses (the second one is decided on every generated program by the check) *)
Theorem C06_gen_hyps : forall choices, nodup_nids (gen_program choices) = true ->
  Valid (gen_program choices) /\ NoDup (nids_program (gen_program choices)).
Proof. exact gen_hyps. Qed.

(* zap_blame and dup_blame were false for the first definitions of the reference (a formal associated both positionally
   and by name went unchecked) and of the catalogue (a component with a port named like it): the two counterexamples,
   kept as regressions: the first program is now rejected, the second has no duplicate-declaration site *)
Example C06_old_refuted_regressions :
  check_program zap_cex = Bad 8 Other /\ (check_program dup_cex = Ok tt /\ dup_sites dup_cex = []).
Proof. exact (conj zap_cex_now_rejected dup_cex_no_site). Qed.

(* Non-vacuity: the generated example program (two libraries, overloads) has a plant site of every fault class. *)
Example C06_example :
  let p := example_program in
  valid_b p = true /\ nodup_nids p = true /\
  forallb (fun f => negb (Nat.eqb (length (sites f p)) 0)) all_fclasses = true.
Proof. exact example_C06. Qed.

Check C06_planted_invalid : forall p f st,
  Valid p -> NoDup (nids_program p) -> In st (sites f p) -> ~ Valid (plant st p).
Check C06_blame_is_site : forall p f st,
  Valid p -> NoDup (nids_program p) -> In st (sites f p) -> blame_program (plant st p) = Some (expect f st p).

Print Assumptions C06_planted_invalid.
Print Assumptions C06_blame_is_site.
Print Assumptions C06_zap_blame.
Print Assumptions C06_dup_blame.
Print Assumptions C06_phrase_blame.
Print Assumptions C06_independent_units_unchanged.
Print Assumptions C06_gen_hyps.
Print Assumptions C06_old_refuted_regressions.
Print Assumptions C06_example.
