(* Props/C14.v — Published diagnostics always reflect the current analysis.
   Statements only: each theorem is closed by `exact` of a lemma proved in Lsp/DiagCacheProofs.v,
   pinned by `Check`, and followed by `Print Assumptions`.

   Model: Lsp/DiagCache.v (publish_diagnostics with its cache, diagnostics_by_uri, flatten_related,
   to_lsp_diagnostic, the severity handling of reload_project).  The theorems are universally quantified over
   the abstract parts (atom types with their `==`, Url::from_file_path, the "related: " formatting, the list of
   all error codes, the iteration order of the hash maps) under `params_ok`. *)
From Coq Require Import List Bool NArith Permutation.
Import ListNotations.
From RH Require Import Lsp.DiagCache Lsp.DiagCacheProofs.
Open Scope N_scope.

(* MAIN THEOREM.  For every session history (any interleaving of publishes and severity changes, any analysis
   results), at the quiescent point after a publish: for every file, the client holds exactly the rendering, under
   the currently configured severities, of the server's current diagnostics for that file; a file that currently has
   none has last been sent [] or never anything.  (`run .. = Ok` : the server did not die; see C14_run_total.) *)
Theorem C14_client_view_current :
  forall (uri file code range msg : Type)
         (uri_eqb : uri -> uri -> bool) (file_eqb : file -> file -> bool) (code_eqb : code -> code -> bool)
         (range_eqb : range -> range -> bool) (msg_eqb : msg -> msg -> bool)
         (file_uri : file -> option uri) (related_msg : msg -> msg) (related_code : code) (all_codes : list code)
         (reorder : list (uri * list (@diag file code range msg)) -> list (uri * list (@diag file code range msg))),
    params_ok uri_eqb file_eqb code_eqb range_eqb msg_eqb all_codes reorder ->
    forall st sev0 h raw s cl,
      no_lint st = false ->
      run uri_eqb file_eqb code_eqb range_eqb msg_eqb file_uri related_msg related_code all_codes reorder
          true st (init sev0) (h ++ [Publish raw]) = Ok (s, cl) ->
      forall u, view_ok file_uri (sev s) (cur_of uri_eqb file_uri related_msg related_code st raw u) (cl u).
Proof. exact client_view_current. Qed.

(* The severities used in the statement above are the configured ones: those of the last reload (or the initial ones). *)
Theorem C14_severity_is_configured :
  forall (uri file code range msg : Type)
         (uri_eqb : uri -> uri -> bool) (file_eqb : file -> file -> bool) (code_eqb : code -> code -> bool)
         (range_eqb : range -> range -> bool) (msg_eqb : msg -> msg -> bool)
         (file_uri : file -> option uri) (related_msg : msg -> msg) (related_code : code) (all_codes : list code)
         (reorder : list (uri * list (@diag file code range msg)) -> list (uri * list (@diag file code range msg))),
    forall fixed st sev0 h s cl,
      run uri_eqb file_eqb code_eqb range_eqb msg_eqb file_uri related_msg related_code all_codes reorder
          fixed st (init sev0) h = Ok (s, cl) ->
      sev s = last_severity sev0 h.
Proof. exact severity_is_configured. Qed.

(* The only panic of the modelled region is `Url::from_file_path(..).unwrap()`: when every file name that occurs
   (diagnostic positions and related positions) has a Url, no history kills the server.  (`params_ok` is needed for
   the iteration order only: a `reorder` that invented entries could invent one without a Url.) *)
Theorem C14_run_total :
  forall (uri file code range msg : Type)
         (uri_eqb : uri -> uri -> bool) (file_eqb : file -> file -> bool) (code_eqb : code -> code -> bool)
         (range_eqb : range -> range -> bool) (msg_eqb : msg -> msg -> bool)
         (file_uri : file -> option uri) (related_msg : msg -> msg) (related_code : code) (all_codes : list code)
         (reorder : list (uri * list (@diag file code range msg)) -> list (uri * list (@diag file code range msg))),
    params_ok uri_eqb file_eqb code_eqb range_eqb msg_eqb all_codes reorder ->
    forall fixed st sev0 h,
      (forall e, In e h -> event_files_ok file_uri e) ->
      exists s cl,
        run uri_eqb file_eqb code_eqb range_eqb msg_eqb file_uri related_msg related_code all_codes reorder
            fixed st (init sev0) h = Ok (s, cl).
Proof. exact run_total. Qed.

(* `--no-lint`: publish_diagnostics returns before anything is sent; the client never holds anything. *)
Theorem C14_no_lint_silent :
  forall (uri file code range msg : Type)
         (uri_eqb : uri -> uri -> bool) (file_eqb : file -> file -> bool) (code_eqb : code -> code -> bool)
         (range_eqb : range -> range -> bool) (msg_eqb : msg -> msg -> bool)
         (file_uri : file -> option uri) (related_msg : msg -> msg) (related_code : code) (all_codes : list code)
         (reorder : list (uri * list (@diag file code range msg)) -> list (uri * list (@diag file code range msg))),
    forall fixed st sev0 h,
      no_lint st = true ->
      exists s,
        run uri_eqb file_eqb code_eqb range_eqb msg_eqb file_uri related_msg related_code all_codes reorder
            fixed st (init sev0) h = Ok (s, no_client).
Proof. exact no_lint_silent. Qed.

(* The notification stream computed by `run_trace` (what the correspondence run compares with the wire) is the
   stream whose fold is the client view of `run`. *)
Theorem C14_trace_is_client_view :
  forall (uri file code range msg : Type)
         (uri_eqb : uri -> uri -> bool) (file_eqb : file -> file -> bool) (code_eqb : code -> code -> bool)
         (range_eqb : range -> range -> bool) (msg_eqb : msg -> msg -> bool)
         (file_uri : file -> option uri) (related_msg : msg -> msg) (related_code : code) (all_codes : list code)
         (reorder : list (uri * list (@diag file code range msg)) -> list (uri * list (@diag file code range msg))),
    forall fixed st sev0 h s cl,
      run uri_eqb file_eqb code_eqb range_eqb msg_eqb file_uri related_msg related_code all_codes reorder
          fixed st (init sev0) h = Ok (s, cl) ->
      exists nss,
        run_trace uri_eqb file_eqb code_eqb range_eqb msg_eqb file_uri related_msg related_code all_codes reorder
                  fixed st (mkServer [] sev0) h = map Ok nss /\
        forall u, cl u = deliver_all uri_eqb no_client (concat nss) u.
Proof. exact trace_is_client_view. Qed.

(* One publish sends at most one notification per file (so the order of the notifications of one publish, which
   follows hash-map iteration order, does not matter to the client). *)
Theorem C14_one_notification_per_file :
  forall (uri file code range msg : Type)
         (uri_eqb : uri -> uri -> bool) (file_eqb : file -> file -> bool) (code_eqb : code -> code -> bool)
         (range_eqb : range -> range -> bool) (msg_eqb : msg -> msg -> bool)
         (file_uri : file -> option uri) (related_msg : msg -> msg) (related_code : code) (all_codes : list code)
         (reorder : list (uri * list (@diag file code range msg)) -> list (uri * list (@diag file code range msg))),
    params_ok uri_eqb file_eqb code_eqb range_eqb msg_eqb all_codes reorder ->
    forall fixed st sev0 h ns,
      In (Ok ns)
         (run_trace uri_eqb file_eqb code_eqb range_eqb msg_eqb file_uri related_msg related_code all_codes reorder
                    fixed st (mkServer [] sev0) h) ->
      NoDup (map fst ns).
Proof. exact one_notification_per_file. Qed.

(* The code before commit 9ff857c (finding F6: `reload_project` replaced the severity map and left the cache
   alone) violates the statement: publish, change the severity of a code that occurs, publish the same
   diagnostics -- nothing is sent and the client keeps the old severity. *)
Theorem C14_client_view_old_refuted :
  exists st sev0 h raw u s cl,
    no_lint st = false /\
    NInst.n_run 3 false st (NInst.n_init sev0) (h ++ [Publish raw]) = Ok (s, cl) /\
    ~ NInst.n_view_ok (sev s) (NInst.n_cur_of st raw u) (cl u).
Proof. exact client_view_old_refuted. Qed.

(* A history with a disappearing and re-appearing diagnostic and a severity change (codes: 0 related, 1 syntax
   error, 2 unused; file 7 holds an `unused` diagnostic with a related position in file 8, file 8 a syntax error):
   publish both; file 7 becomes clean ([] is sent); `unused` becomes an error and the diagnostic re-appears
   (sent with severity 1, file 8 is sent again because the cache was cleared); `unused` is hidden (file 7 gets []). *)
Example C14_example_history :
  let st := mkSettings false true in
  let dflt := NInst.table_sev [(0, Some Hint); (2, Some Warning)] (Some Error) in
  let unused_error := NInst.table_sev [(0, Some Hint); (2, Some Error)] (Some Error) in
  let unused_hidden := NInst.table_sev [(0, Some Hint); (2, None)] (Some Error) in
  let d1 : NInst.ndiag := mkDiag 7 100 200 [(8, 101, 201)] 2 in
  let d2 : NInst.ndiag := mkDiag 8 102 202 [] 1 in
  let l1 sv : NInst.nlsp := mkLsp 100 sv 2 200 [(8, 101, 201)] in
  let l2 : NInst.nlsp := mkLsp 102 1 1 202 [] in
  NInst.n_run_trace 3 true st (mkServer [] dflt)
    [Publish [d1; d2]; Publish [d2]; SetSeverity unused_error; Publish [d1; d2]; Publish [d1; d2];
     SetSeverity unused_hidden; Publish [d1; d2]]
  = [Ok [(7, [l1 2]); (8, [l2])]; Ok [(7, [])]; Ok []; Ok [(7, [l1 1]); (8, [l2])]; Ok [];
     Ok []; Ok [(7, []); (8, [l2])]].
Proof. exact example_history. Qed.

(* Non-vacuity of `params_ok` and of the hypotheses of the main theorem: an instance with a three-element code type,
   hash maps iterated in reverse order, a client without related-information support (flatten_related), and a
   history whose run is Ok and whose final client view is the expected non-trivial one. *)
Example C14_hyps_satisfiable :
  let all := [K_related; K_syntax; K_unused] in
  let reorder := @rev (N * list (@diag N code3 N N)) in
  let st := mkSettings false false in
  let dflt : code3 -> option severity := fun c => match c with K_related => Some Hint | K_syntax => Some Error | K_unused => Some Warning end in
  let hidden : code3 -> option severity := fun c => match c with K_related => Some Info | K_syntax => Some Error | K_unused => None end in
  let d1 : @diag N code3 N N := mkDiag 7 100 200 [(8, 101, 201)] K_unused in
  let d2 : @diag N code3 N N := mkDiag 8 102 202 [] K_syntax in
  params_ok N.eqb N.eqb code3_eqb N.eqb N.eqb all reorder /\
  exists s cl,
    run N.eqb N.eqb code3_eqb N.eqb N.eqb NInst.n_file_uri NInst.n_related_msg K_related all reorder
        true st (init dflt) ([Publish [d1; d2]; SetSeverity hidden] ++ [Publish [d1; d2]]) = Ok (s, cl) /\
    cl 7 = Some [] /\
    cl 8 = Some [mkLsp 101 3 K_related 1000201 []; mkLsp 102 1 K_syntax 202 []] /\
    cl 9 = None.
Proof. exact hyps_satisfiable. Qed.

Check C14_client_view_current :
  forall (uri file code range msg : Type)
         (uri_eqb : uri -> uri -> bool) (file_eqb : file -> file -> bool) (code_eqb : code -> code -> bool)
         (range_eqb : range -> range -> bool) (msg_eqb : msg -> msg -> bool)
         (file_uri : file -> option uri) (related_msg : msg -> msg) (related_code : code) (all_codes : list code)
         (reorder : list (uri * list (@diag file code range msg)) -> list (uri * list (@diag file code range msg))),
    params_ok uri_eqb file_eqb code_eqb range_eqb msg_eqb all_codes reorder ->
    forall st sev0 h raw s cl,
      no_lint st = false ->
      run uri_eqb file_eqb code_eqb range_eqb msg_eqb file_uri related_msg related_code all_codes reorder
          true st (init sev0) (h ++ [Publish raw]) = Ok (s, cl) ->
      forall u, view_ok file_uri (sev s) (cur_of uri_eqb file_uri related_msg related_code st raw u) (cl u).
Check C14_run_total :
  forall (uri file code range msg : Type)
         (uri_eqb : uri -> uri -> bool) (file_eqb : file -> file -> bool) (code_eqb : code -> code -> bool)
         (range_eqb : range -> range -> bool) (msg_eqb : msg -> msg -> bool)
         (file_uri : file -> option uri) (related_msg : msg -> msg) (related_code : code) (all_codes : list code)
         (reorder : list (uri * list (@diag file code range msg)) -> list (uri * list (@diag file code range msg))),
    params_ok uri_eqb file_eqb code_eqb range_eqb msg_eqb all_codes reorder ->
    forall fixed st sev0 h,
      (forall e, In e h -> event_files_ok file_uri e) ->
      exists s cl,
        run uri_eqb file_eqb code_eqb range_eqb msg_eqb file_uri related_msg related_code all_codes reorder
            fixed st (init sev0) h = Ok (s, cl).
Check C14_client_view_old_refuted :
  exists st sev0 h raw u s cl,
    no_lint st = false /\
    NInst.n_run 3 false st (NInst.n_init sev0) (h ++ [Publish raw]) = Ok (s, cl) /\
    ~ NInst.n_view_ok (sev s) (NInst.n_cur_of st raw u) (cl u).

Print Assumptions C14_client_view_current.
Print Assumptions C14_severity_is_configured.
Print Assumptions C14_run_total.
Print Assumptions C14_no_lint_silent.
Print Assumptions C14_trace_is_client_view.
Print Assumptions C14_one_notification_per_file.
Print Assumptions C14_client_view_old_refuted.
Print Assumptions C14_example_history.
Print Assumptions C14_hyps_satisfiable.
