(* Props/C10.v — Document synchronisation equals LSP splice semantics.
   Statements only: each theorem is closed by `exact` of a lemma proved in
   Text/ContentsProofs.v, pinned by `Check`, and followed by `Print Assumptions`. *)
From Coq Require Import List NArith Arith Bool.
Import ListNotations.
From RH Require Import Text.Contents Text.Splice Text.ContentsProofs.
From RH Require Import Text.RawClient Text.RawClientProofs.
Open Scope N_scope.

(* The line buffer produced by `Contents::from_str` is canonical. *)
Theorem C10_split_canonical : forall s, canonical (split_lines s).
Proof. exact split_canonical. Qed.

(* One ranged change, any two positions (also outside the text, also inverted): the
   new line buffer is exactly the line split of the plain-string splice. *)
Theorem C10_change_total_spec :
  forall d st en t, canonical d ->
    let s := concat d in
    let a := offset_of s st in
    let b := offset_of s en in
    change d st en t = Some (split_lines (splice s a (Nat.max a b) t)).
Proof. exact change_total_spec. Qed.

(* LSP-well-formed range (start <= end): the plain splice between the two offsets. *)
Theorem C10_change_refines_splice :
  forall d st en t, canonical d -> pos_leb st en = true ->
    let s := concat d in
    change d st en t = Some (split_lines (splice s (offset_of s st) (offset_of s en) t)).
Proof. exact change_refines_splice. Qed.

(* No position makes `change` panic, and canonicity is an invariant. *)
Theorem C10_change_never_crashes :
  forall d st en t, canonical d -> exists d', change d st en t = Some d' /\ canonical d'.
Proof. exact change_never_crashes. Qed.

(* Any finite history of full and ranged changes: the server's text equals the fold of
   (normalised) plain-string splices. *)
Theorem C10_history_refines :
  forall es s0, forallb wf_edit es = true ->
    exists d, apply_edits (split_lines s0) es = Some d
              /\ concat d = spec_edits (normalize s0) es
              /\ canonical d.
Proof. exact history_refines. Qed.

Theorem C10_history_never_crashes :
  forall es s0, exists d, apply_edits (split_lines s0) es = Some d /\ canonical d.
Proof. exact history_never_crashes. Qed.

(* The pre-fix code (commit e84c598) violates the statement: findings F1a-F1d. *)
Theorem C10_change_old_refuted :
  exists d st en t, canonical d /\ pos_leb st en = true /\
    change_old d st en t <>
      Some (split_lines (splice (concat d) (offset_of (concat d) st) (offset_of (concat d) en) t)).
Proof. exact change_old_refuted. Qed.

Theorem C10_change_old_crashes :
  exists d st en t, canonical d /\ pos_leb st en = true /\ change_old d st en t = None.
Proof. exact change_old_crashes. Qed.

(* Non-vacuity: a 3-line CRLF document with a supplementary-plane character is canonical
   after `from_str`, and a multi-line ranged edit on it satisfies the hypotheses. *)
Example C10_hyps_satisfiable :
  let d := split_lines [97; 128512; CR; LF; 98; CR; LF; 99] in
  canonical d /\ length d = 3%nat /\ pos_leb (P 0 1) (P 2 7) = true /\
  change d (P 0 1) (P 2 7) [120; CR; LF; 121] = Some [[97; 120; LF]; [121]].
Proof. exact hyps_satisfiable. Qed.

Check C10_split_canonical : forall s, canonical (split_lines s).
Check C10_change_total_spec :
  forall d st en t, canonical d ->
    let s := concat d in let a := offset_of s st in let b := offset_of s en in
    change d st en t = Some (split_lines (splice s a (Nat.max a b) t)).
Check C10_history_refines :
  forall es s0, forallb wf_edit es = true ->
    exists d, apply_edits (split_lines s0) es = Some d
              /\ concat d = spec_edits (normalize s0) es /\ canonical d.

Print Assumptions C10_split_canonical.
Print Assumptions C10_change_total_spec.
Print Assumptions C10_change_refines_splice.
Print Assumptions C10_change_never_crashes.
Print Assumptions C10_history_refines.
Print Assumptions C10_history_never_crashes.
Print Assumptions C10_change_old_refuted.
Print Assumptions C10_change_old_crashes.

(* ------------------------------------------------------------------------------------ *)
(* The reference is the CLIENT'S OWN RAW TEXT (Text/RawClient.v): lines end at LF, CRLF *)
(* or lone CR, positions are resolved on the raw string, nothing is normalised; proofs   *)
(* in Text/RawClientProofs.v.                                                            *)
(* ------------------------------------------------------------------------------------ *)

(* Normalisation does not change the number of lines. *)
Theorem C10_raw_lines_normalize : forall r, raw_lines (normalize r) = raw_lines r.
Proof. exact raw_lines_normalize. Qed.

(* A position denotes, in the server's normalised text, the image under normalisation of
   the offset it denotes in the client's raw text ... *)
Theorem C10_offset_normalize : forall r p,
  offset_of (normalize r) p = length (normalize (firstn (raw_offset p r) r)).
Proof. exact offset_normalize. Qed.

(* ... cutting the raw text there commutes with normalisation ... *)
Theorem C10_raw_offset_cut : forall r p,
  normalize r = normalize (firstn (raw_offset p r) r) ++ normalize (skipn (raw_offset p r) r).
Proof. exact raw_offset_cut. Qed.

(* ... because no position denotes the offset between the CR and the LF of a CRLF. *)
Theorem C10_raw_offset_never_splits_crlf : forall r p,
  ends_cr (firstn (raw_offset p r) r) && starts_lf (skipn (raw_offset p r) r) = false.
Proof. exact raw_offset_never_splits_crlf. Qed.

(* One ranged change on the client's raw text, any two positions: the normalisation of the
   client's new text is the reference step of C10_history_refines, provided the splice
   neither fuses a kept lone CR with a following LF in the client's text (`fuse_client`)
   nor lets a final CR of the replacement meet a kept CR-initial terminator, which the
   server has stored as LF (`fuse_server`). *)
Theorem C10_raw_step : forall r st en t, no_cr_lf_fusion r st en t = true ->
  normalize (raw_change r st en t) = spec_change (normalize r) st en t.
Proof. exact raw_step. Qed.

(* The side condition is necessary.  Client text "a\rb", insert "\n" at (1,0): the client
   has "a\r\nb" (2 lines), the server's text is "a\n\nb" (3 lines). *)
Theorem C10_raw_step_refuted :
  exists r st en t,
    no_cr_lf_fusion r st en t = false /\
    raw_change r st en t = [97; CR; LF; 98] /\
    raw_lines (raw_change r st en t) = 2%nat /\
    spec_change (normalize r) st en t = [97; LF; LF; 98] /\
    raw_lines (spec_change (normalize r) st en t) = 3%nat /\
    normalize (raw_change r st en t) <> spec_change (normalize r) st en t /\
    change (split_lines r) st en t = Some [[97; LF]; [LF]; [98]].
Proof. exact raw_step_refuted. Qed.

(* The other corner: client "a\rb", insert "\r" at (0,1): client 3 lines, server 2. *)
Theorem C10_raw_step_refuted_server_fusion :
  exists r st en t,
    no_cr_lf_fusion r st en t = false /\
    raw_lines (raw_change r st en t) = 3%nat /\
    raw_lines (spec_change (normalize r) st en t) = 2%nat /\
    change (split_lines r) st en t = Some [[97; LF]; [98]].
Proof. exact raw_step_refuted_server_fusion. Qed.

(* In general: whenever exactly one of the two fusions happens the two texts differ (in
   length).  (When both happen at once, t = LF ... CR between a kept CR and a kept CR, they
   may or may not coincide.) *)
Theorem C10_raw_step_side_condition_needed : forall r st en t,
  xorb (fuse_client r (raw_offset st r) (raw_offset en r) t)
       (fuse_server r (raw_offset en r) t) = true ->
  length (normalize (raw_change r st en t)) <> length (spec_change (normalize r) st en t).
Proof. exact raw_step_side_condition_needed. Qed.

(* Non-vacuity of C10_raw_step: CRLF document with a supplementary-plane character,
   column inside the surrogate pair rounding up, multi-line CRLF replacement. *)
Example C10_raw_step_satisfiable :
  let r := [97; 128512; CR; LF; 98; CR; LF; 99] in
  let t := [120; CR; LF; 121] in
  no_cr_lf_fusion r (P 0 3) (P 2 0) t = true /\
  raw_offset (P 0 3) r = 2%nat /\ raw_offset (P 0 2) r = 2%nat /\ raw_offset (P 2 0) r = 7%nat /\
  raw_change r (P 0 3) (P 2 0) t = [97; 128512; 120; CR; LF; 121; 99] /\
  raw_lines r = 3%nat /\
  change (split_lines r) (P 0 3) (P 2 0) t = Some [[97; 128512; 120; LF]; [121; 99]].
Proof. exact raw_step_satisfiable. Qed.

(* Any raw initial text, any finite history of well-formed full and ranged changes each of
   which satisfies the side condition w.r.t. the client's current raw text: the server's
   text is the normalisation of the client's raw text after the same changes. *)
Theorem C10_raw_history : forall es r0,
  forallb wf_edit es = true -> raw_history_ok r0 es = true ->
  exists d, apply_edits (split_lines r0) es = Some d
            /\ concat d = normalize (raw_edits r0 es)
            /\ canonical d.
Proof. exact raw_history. Qed.

Example C10_raw_history_satisfiable :
  let r0 := [97; 128512; CR; LF; 98; CR; 99; LF] in
  let es := [Ranged (P 0 3) (P 2 0) [120; CR; LF; 121];
             Ranged (P 1 1) (P 9 9) [CR; 122];
             Full [CR; LF; 97; CR];
             Ranged (P 1 1) (P 1 1) [LF]] in
  forallb wf_edit es = true /\ raw_history_ok r0 es = true /\
  raw_edits r0 es = [CR; LF; 97; LF; CR] /\
  apply_edits (split_lines r0) es = Some [[LF]; [97; LF]; [LF]].
Proof. exact raw_history_satisfiable. Qed.

(* Contents::end is the (line, UTF-16 length) of the last line of the text, a final LF
   belonging to that last line. *)
Theorem C10_doc_end_spec : forall d, canonical d -> doc_end d = str_end 0 0 (concat d).
Proof. exact doc_end_spec. Qed.

(* A didChange batch applied change by change = the fold over the concatenated lists. *)
Theorem C10_batch_is_fold : forall es1 es2 d,
  apply_edits d (es1 ++ es2) = obind (apply_edits d es1) (fun d' => apply_edits d' es2).
Proof. exact batch_is_fold. Qed.

Check C10_offset_normalize : forall r p,
  offset_of (normalize r) p = length (normalize (firstn (raw_offset p r) r)).
Check C10_raw_step : forall r st en t, no_cr_lf_fusion r st en t = true ->
  normalize (raw_change r st en t) = spec_change (normalize r) st en t.
Check C10_raw_history : forall es r0,
  forallb wf_edit es = true -> raw_history_ok r0 es = true ->
  exists d, apply_edits (split_lines r0) es = Some d
            /\ concat d = normalize (raw_edits r0 es) /\ canonical d.
Check C10_doc_end_spec : forall d, canonical d -> doc_end d = str_end 0 0 (concat d).

Print Assumptions C10_raw_lines_normalize.
Print Assumptions C10_offset_normalize.
Print Assumptions C10_raw_offset_cut.
Print Assumptions C10_raw_offset_never_splits_crlf.
Print Assumptions C10_raw_step.
Print Assumptions C10_raw_step_refuted.
Print Assumptions C10_raw_step_refuted_server_fusion.
Print Assumptions C10_raw_step_side_condition_needed.
Print Assumptions C10_raw_history.
Print Assumptions C10_doc_end_spec.
Print Assumptions C10_batch_is_fold.
