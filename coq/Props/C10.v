(* Props/C10.v — Document synchronisation equals LSP splice semantics.
   Statements only: each theorem is closed by `exact` of a lemma proved in
   Text/ContentsProofs.v, pinned by `Check`, and followed by `Print Assumptions`. *)
From Coq Require Import List NArith Arith Bool.
Import ListNotations.
From RH Require Import Text.Contents Text.Splice Text.ContentsProofs.
Open Scope N_scope.

(* The line buffer produced by `Contents::from_str` is canonical. *)
Theorem C10_split_canonical : forall s, canonical (split_lines s).
Proof. exact split_canonical. Qed.

(* One ranged change, any two positions (also outside the text, also inverted): the
   new line buffer is exactly the line split of the plain-string splice. *)
Theorem C10_change_total_spec :
  forall d st en t, canonical d ->
    let s := concat d in
    let a := offset_of s st in
    let b := offset_of s en in
    change d st en t = Some (split_lines (splice s a (Nat.max a b) t)).
Proof. exact change_total_spec. Qed.

(* LSP-well-formed range (start <= end): the plain splice between the two offsets. *)
Theorem C10_change_refines_splice :
  forall d st en t, canonical d -> pos_leb st en = true ->
    let s := concat d in
    change d st en t = Some (split_lines (splice s (offset_of s st) (offset_of s en) t)).
Proof. exact change_refines_splice. Qed.

(* No position makes `change` panic, and canonicity is an invariant. *)
Theorem C10_change_never_crashes :
  forall d st en t, canonical d -> exists d', change d st en t = Some d' /\ canonical d'.
Proof. exact change_never_crashes. Qed.

(* Any finite history of full and ranged changes: the server's text equals the fold of
   (normalised) plain-string splices. *)
Theorem C10_history_refines :
  forall es s0, forallb wf_edit es = true ->
    exists d, apply_edits (split_lines s0) es = Some d
              /\ concat d = spec_edits (normalize s0) es
              /\ canonical d.
Proof. exact history_refines. Qed.

Theorem C10_history_never_crashes :
  forall es s0, exists d, apply_edits (split_lines s0) es = Some d /\ canonical d.
Proof. exact history_never_crashes. Qed.

(* The pre-fix code (commit e84c598) violates the statement: findings F1a-F1d. *)
Theorem C10_change_old_refuted :
  exists d st en t, canonical d /\ pos_leb st en = true /\
    change_old d st en t <>
      Some (split_lines (splice (concat d) (offset_of (concat d) st) (offset_of (concat d) en) t)).
Proof. exact change_old_refuted. Qed.

Theorem C10_change_old_crashes :
  exists d st en t, canonical d /\ pos_leb st en = true /\ change_old d st en t = None.
Proof. exact change_old_crashes. Qed.

(* Non-vacuity: a 3-line CRLF document with a supplementary-plane character is canonical
   after `from_str`, and a multi-line ranged edit on it satisfies the hypotheses. *)
Example C10_hyps_satisfiable :
  let d := split_lines [97; 128512; CR; LF; 98; CR; LF; 99] in
  canonical d /\ length d = 3%nat /\ pos_leb (P 0 1) (P 2 7) = true /\
  change d (P 0 1) (P 2 7) [120; CR; LF; 121] = Some [[97; 120; LF]; [121]].
Proof. exact hyps_satisfiable. Qed.

Check C10_split_canonical : forall s, canonical (split_lines s).
Check C10_change_total_spec :
  forall d st en t, canonical d ->
    let s := concat d in let a := offset_of s st in let b := offset_of s en in
    change d st en t = Some (split_lines (splice s a (Nat.max a b) t)).
Check C10_history_refines :
  forall es s0, forallb wf_edit es = true ->
    exists d, apply_edits (split_lines s0) es = Some d
              /\ concat d = spec_edits (normalize s0) es /\ canonical d.

Print Assumptions C10_split_canonical.
Print Assumptions C10_change_total_spec.
Print Assumptions C10_change_refines_splice.
Print Assumptions C10_change_never_crashes.
Print Assumptions C10_history_refines.
Print Assumptions C10_history_never_crashes.
Print Assumptions C10_change_old_refuted.
Print Assumptions C10_change_old_crashes.
