(* Props/C08.v — Definition and reference queries are mutually consistent.
   Statements only: each theorem is closed by `exact` of a lemma proved in Search/SearchProofs.v,
   pinned by `Check`, and followed by `Print Assumptions`.

   Model: Search/Events.v (event trees, entity relations), Search/Searchers.v (ItemAtCursor,
   FindAllReferences, the drivers of analysis/root.rs, wf_forest), Search/WfFast.v (sort-based
   evaluation of wf_forest).  The event forest of a real project is extracted from the implementation
   through the public Searcher API on every run of the check (harness/src/bin/c08), the model is run
   on it (ocaml/c08_run.ml) and compared with Project::item_at_cursor / find_all_references. *)
From Coq Require Import List NArith Bool.
Import ListNotations.
From RH Require Import Search.Events Search.Searchers Search.WfFast Search.Examples Search.SearchProofs.
Open Scope N_scope.

(* ---- entity relations ---- *)
Theorem C08_is_reference_symmetric : forall a b, is_reference a b = is_reference b a.
Proof. exact is_reference_sym. Qed.

(* an entity is always a reference of its declaration (same entity, or DeclaredBy it) *)
Theorem C08_is_reference_declaration : forall e, is_reference (declaration e) e = true.
Proof. exact is_reference_declaration. Qed.

(* ---- the two searchers, characterised by the resolved positions of the forest ---- *)
(* find-all-references never stops early: it returns exactly the reported positions whose target
   `is_reference` of the entity, from every unit of every file *)
Theorem C08_references_characterised : forall f e p,
  In p (find_all_references f e) <-> exists t, In (p, t) (all_leaves f) /\ is_reference e t = true.
Proof. exact find_all_references_spec. Qed.

(* a cursor query answers with a position that some event of a unit of that file reports, and the
   cursor lies inside it (no well-formedness needed) *)
Theorem C08_cursor_result_is_reported : forall f file c p e,
  item_at_cursor f file c = Some (p, e) -> In (p, e) (leaves_of_file f file) /\ inside c p = true.
Proof. exact item_at_cursor_sound. Qed.

(* ---- clause 1: cursor -> references ---- *)
(* holds for every forest, well-formed or not: pruning can only hide positions from the cursor query *)
Theorem C08_cursor_in_references_any : forall f file c p e,
  item_at_cursor f file c = Some (p, e) -> In p (find_all_references f (declaration e)).
Proof. exact cursor_in_references. Qed.

Theorem C08_cursor_in_references : forall f file c p e,
  wf_forest f = true ->
  item_at_cursor f file c = Some (p, e) -> In p (find_all_references f (declaration e)).
Proof. intros f file c p e _. exact (cursor_in_references f file c p e). Qed.

(* ---- clause 2: references -> cursor ---- *)
Theorem C08_references_resolve_back : forall f e p c,
  wf_forest f = true ->
  In p (find_all_references f e) -> strictly_inside c p = true ->
  exists e', item_at_cursor f (sp_file p) c = Some (p, e') /\ is_reference e e' = true.
Proof. exact references_resolve_back. Qed.

(* go-to-definition stays inside the reference class: the entity `find_definition_of` answers is the
   declaration itself or an entity DeclaredBy it (subprogram body, full constant, protected type body) *)
Theorem C08_definition_is_counterpart : forall f d, is_reference d (find_definition_of f d) = true.
Proof. exact find_definition_counterpart. Qed.

(* ---- the run-time checker ---- *)
Theorem C08_wf_forest_fast_sound : forall f, wf_forest_fast f = true -> wf_forest f = true.
Proof. exact wf_forest_fast_sound. Qed.

(* One boolean evaluation on the extracted forest decides both clauses for every file, every cursor
   position (infinitely many) and every entity. *)
Definition checker : forest -> bool := wf_forest_fast.

Theorem C08_checker_sound : forall f, checker f = true ->
  (forall file c p e, item_at_cursor f file c = Some (p, e) ->
                      In p (find_all_references f (declaration e)))
  /\ (forall e p c, In p (find_all_references f e) -> strictly_inside c p = true ->
                    exists e', item_at_cursor f (sp_file p) c = Some (p, e') /\ is_reference e e' = true).
Proof. exact checker_sound. Qed.

(* ---- the hypothesis is needed: a `search_with_pos` span that is too narrow hides a reference ---- *)

Theorem C08_pruning_needs_wf :
  wf_forest ex_narrow = false
  /\ In ex_p1 (find_all_references ex_narrow ex_e1)
  /\ strictly_inside (mkPos 0 6) ex_p1 = true
  /\ item_at_cursor ex_narrow (sp_file ex_p1) (mkPos 0 6) = None.
Proof. exact pruning_needs_wf. Qed.

(* an unresolved user attribute name (`return_if_finished!(search_pos_with_ref(..))`) whose position
   overlaps a guarded reference hides it as well *)
Theorem C08_ref_guard_needs_wf :
  wf_forest ex_refguard = false
  /\ In ex_p1 (find_all_references ex_refguard ex_e1)
  /\ item_at_cursor ex_refguard 0 (mkPos 0 6) = None.
Proof. exact ref_guard_needs_wf. Qed.

(* two different targets reported at one position: the cursor sees only the first *)
Theorem C08_same_target_needed :
  wf_forest ex_clash = false
  /\ In ex_p1 (find_all_references ex_clash ex_e1)
  /\ item_at_cursor ex_clash 0 (mkPos 0 6) = Some (ex_p1, ex_e2)
  /\ is_reference ex_e1 ex_e2 = false.
Proof. exact same_target_needed. Qed.

(* ---- seeded defect: `is_reference` without the DeclaredBy test breaks clause 1 on a well-formed
   forest (subprogram declaration + body) ---- *)

Theorem C08_declared_by_needed :
  wf_forest ex_subprogram = true
  /\ item_at_cursor ex_subprogram 1 (mkPos 3 12) = Some (ex_pb, ex_body)
  /\ ~ In ex_pb (find_all_references_with is_reference_no_declared_by ex_subprogram (declaration ex_body)).
Proof. exact declared_by_needed. Qed.

(* ---- generic package (fix 28f6f63): declaration, body (end designator, use inside the body) and the use
   through a package instance form one reference class; the previous is_reference split it ---- *)
Theorem C08_instance_body_same_set :
  wf_forest ex_generic = true
  /\ find_all_references ex_generic ex_gd = [ex_g_pd; ex_g_pb; ex_g_pe; ex_g_in; ex_g_use]
  /\ find_all_references ex_generic ex_gb = [ex_g_pd; ex_g_pb; ex_g_pe; ex_g_in; ex_g_use]
  /\ find_all_references ex_generic ex_gi = [ex_g_pd; ex_g_pb; ex_g_pe; ex_g_in; ex_g_use]
  /\ is_reference ex_gb ex_gi = true.
Proof. exact instance_body_same_set. Qed.

Theorem C08_is_reference_old_refuted :
  item_at_cursor ex_generic 1 (mkPos 4 31) = Some (ex_g_use, ex_gi)
  /\ In ex_g_use (find_all_references_with is_reference_old ex_generic ex_gd)
  /\ ~ In ex_g_use (find_all_references_with is_reference_old ex_generic ex_gb)
  /\ ~ In ex_g_pb (find_all_references_with is_reference_old ex_generic ex_gi).
Proof. exact is_reference_old_refuted. Qed.

(* ---- non-vacuity: the hypotheses are satisfiable by a forest with declaration, body, end
   identifier, nested search_with_pos and a reference from another file ---- *)
Example C08_example_wf : wf_forest ex_subprogram = true /\ checker ex_subprogram = true.
Proof. exact example_wf. Qed.

Example C08_example_queries :
  find_all_references ex_subprogram ex_decl
    = [ex_pd; ex_pb; ex_pe; mkSrcPos 1 (mkPos 5 11) (mkPos 5 14)]
  /\ item_at_cursor ex_subprogram 1 (mkPos 5 12) = Some (mkSrcPos 1 (mkPos 5 11) (mkPos 5 14), ex_decl)
  /\ item_at_cursor ex_subprogram 1 (mkPos 6 16) = Some (ex_pe, ex_body)
  /\ item_at_cursor ex_subprogram 0 (mkPos 5 12) = None
  /\ find_definition_of ex_subprogram ex_decl = ex_body.
Proof. exact example_queries. Qed.

Check C08_cursor_in_references : forall f file c p e,
  wf_forest f = true ->
  item_at_cursor f file c = Some (p, e) -> In p (find_all_references f (declaration e)).
Check C08_references_resolve_back : forall f e p c,
  wf_forest f = true ->
  In p (find_all_references f e) -> strictly_inside c p = true ->
  exists e', item_at_cursor f (sp_file p) c = Some (p, e') /\ is_reference e e' = true.
Check C08_checker_sound : forall f, checker f = true ->
  (forall file c p e, item_at_cursor f file c = Some (p, e) ->
                      In p (find_all_references f (declaration e)))
  /\ (forall e p c, In p (find_all_references f e) -> strictly_inside c p = true ->
                    exists e', item_at_cursor f (sp_file p) c = Some (p, e') /\ is_reference e e' = true).

Print Assumptions C08_is_reference_symmetric.
Print Assumptions C08_is_reference_declaration.
Print Assumptions C08_references_characterised.
Print Assumptions C08_cursor_result_is_reported.
Print Assumptions C08_cursor_in_references_any.
Print Assumptions C08_cursor_in_references.
Print Assumptions C08_references_resolve_back.
Print Assumptions C08_definition_is_counterpart.
Print Assumptions C08_wf_forest_fast_sound.
Print Assumptions C08_checker_sound.
Print Assumptions C08_pruning_needs_wf.
Print Assumptions C08_ref_guard_needs_wf.
Print Assumptions C08_same_target_needed.
Print Assumptions C08_declared_by_needed.
Print Assumptions C08_instance_body_same_set.
Print Assumptions C08_is_reference_old_refuted.
Print Assumptions C08_example_wf.
Print Assumptions C08_example_queries.
