(* Cst/Rewrite.v — the two tree-rewriting interfaces of vhdl_syntax (definitions only).

   Anchor: /repo/vhdl_syntax/src/syntax/rewrite.rs (Rewriter::rewrite_node_to_green,
   TokenRewriter::rewrite_node_to_green) over the red tree of syntax/node.rs.

   The user closure is `FnMut`: it is a function with an explicit state `St`.  Of a red element the
   closure sees here its offset and its green element (the real `SyntaxElement` also gives access to
   the parent and the sibling index; the theorems quantify over closures that ignore them).
   Every rebuilt node gets a fresh cached length (`GreenNodeData::new` + `push`), i.e. `mk_node`. *)
From Coq Require Import List NArith Arith Bool.
Import ListNotations.
From RH Require Import Lex.SynLexer Cst.Green.
Open Scope N_scope.

(* RewriteAction *)
Inductive action := Leave | Change (g : green) | Remove.

Section Rewriter.
  Variable St : Type.
  Variable act : St -> N -> green -> St * action.

  (* Rewriter::rewrite_node_to_green; a token at the root is not a case of the Rust API (it takes
     a SyntaxNode) and is returned unchanged *)
  Fixpoint rw (st : St) (off : N) (g : green) {struct g} : St * green :=
    match g with
    | GTok t => (st, GTok t)
    | GNode k cs _ =>
      let fix go (st : St) (o : N) (l : list green) (acc : list green) {struct l} : St * list green :=
        match l with
        | [] => (st, acc)
        | c :: r =>
          let '(st1, a) := act st o c in
          match a with
          | Leave =>
            match c with
            | GNode _ _ _ => let '(st2, c') := rw st1 o c in go st2 (o + glen c) r (acc ++ [c'])
            | GTok t => go st1 (o + glen c) r (acc ++ [GTok t])
            end
          | Change g' => go st1 (o + glen c) r (acc ++ [g'])
          | Remove => go st1 (o + glen c) r acc
          end
        end in
      let '(st', cs') := go st off cs [] in (st', mk_node k cs')
    end.
End Rewriter.

(* `root.rewrite(f)` *)
Definition rewrite {St} (act : St -> N -> green -> St * action) (st : St) (root : green) : green :=
  snd (rw St act st 0 root).

(* TokenRewriteAction *)
Inductive taction := Keep | Replace (t : tok).

Section TokenRewriter.
  Variable St : Type.
  Variable enter : St -> N -> green -> St.
  Variable tact : St -> N -> tok -> St * taction.
  Variable exit : St -> N -> green -> St.

  (* what is pushed for `Keep`: the token (after the repair of F11) / nothing (before) *)
  Variable keep_pushes : bool.

  Fixpoint trw (st : St) (off : N) (g : green) {struct g} : St * green :=
    match g with
    | GTok t => (st, GTok t)
    | GNode k cs _ =>
      let fix go (st : St) (o : N) (l : list green) (acc : list green) {struct l} : St * list green :=
        match l with
        | [] => (st, acc)
        | c :: r =>
          match c with
          | GNode _ _ _ => let '(st1, c') := trw st o c in go st1 (o + glen c) r (acc ++ [c'])
          | GTok t =>
            let '(st1, a) := tact st o t in
            match a with
            | Keep => go st1 (o + glen c) r (if keep_pushes then acc ++ [GTok t] else acc)
            | Replace t' => go st1 (o + glen c) r (acc ++ [GTok t'])
            end
          end
        end in
      let '(st', cs') := go (enter st off g) off cs [] in (exit st' off g, mk_node k cs')
    end.
End TokenRewriter.

(* `TokenRewriter::new(r).rewrite(root)` of the current code, and of the code before b29a1c7 *)
Definition token_rewrite {St} enter tact exit (st : St) (root : green) : green :=
  snd (trw St enter tact exit true st 0 root).
Definition token_rewrite_old {St} enter tact exit (st : St) (root : green) : green :=
  snd (trw St enter tact exit false st 0 root).

(* ---- the closures used by the statements ---- *)
Definition leave_all : unit -> N -> green -> unit * action := fun st _ _ => (st, Leave).
Definition no_hook : unit -> N -> green -> unit := fun st _ _ => st.
Definition keep_all : unit -> N -> tok -> unit * taction := fun st _ _ => (st, Keep).

(* a counting closure: replace the i-th token (in textual order) by t' *)
Definition nat_hook : nat -> N -> green -> nat := fun st _ _ => st.
Definition replace_nth_t (i : nat) (t' : tok) : nat -> N -> tok -> nat * taction :=
  fun n _ _ => (S n, if (n =? i)%nat then Replace t' else Keep).
Definition replace_nth_e (i : nat) (t' : tok) : nat -> N -> green -> nat * action :=
  fun n _ c => match c with
               | GTok _ => (S n, if (n =? i)%nat then Change (GTok t') else Leave)
               | GNode _ _ _ => (n, Leave)
               end.

(* SyntaxToken::clone_with_text: same kind, same leading trivia, new text *)
Definition clone_with_text (t : tok) (text : list byte) : tok := mkTok (t_kind t) text (t_trivia t).

(* SyntaxToken::clone_with_leading_trivia: same kind, same text, new leading trivia *)
Definition clone_with_leading_trivia (t : tok) (tr : list tpiece) : tok := mkTok (t_kind t) (t_text t) tr.

(* Token::set_leading_trivia (the only public mutator of a Token): kind and text stay, the trivia are replaced.
   Token::byte_len is `leading_trivia.byte_len() + text_len()`, computed from the pieces on every call: in the
   model a token has no cached length at all (`tok_len` is a function), so the length follows the new trivia.
   The generated builders' `with_<token>_trivia` setters and the builder domain types' `with_trivia` are exactly
   this call on an already constructed token. *)
Definition set_leading_trivia (t : tok) (tr : list tpiece) : tok := mkTok (t_kind t) (t_text t) tr.

(* SyntaxToken::clone_with_token: the replacement red token carries the given token as it is *)
Definition clone_with_token (_old : tok) (t : tok) : tok := t.
