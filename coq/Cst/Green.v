(* Cst/Green.v — green trees of crate vhdl_syntax (definitions only).

   Anchors: /repo/vhdl_syntax/src/syntax/green.rs (GreenToken, GreenNode, GreenNodeData::{new, push,
   push_children, byte_len}, GreenNode::write_to, Child::byte_len) and syntax/node.rs
   (SyntaxNode::children_with_tokens: red offsets are running sums of the children's cached lengths).

   A green node caches the byte length of its text (`byte_len`); the cache is a separate field here,
   so "the cache is right" (`len_ok`) is a statement and not true by construction. *)
From Coq Require Import List NArith Arith Bool.
Import ListNotations.
From RH Require Import Lex.SynLexer.
Open Scope N_scope.

(* NodeKind: a fieldless enum; only its identity matters *)
Definition nkind := N.

Inductive green :=
| GTok (t : tok)
| GNode (k : nkind) (cs : list green) (len : N).

(* Child::byte_len: the token's length resp. the node's cached length *)
Definition glen (g : green) : N :=
  match g with GTok t => tok_len t | GNode _ _ l => l end.

(* GreenNode::write_to *)
Fixpoint bytes_of (g : green) : list byte :=
  match g with
  | GTok t => token_bytes t
  | GNode _ cs _ => concat (map bytes_of cs)
  end.

(* GreenNodeData::new + push_children: byte_len starts at 0 and grows by each child's byte_len *)
Definition sum_len (cs : list green) : N := fold_left (fun acc c => acc + glen c) cs 0.
Definition mk_node (k : nkind) (cs : list green) : green := GNode k cs (sum_len cs).

(* every cached length equals the sum of the children's lengths *)
Fixpoint len_ok (g : green) : bool :=
  match g with
  | GTok _ => true
  | GNode _ cs l => (l =? sum_len cs) && forallb len_ok cs
  end.

(* the tokens of the tree in textual order *)
Fixpoint leaves (g : green) : list tok :=
  match g with
  | GTok t => [t]
  | GNode _ cs _ => concat (map leaves cs)
  end.

(* ---- red layer: offsets (syntax/node.rs) ---- *)

(* children_with_tokens of a node at offset `off`: child_offset = parent_offset + run *)
Fixpoint red_children (off : N) (cs : list green) : list (N * green) :=
  match cs with
  | [] => []
  | c :: r => (off, c) :: red_children (off + glen c) r
  end.

(* every element of the red tree in pre-order, with its offset *)
Fixpoint red_walk (off : N) (g : green) : list (N * green) :=
  (off, g) ::
  match g with
  | GTok _ => []
  | GNode _ cs _ =>
    (fix go (o : N) (l : list green) : list (N * green) :=
       match l with
       | [] => []
       | c :: r => red_walk o c ++ go (o + glen c) r
       end) off cs
  end.

(* the tokens of the red tree with their offsets (SyntaxToken::offset) *)
Fixpoint leaf_offsets (off : N) (g : green) : list (N * tok) :=
  match g with
  | GTok t => [(off, t)]
  | GNode _ cs _ =>
    (fix go (o : N) (l : list green) : list (N * tok) :=
       match l with
       | [] => []
       | c :: r => leaf_offsets o c ++ go (o + glen c) r
       end) off cs
  end.

(* prefix sums of token lengths: where the tokens start in the printed text *)
Fixpoint scan_offsets (off : N) (ts : list tok) : list (N * tok) :=
  match ts with
  | [] => []
  | t :: r => (off, t) :: scan_offsets (off + tok_len t) r
  end.

(* `ranges` (offset, length) are adjacent and cover exactly [lo, hi) *)
Fixpoint tiles (lo hi : N) (ranges : list (N * N)) : Prop :=
  match ranges with
  | [] => lo = hi
  | (o, l) :: r => o = lo /\ tiles (lo + l) hi r
  end.

Definition slice (off len : N) (bs : list byte) : list byte :=
  firstn (N.to_nat len) (skipn (N.to_nat off) bs).
