(* Cst/Builder.v — the NodeBuilder of the vhdl_syntax parser as a stack machine, and the parser
   utilities that feed it (definitions only).

   Anchors: /repo/vhdl_syntax/src/parser/builder.rs (push, start_node, end_node, end, checkpoint,
   start_node_at, current_pos, push_node, current_token_index), parser/util.rs (skip, expect_token,
   opt_token, opt_tokens: each pops the next token of the stream, records its lexer error at
   `builder.current_pos()` and pushes the token), parser/error.rs (SyntaxErr::from_lex_err),
   parser/error_recovery.rs (expect_tokens_recover), parser/util.rs check_nesting_depth /
   push_deferred_tokens (commit d10aa14: bail-out on more than MAX_OPEN_NODES open nodes; these three are
   the only producers of errors).

   Panics are explicit: `parents.pop().unwrap()` on an empty stack, `children.drain(first_child..)`
   with `first_child > len`, the two asserts of start_node_at, the assert and the `panic!()` of `end`,
   the slice indexing `trivia[..index]` / `trivia[index]` of from_lex_err, and the debug_assert of
   expect_tokens_recover are `BCrash` / `None` / `PCrash`. *)
From Coq Require Import List NArith Arith Bool.
Import ListNotations.
From RH Require Import Lex.SynLexer Cst.Green.
Open Scope N_scope.

Record bstate := mkB {
  b_text_len : N;                    (* text_len                                   *)
  b_token_index : N;                 (* token_index                                *)
  b_parents : list (nkind * nat);    (* parents, head = last pushed                *)
  b_children : list green            (* children, in order (Vec::push = append)    *)
}.

Definition b_init : bstate := mkB 0 0 [] [].

Inductive bres := BOk (s : bstate) | BCrash.

Definition b_push (t : tok) (s : bstate) : bres :=
  BOk (mkB (b_text_len s + tok_len t) (b_token_index s + 1) (b_parents s) (b_children s ++ [GTok t])).

Definition b_start_node (k : nkind) (s : bstate) : bres :=
  BOk (mkB (b_text_len s) (b_token_index s) ((k, length (b_children s)) :: b_parents s) (b_children s)).

Definition b_end_node (s : bstate) : bres :=
  match b_parents s with
  | [] => BCrash                                              (* parents.pop().unwrap() *)
  | (k, first_child) :: ps =>
    if (length (b_children s) <? first_child)%nat then BCrash  (* drain(first_child..) out of range *)
    else
      let kids := skipn first_child (b_children s) in
      let keep := firstn first_child (b_children s) in
      match kids with
      | [] => BOk (mkB (b_text_len s) (b_token_index s) ps keep)          (* empty node elided *)
      | _ :: _ => BOk (mkB (b_text_len s) (b_token_index s) ps (keep ++ [mk_node k kids]))
      end
  end.

Definition b_checkpoint (s : bstate) : nat := length (b_children s).

Definition b_start_node_at (cp : nat) (k : nkind) (s : bstate) : bres :=
  if (length (b_children s) <? cp)%nat then BCrash            (* assert!(checkpoint <= children.len()) *)
  else
    match b_parents s with
    | (_, first_child) :: _ =>
      if (cp <? first_child)%nat then BCrash                   (* assert!(checkpoint >= first_child) *)
      else BOk (mkB (b_text_len s) (b_token_index s) ((k, cp) :: b_parents s) (b_children s))
    | [] => BOk (mkB (b_text_len s) (b_token_index s) ((k, cp) :: b_parents s) (b_children s))
    end.

Definition b_push_node (g : green) (s : bstate) : bres :=
  BOk (mkB (b_text_len s + glen g) (b_token_index s) (b_parents s) (b_children s ++ [g])).

(* end: assert_eq!(children.len(), 1); a token as the only child is `panic!()` *)
Definition b_end (s : bstate) : option green :=
  match b_children s with
  | [GNode k cs l] => Some (GNode k cs l)
  | _ => None
  end.

Inductive bop :=
| OPush (t : tok) | OStart (k : nkind) | OEnd | OStartAt (cp : nat) (k : nkind) | OPushNode (g : green).

Definition b_step (o : bop) (s : bstate) : bres :=
  match o with
  | OPush t => b_push t s
  | OStart k => b_start_node k s
  | OEnd => b_end_node s
  | OStartAt cp k => b_start_node_at cp k s
  | OPushNode g => b_push_node g s
  end.

Fixpoint b_run (ops : list bop) (s : bstate) : bres :=
  match ops with
  | [] => BOk s
  | o :: r => match b_step o s with BOk s' => b_run r s' | BCrash => BCrash end
  end.

(* a whole builder program: run from `NodeBuilder::new()`, then `end()`; None = some panic *)
Definition build (ops : list bop) : option green :=
  match b_run ops b_init with BOk s => b_end s | BCrash => None end.

(* what the program pushed, in order *)
Definition op_bytes (o : bop) : list byte :=
  match o with OPush t => token_bytes t | OPushNode g => bytes_of g | _ => [] end.
Definition op_leaves (o : bop) : list tok :=
  match o with OPush t => [t] | OPushNode g => leaves g | _ => [] end.
Definition pushed_bytes (ops : list bop) : list byte := concat (map op_bytes ops).
Definition pushed_leaves (ops : list bop) : list tok := concat (map op_leaves ops).
Definition op_ok (o : bop) : bool := match o with OPushNode g => len_ok g | _ => true end.

(* ------------------------------------------------------------------------------------------ *)
(* Parser utilities: token stream -> builder + errors                                          *)
(* ------------------------------------------------------------------------------------------ *)

(* SyntaxErr::from_lex_err: span (start, end) of a lexer error of token `t` pushed at `start` *)
Definition lex_err_span (e : lexerr) (t : tok) (start : N) : option (N * N) :=
  match snd e with
  | PToken =>
    let s := start + trivia_len (t_trivia t) in Some (s, s + text_len t)
  | PTrivia i =>
    match nth_error (t_trivia t) i with
    | Some p => let s := start + trivia_len (firstn i (t_trivia t)) in Some (s, s + piece_len p)
    | None => None                                           (* trivia[index] out of range *)
    end
  end.

Record pstate := mkP {
  p_stream : list ltok;              (* token_stream (a queue)                     *)
  p_builder : bstate;
  p_errors : list (N * N);           (* spans of `errors`, in order                *)
  p_deferred : option (list ltok)    (* deferred_tokens (commit d10aa14)           *)
}.

Inductive pres := POk (s : pstate) | PCrash.

(* skip() / a successful expect_token, opt_token, opt_tokens: on an empty stream nothing happens *)
Definition p_take (s : pstate) : pres :=
  match p_stream s with
  | [] => POk s
  | (t, e) :: rest =>
    let start := b_text_len (p_builder s) in
    let errs :=
      match e with
      | None => Some (p_errors s)
      | Some le => match lex_err_span le t start with
                   | Some sp => Some (p_errors s ++ [sp])
                   | None => None
                   end
      end in
    match errs, b_push t (p_builder s) with
    | Some es, BOk b' => POk (mkP rest b' es (p_deferred s))
    | _, _ => PCrash
    end
  end.

Fixpoint p_take_n (n : nat) (s : pstate) : pres :=
  match n with
  | O => POk s
  | S k => match p_take s with POk s' => p_take_n k s' | PCrash => PCrash end
  end.

Definition peek_is_eof (s : pstate) : bool :=
  match p_stream s with
  | [] => true                                    (* peek_token() = Eof on an exhausted stream *)
  | (t, _) :: _ => match t_kind t with KEof => true | _ => false end
  end.

(* expect_tokens_recover: `n` = how many tokens its loop skips before it returns (decided by the
   recovery sets, abstract here), `hit_expected` = it returned through the `expected.contains(tok)`
   branch.  (In the code skipping stops at Eof at the latest; the model allows any `n`.) *)
Definition p_recover (n : nat) (hit_expected : bool) (s : pstate) : pres :=
  let start := b_text_len (p_builder s) in
  if peek_is_eof s then POk (mkP (p_stream s) (p_builder s) (p_errors s ++ [(start, start)]) (p_deferred s))
  else
    let itl := match p_stream s with (t, _) :: _ => trivia_len (t_trivia t) | [] => 0 end in
    match n with
    | O => if hit_expected then PCrash            (* debug_assert!: only called on an error path *)
           else POk (mkP (p_stream s) (p_builder s) (p_errors s ++ [(start, start)]) (p_deferred s))
    | S _ =>
      match p_take_n n s with
      | POk s' => POk (mkP (p_stream s') (p_builder s')
                           (p_errors s' ++ [(start + itl, b_text_len (p_builder s'))]) (p_deferred s'))
      | PCrash => PCrash
      end
    end.

Inductive pop :=
| PStart (k : nkind) | PEnd | PStartAt (cp : nat) (k : nkind)     (* start_node, end_node, start_node_at *)
| PTake                                                           (* skip, expect/opt success *)
| PRecover (n : nat) (hit_expected : bool).                       (* expect_tokens_recover *)

Definition lift_b (r : bres) (s : pstate) : pres :=
  match r with BOk b => POk (mkP (p_stream s) b (p_errors s) (p_deferred s)) | BCrash => PCrash end.

(* `recovery.depth()`: the parser pushes/pops its recovery stack together with the builder's
   `parents` (start_node, start_node_at, end_node), so it is the number of open nodes *)
Definition p_depth (s : pstate) : nat := length (b_parents (p_builder s)).

(* check_nesting_depth (after start_node / start_node_at): with more than MAX_OPEN_NODES (= `max_open`,
   1024 in the code) open nodes and input left, the next token is reported as unexpected and the rest
   of the input is set aside: every production then sees Eof and returns *)
Definition check_depth (max_open : nat) (s : pstate) : pstate :=
  if (p_depth s <=? max_open)%nat || peek_is_eof s then s
  else
    let errs :=
      match p_stream s with
      | (t, _) :: _ =>
        let start := b_text_len (p_builder s) + trivia_len (t_trivia t) in
        p_errors s ++ [(start, start + text_len t)]
      | [] => p_errors s
      end in
    mkP [] (p_builder s) errs (Some (p_stream s)).

(* push_deferred_tokens (in end_node, when the root is being closed): the tokens that were set aside
   replace the (exhausted) stream and are all pushed, `while has_next { skip() }` *)
Definition push_deferred (s : pstate) : pres :=
  match p_deferred s with
  | None => POk s
  | Some rest => p_take_n (length rest) (mkP rest (p_builder s) (p_errors s) None)
  end.

Definition p_start (max_open : nat) (r : bres) (s : pstate) : pres :=
  match lift_b r s with POk s' => POk (check_depth max_open s') | PCrash => PCrash end.

Definition p_end_node (s : pstate) : pres :=
  match (if (p_depth s =? 1)%nat then push_deferred s else POk s) with
  | POk s' => lift_b (b_end_node (p_builder s')) s'
  | PCrash => PCrash
  end.

Definition p_step (max_open : nat) (o : pop) (s : pstate) : pres :=
  match o with
  | PStart k => p_start max_open (b_start_node k (p_builder s)) s
  | PEnd => p_end_node s
  | PStartAt cp k => p_start max_open (b_start_node_at cp k (p_builder s)) s
  | PTake => p_take s
  | PRecover n h => p_recover n h s
  end.

Fixpoint p_run (max_open : nat) (ops : list pop) (s : pstate) : pres :=
  match ops with
  | [] => POk s
  | o :: r => match p_step max_open o s with POk s' => p_run max_open r s' | PCrash => PCrash end
  end.

Definition p_init (ts : list ltok) : pstate := mkP ts b_init [] None.

Definition deferred_list (d : option (list ltok)) : list ltok := match d with Some l => l | None => [] end.

(* `parse`: run the productions (an arbitrary program over the utilities), then `end()`.
   Result: root, error spans, unconsumed stream, tokens still set aside. *)
Definition parse_with (max_open : nat) (ops : list pop) (ts : list ltok)
  : option (green * list (N * N) * list ltok * option (list ltok)) :=
  match p_run max_open ops (p_init ts) with
  | POk s => match b_end (p_builder s) with
             | Some root => Some (root, p_errors s, p_stream s, p_deferred s)
             | None => None
             end
  | PCrash => None
  end.

(* ------------------------------------------------------------------------------------------ *)
(* Finding F25.  Builds without debug assertions (`cargo build --release`) compile the           *)
(* debug_assert of expect_tokens_recover out: when a production calls it although the next      *)
(* token is in the expected set (productions/concurrent_statement.rs did so until 22440b9 for a label that   *)
(* is not followed by a statement), the loop returns in its first iteration through the         *)
(* `expected.contains(&tok)` branch and records the span `start + initial_trivia_len .. start`.  *)
(* ------------------------------------------------------------------------------------------ *)
Definition p_recover_noassert (n : nat) (hit_expected : bool) (s : pstate) : pres :=
  match n, hit_expected, peek_is_eof s with
  | O, true, false =>
    let start := b_text_len (p_builder s) in
    let itl := match p_stream s with (t, _) :: _ => trivia_len (t_trivia t) | [] => 0 end in
    POk (mkP (p_stream s) (p_builder s) (p_errors s ++ [(start + itl, start)]) (p_deferred s))
  | _, _, _ => p_recover n hit_expected s
  end.
