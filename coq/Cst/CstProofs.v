(* Cst/CstProofs.v — proofs about the green trees, the NodeBuilder stack machine, the parser utilities,
   the red offsets and the two rewriters of crate vhdl_syntax (models: Cst/Green.v, Cst/Builder.v,
   Cst/Rewrite.v; tokens: Lex/SynLexer.v).  Used by Props/C17.v. *)
From Coq Require Import List NArith Arith Bool Lia.
Import ListNotations.
From RH Require Import Lex.SynLexer Lex.SynLexerLen Cst.Green Cst.Builder Cst.Rewrite.
Open Scope N_scope.
#[local] Arguments N.add : simpl never.
#[local] Arguments N.sub : simpl never.
#[local] Arguments N.mul : simpl never.
#[local] Arguments N.eqb : simpl never.
#[local] Arguments N.leb : simpl never.
#[local] Arguments N.ltb : simpl never.
Notation printed ts := (concat (map (fun x : ltok => token_bytes (fst x)) ts)).

(* ---------------------------------------------------------------------------------------------- *)
(* Green trees                                                                                    *)
(* ---------------------------------------------------------------------------------------------- *)

Lemma green_ind' (P : green -> Prop) :
  (forall t, P (GTok t)) ->
  (forall k cs l, Forall P cs -> P (GNode k cs l)) ->
  forall g, P g.
Proof.
  intros Ht Hn. fix IH 1. intros [t|k cs l]; [apply Ht|].
  apply Hn. revert cs. fix IHcs 1. intros [|c cs]; constructor; [apply IH | apply IHcs].
Qed.

Lemma fold_glen_shift (cs : list green) (a : N) :
  fold_left (fun acc c => acc + glen c) cs a = a + fold_left (fun acc c => acc + glen c) cs 0.
Proof.
  revert a; induction cs as [|c cs IH]; intros a; cbn [fold_left]; [lia|].
  rewrite IH, (IH (0 + glen c)). lia.
Qed.

Lemma sum_len_nil : sum_len [] = 0.
Proof. reflexivity. Qed.

Lemma sum_len_cons c cs : sum_len (c :: cs) = glen c + sum_len cs.
Proof. unfold sum_len; cbn [fold_left]. rewrite fold_glen_shift. lia. Qed.

Lemma sum_len_app a b : sum_len (a ++ b) = sum_len a + sum_len b.
Proof.
  induction a as [|c a IH]; [rewrite sum_len_nil; cbn [app]; lia|].
  cbn [app]. rewrite !sum_len_cons, IH. lia.
Qed.

Lemma bytes_leaves g : bytes_of g = concat (map token_bytes (leaves g)).
Proof.
  induction g as [t|k cs l IH] using green_ind'.
  - cbn [bytes_of leaves map concat]. now rewrite app_nil_r.
  - cbn [bytes_of leaves]. induction IH as [|c cs Hc Hcs IH]; [reflexivity|].
    cbn [map concat]. rewrite map_app, concat_app, <- Hc, <- IH. reflexivity.
Qed.

Lemma sum_len_bytes_F cs :
  Forall (fun c => len_ok c = true -> glen c = N.of_nat (length (bytes_of c))) cs ->
  forallb len_ok cs = true -> sum_len cs = N.of_nat (length (concat (map bytes_of cs))).
Proof.
  induction 1 as [|c cs Hc _ IH]; intros Hok; [reflexivity|].
  cbn [forallb] in Hok. apply andb_true_iff in Hok as [H1 H2].
  rewrite sum_len_cons. cbn [map concat]. rewrite app_length, Hc, IH by assumption.
  unfold byte in *. lia.
Qed.

Lemma glen_bytes g : len_ok g = true -> glen g = N.of_nat (length (bytes_of g)).
Proof.
  induction g as [t|k cs l IH] using green_ind'; intros Hok.
  - apply tok_len_bytes.
  - cbn [len_ok] in Hok. apply andb_true_iff in Hok as [H1 H2]. apply N.eqb_eq in H1.
    cbn [glen bytes_of]. subst l. now apply sum_len_bytes_F.
Qed.

Lemma sum_len_bytes cs :
  forallb len_ok cs = true -> sum_len cs = N.of_nat (length (concat (map bytes_of cs))).
Proof. apply sum_len_bytes_F. apply Forall_forall. intros c _. apply glen_bytes. Qed.

Lemma len_ok_node k cs l : len_ok (GNode k cs l) = true -> l = sum_len cs /\ forallb len_ok cs = true.
Proof.
  cbn [len_ok]. intros H. apply andb_true_iff in H as [H1 H2]. apply N.eqb_eq in H1. now split.
Qed.

Lemma len_ok_mk_node k cs : forallb len_ok cs = true -> len_ok (mk_node k cs) = true.
Proof. intros H. unfold mk_node. cbn [len_ok]. rewrite N.eqb_refl, H. reflexivity. Qed.

(* ---------------------------------------------------------------------------------------------- *)
(* Builder                                                                                        *)
(* ---------------------------------------------------------------------------------------------- *)

Definition inv (s : bstate) (bs : list byte) (ls : list tok) : Prop :=
  concat (map bytes_of (b_children s)) = bs /\
  concat (map leaves (b_children s)) = ls /\
  forallb len_ok (b_children s) = true /\
  b_text_len s = N.of_nat (length bs).

Lemma wrap_bytes k fc C :
  concat (map bytes_of (firstn fc C ++ [mk_node k (skipn fc C)])) = concat (map bytes_of C).
Proof.
  rewrite map_app, concat_app. cbn [map concat mk_node bytes_of].
  rewrite app_nil_r, <- concat_app, <- map_app, firstn_skipn. reflexivity.
Qed.

Lemma wrap_leaves k fc C :
  concat (map leaves (firstn fc C ++ [mk_node k (skipn fc C)])) = concat (map leaves C).
Proof.
  rewrite map_app, concat_app. cbn [map concat mk_node leaves].
  rewrite app_nil_r, <- concat_app, <- map_app, firstn_skipn. reflexivity.
Qed.

Lemma wrap_ok k fc C :
  forallb len_ok C = true -> forallb len_ok (firstn fc C ++ [mk_node k (skipn fc C)]) = true.
Proof.
  intros H. assert (H' := H). rewrite <- (firstn_skipn fc C), forallb_app in H'.
  apply andb_true_iff in H' as [H1 H2].
  rewrite forallb_app, H1. cbn [forallb andb]. rewrite len_ok_mk_node by exact H2. reflexivity.
Qed.

Lemma b_step_inv o s s' bs ls :
  op_ok o = true -> b_step o s = BOk s' -> inv s bs ls ->
  inv s' (bs ++ op_bytes o) (ls ++ op_leaves o).
Proof.
  intros Hok Hs (Hb & Hl & Hk & Ht).
  destruct o as [t|k| |cp k|g]; cbn [b_step op_bytes op_leaves op_ok] in *.
  - unfold b_push in Hs. injection Hs as <-. unfold inv; cbn [b_children b_text_len].
    rewrite !map_app, !concat_app, forallb_app, Hb, Hl, Hk, Ht.
    cbn [map concat forallb bytes_of leaves len_ok andb].
    rewrite !app_nil_r, app_length, tok_len_bytes.
    split; [reflexivity|split; [reflexivity|split; [reflexivity|unfold byte in *; lia]]].
  - unfold b_start_node in Hs. injection Hs as <-. unfold inv; cbn [b_children b_text_len].
    rewrite !app_nil_r. auto.
  - unfold b_end_node in Hs. destruct (b_parents s) as [|[k fc] ps]; [discriminate|].
    destruct (length (b_children s) <? fc)%nat; [discriminate|].
    destruct (skipn fc (b_children s)) as [|x xs] eqn:E.
    + injection Hs as <-. unfold inv; cbn [b_children b_text_len]. rewrite !app_nil_r.
      assert (H : firstn fc (b_children s) = b_children s).
      { rewrite <- (firstn_skipn fc (b_children s)) at 2. rewrite E, app_nil_r. reflexivity. }
      rewrite H. auto.
    + injection Hs as <-. rewrite <- E. unfold inv; cbn [b_children b_text_len].
      rewrite wrap_bytes, wrap_leaves, wrap_ok, !app_nil_r by exact Hk. auto.
  - unfold b_start_node_at in Hs. destruct (length (b_children s) <? cp)%nat; [discriminate|].
    destruct (b_parents s) as [|[k0 fc] ps]; [|destruct (cp <? fc)%nat; [discriminate|]];
      injection Hs as <-; unfold inv; cbn [b_children b_text_len]; rewrite !app_nil_r; auto.
  - unfold b_push_node in Hs. injection Hs as <-. unfold inv; cbn [b_children b_text_len].
    rewrite !map_app, !concat_app, forallb_app, Hb, Hl, Hk, Ht.
    cbn [map concat forallb andb].
    rewrite !app_nil_r, app_length, Hok, (glen_bytes g Hok).
    split; [reflexivity|split; [reflexivity|split; [reflexivity|unfold byte in *; lia]]].
Qed.

Lemma b_run_inv ops : forall s s' bs ls,
  forallb op_ok ops = true -> b_run ops s = BOk s' -> inv s bs ls ->
  inv s' (bs ++ pushed_bytes ops) (ls ++ pushed_leaves ops).
Proof.
  induction ops as [|o ops IH]; intros s s' bs ls Hok Hr Hi.
  - cbn [b_run] in Hr. injection Hr as <-. unfold pushed_bytes, pushed_leaves; cbn [map concat].
    rewrite !app_nil_r. exact Hi.
  - cbn [forallb] in Hok. apply andb_true_iff in Hok as [H1 H2]. cbn [b_run] in Hr.
    destruct (b_step o s) as [s1|] eqn:E; [|discriminate].
    pose proof (b_step_inv _ _ _ _ _ H1 E Hi) as Hi1.
    pose proof (IH _ _ _ _ H2 Hr Hi1) as Hi2.
    unfold pushed_bytes, pushed_leaves in *. cbn [map concat]. rewrite !app_assoc. exact Hi2.
Qed.

Lemma inv_init : inv b_init [] [].
Proof. unfold inv, b_init; cbn. auto. Qed.

Lemma b_end_some s root : b_end s = Some root -> b_children s = [root].
Proof.
  unfold b_end. destruct (b_children s) as [|[t|k cs l] [|? ?]]; try discriminate.
  intros H; injection H as <-. reflexivity.
Qed.

Lemma builder_current_pos :
  forall ops s, forallb op_ok ops = true -> b_run ops b_init = BOk s ->
    b_text_len s = N.of_nat (length (pushed_bytes ops)).
Proof.
  intros ops s Hok Hr. pose proof (b_run_inv _ _ _ _ _ Hok Hr inv_init) as (_ & _ & _ & H).
  cbn [app] in H. exact H.
Qed.

Lemma builder_lossless :
  forall ops root, forallb op_ok ops = true -> build ops = Some root ->
    bytes_of root = pushed_bytes ops /\
    leaves root = pushed_leaves ops /\
    len_ok root = true /\
    glen root = N.of_nat (length (pushed_bytes ops)).
Proof.
  intros ops root Hok Hb. unfold build in Hb.
  destruct (b_run ops b_init) as [s|] eqn:E; [|discriminate].
  apply b_end_some in Hb.
  pose proof (b_run_inv _ _ _ _ _ Hok E inv_init) as (H1 & H2 & H3 & H4).
  rewrite Hb in H1, H2, H3. cbn [map concat forallb app] in H1, H2, H3.
  rewrite app_nil_r in H1, H2. rewrite andb_true_r in H3.
  split; [exact H1|split; [exact H2|split; [exact H3|]]].
  rewrite (glen_bytes _ H3), H1. reflexivity.
Qed.

(* ---------------------------------------------------------------------------------------------- *)
(* Parser utilities                                                                               *)
(* ---------------------------------------------------------------------------------------------- *)

Lemma take_never_crashes :
  forall s, forallb err_ok (p_stream s) = true -> exists s', p_take s = POk s'.
Proof.
  intros s H. unfold p_take. destruct (p_stream s) as [|[t e] rest]; [eexists; reflexivity|].
  cbn [forallb] in H. apply andb_true_iff in H as [H _]. unfold err_ok in H. cbn [fst snd] in H.
  unfold b_push.
  destruct e as [[k [|i]]|]; unfold lex_err_span; cbn [snd].
  - eexists; reflexivity.
  - apply Nat.ltb_lt in H. destruct (nth_error (t_trivia t) i) eqn:E.
    + eexists; reflexivity.
    + apply nth_error_None in E. lia.
  - eexists; reflexivity.
Qed.

Lemma nth_error_split {A} (l : list A) :
  forall i x, nth_error l i = Some x -> l = firstn i l ++ x :: skipn (S i) l.
Proof.
  induction l as [|a l IH]; intros [|i] x H; try discriminate.
  - cbn in H. injection H as ->. reflexivity.
  - cbn [nth_error] in H. cbn [firstn skipn app]. f_equal. apply IH. exact H.
Qed.

Definition span_ok (lim : N) (sp : N * N) : Prop := fst sp <= snd sp /\ snd sp <= lim.

Lemma span_ok_mono lim lim' sp : lim <= lim' -> span_ok lim sp -> span_ok lim' sp.
Proof. intros Hle [H1 H2]. split; [exact H1|lia]. Qed.

Lemma lex_err_span_bound e t start sp :
  lex_err_span e t start = Some sp -> span_ok (start + tok_len t) sp.
Proof.
  unfold lex_err_span, span_ok, tok_len. destruct (snd e) as [|i].
  - intros H; injection H as <-. cbn [fst snd]. lia.
  - destruct (nth_error (t_trivia t) i) as [p|] eqn:E; [|discriminate].
    intros H; injection H as <-. cbn [fst snd].
    pose proof (nth_error_split _ _ _ E) as Hs.
    assert (Hl : trivia_len (t_trivia t) =
                 trivia_len (firstn i (t_trivia t)) + (piece_len p + trivia_len (skipn (S i) (t_trivia t)))).
    { rewrite Hs at 1. rewrite trivia_len_app, trivia_len_cons. reflexivity. }
    lia.
Qed.

Lemma printed_app (a b : list ltok) : printed (a ++ b) = printed a ++ printed b.
Proof. rewrite map_app, concat_app. reflexivity. Qed.

(* the invariant of the parser machine on the token stream `ts`: what the builder holds, the stream
   and the tokens set aside are together `ts`; error spans lie inside the printed `ts`; while tokens
   are set aside the stream is empty *)
Definition pinv (ts : list ltok) (s : pstate) : Prop :=
  exists consumed,
    consumed ++ p_stream s ++ deferred_list (p_deferred s) = ts /\
    inv (p_builder s) (printed consumed) (map fst consumed) /\
    Forall (span_ok (N.of_nat (length (printed ts)))) (p_errors s) /\
    (forall d, p_deferred s = Some d -> p_stream s = []).

Lemma pinv_len ts s : pinv ts s ->
  b_text_len (p_builder s) + N.of_nat (length (printed (p_stream s))) +
  N.of_nat (length (printed (deferred_list (p_deferred s)))) = N.of_nat (length (printed ts)).
Proof.
  intros (consumed & Hc & (_ & _ & _ & Ht) & _).
  rewrite <- Hc, !printed_app, !app_length, Ht. unfold byte in *. lia.
Qed.

Lemma pinv_len_cons ts s t e rest : pinv ts s -> p_stream s = (t, e) :: rest ->
  b_text_len (p_builder s) + tok_len t <= N.of_nat (length (printed ts)).
Proof.
  intros Hp Es. pose proof (pinv_len ts s Hp) as HL. rewrite Es in HL.
  cbn [map concat fst] in HL. rewrite app_length in HL.
  pose proof (tok_len_bytes t) as Ht. unfold byte in *. lia.
Qed.

Lemma lift_b_pinv ts o s s' :
  op_bytes o = [] -> op_leaves o = [] -> op_ok o = true ->
  lift_b (b_step o (p_builder s)) s = POk s' -> pinv ts s -> pinv ts s'.
Proof.
  intros Hb Hl Hok H (consumed & Hc & Hi & He & Hd).
  destruct (b_step o (p_builder s)) as [b|] eqn:E; [|discriminate]. cbn [lift_b] in H. injection H as <-.
  pose proof (b_step_inv _ _ _ _ _ Hok E Hi) as Hi'. rewrite Hb, Hl, !app_nil_r in Hi'.
  exists consumed. cbn [p_stream p_builder p_errors p_deferred].
  split; [exact Hc|split; [exact Hi'|split; [exact He|exact Hd]]].
Qed.

Lemma pinv_add_err ts s sp :
  pinv ts s -> span_ok (N.of_nat (length (printed ts))) sp ->
  pinv ts (mkP (p_stream s) (p_builder s) (p_errors s ++ [sp]) (p_deferred s)).
Proof.
  intros (consumed & Hc & Hi & He & Hd) Hsp. exists consumed. cbn [p_stream p_builder p_errors p_deferred].
  split; [exact Hc|split; [exact Hi|split; [|exact Hd]]].
  apply Forall_app. split; [exact He|]. constructor; [exact Hsp|constructor].
Qed.

Lemma p_take_cons s s' t e rest :
  p_stream s = (t, e) :: rest -> p_take s = POk s' ->
  exists es,
    s' = mkP rest (mkB (b_text_len (p_builder s) + tok_len t) (b_token_index (p_builder s) + 1)
                       (b_parents (p_builder s)) (b_children (p_builder s) ++ [GTok t])) es (p_deferred s) /\
    (forall lim, b_text_len (p_builder s) + tok_len t <= lim ->
       Forall (span_ok lim) (p_errors s) -> Forall (span_ok lim) es).
Proof.
  intros Es H. unfold p_take in H. rewrite Es in H. unfold b_push in H.
  destruct e as [le|].
  - destruct (lex_err_span le t (b_text_len (p_builder s))) as [sp|] eqn:El; [|discriminate].
    injection H as <-. eexists; split; [reflexivity|]. intros lim Hlim HF.
    apply Forall_app. split; [exact HF|].
    constructor; [|constructor]. eapply span_ok_mono; [exact Hlim|]. eapply lex_err_span_bound. exact El.
  - injection H as <-. eexists; split; [reflexivity|]. intros lim Hlim HF. exact HF.
Qed.

Lemma p_take_pinv ts s s' :
  p_take s = POk s' -> pinv ts s ->
  pinv ts s' /\ b_text_len (p_builder s) <= b_text_len (p_builder s') /\
  (forall t e rest, p_stream s = (t, e) :: rest ->
     b_text_len (p_builder s') = b_text_len (p_builder s) + tok_len t).
Proof.
  intros H Hp. destruct (p_stream s) as [|[t e] rest] eqn:Es.
  - unfold p_take in H. rewrite Es in H. injection H as <-.
    split; [exact Hp|split; [lia|]]. intros; discriminate.
  - destruct (p_take_cons _ _ _ _ _ Es H) as (es & -> & HF).
    pose proof (pinv_len_cons ts s t e rest Hp Es) as Hlim.
    destruct Hp as (consumed & Hc & Hi & He & Hd). cbn [p_builder b_text_len].
    split; [|split; [lia|]].
    + exists (consumed ++ [(t, e)]). cbn [p_stream p_builder p_errors p_deferred b_text_len].
      split; [|split; [|split]].
      * rewrite Es in Hc. cbn [app] in Hc. rewrite <- app_assoc. cbn [app]. exact Hc.
      * assert (Hst : b_step (OPush t) (p_builder s) =
                      BOk (mkB (b_text_len (p_builder s) + tok_len t) (b_token_index (p_builder s) + 1)
                               (b_parents (p_builder s)) (b_children (p_builder s) ++ [GTok t])))
          by reflexivity.
        pose proof (b_step_inv (OPush t) _ _ _ _ eq_refl Hst Hi) as Hi'. cbn [op_bytes op_leaves] in Hi'.
        rewrite !map_app, concat_app. cbn [map concat fst]. rewrite app_nil_r. exact Hi'.
      * exact (HF _ Hlim He).
      * intros d Hd'. rewrite (Hd d Hd') in Es. discriminate.
    + intros t0 e0 rest0 E0. injection E0 as -> _ _. reflexivity.
Qed.

Lemma p_take_n_pinv ts n : forall s s',
  p_take_n n s = POk s' -> pinv ts s ->
  pinv ts s' /\ b_text_len (p_builder s) <= b_text_len (p_builder s').
Proof.
  induction n as [|n IH]; intros s s' H Hp; cbn [p_take_n] in H.
  - injection H as <-. split; [exact Hp|lia].
  - destruct (p_take s) as [s1|] eqn:E; [|discriminate].
    destruct (p_take_pinv ts _ _ E Hp) as (Hp1 & Hm1 & _).
    destruct (IH _ _ H Hp1) as (Hp2 & Hm2). split; [exact Hp2|lia].
Qed.

Lemma p_recover_pinv ts n h s s' : p_recover n h s = POk s' -> pinv ts s -> pinv ts s'.
Proof.
  intros H Hp. unfold p_recover in H.
  assert (Hsame : pinv ts (mkP (p_stream s) (p_builder s)
                    (p_errors s ++ [(b_text_len (p_builder s), b_text_len (p_builder s))]) (p_deferred s))).
  { apply pinv_add_err; [exact Hp|]. pose proof (pinv_len ts s Hp) as HL.
    unfold span_ok; cbn [fst snd]. unfold byte in *. lia. }
  destruct (peek_is_eof s) eqn:Ep.
  - injection H as <-. exact Hsame.
  - destruct n as [|n'].
    + destruct h; [discriminate|]. injection H as <-. exact Hsame.
    + destruct (p_take_n (S n') s) as [s1|] eqn:Et; [|discriminate]. injection H as <-.
      unfold peek_is_eof in Ep. destruct (p_stream s) as [|[t e] rest] eqn:Es; [discriminate|].
      cbn [p_take_n] in Et. destruct (p_take s) as [s0|] eqn:E0; [|discriminate].
      destruct (p_take_pinv ts _ _ E0 Hp) as (Hp0 & Hm0 & Hlen).
      specialize (Hlen _ _ _ Es).
      destruct (p_take_n_pinv ts _ _ _ Et Hp0) as (Hp1 & Hm1).
      pose proof (pinv_len ts s1 Hp1) as HL1.
      apply (pinv_add_err ts s1); [exact Hp1|]. unfold span_ok; cbn [fst snd].
      unfold tok_len in Hlen. unfold byte in *. lia.
Qed.

Lemma check_depth_pinv ts max s : pinv ts s -> pinv ts (check_depth max s).
Proof.
  intros Hp. unfold check_depth.
  destruct ((p_depth s <=? max)%nat || peek_is_eof s) eqn:Ec; [exact Hp|].
  apply orb_false_iff in Ec as [_ Ep]. unfold peek_is_eof in Ep.
  destruct (p_stream s) as [|[t e] rest] eqn:Es; [discriminate|].
  pose proof (pinv_len_cons ts s t e rest Hp Es) as Hlim. unfold tok_len in Hlim.
  destruct Hp as (consumed & Hc & Hi & He & Hd).
  assert (Hnone : p_deferred s = None).
  { destruct (p_deferred s) as [d|] eqn:Edd; [|reflexivity]. rewrite (Hd d eq_refl) in Es. discriminate. }
  exists consumed. cbn [p_stream p_builder p_errors p_deferred deferred_list app].
  split; [|split; [exact Hi|split]].
  - rewrite Es, Hnone in Hc. cbn [deferred_list] in Hc. rewrite app_nil_r in Hc. exact Hc.
  - apply Forall_app; split; [exact He|]. constructor; [|constructor].
    unfold span_ok; cbn [fst snd]. lia.
  - intros; reflexivity.
Qed.

Lemma p_start_pinv ts max o s s' :
  op_bytes o = [] -> op_leaves o = [] -> op_ok o = true ->
  p_start max (b_step o (p_builder s)) s = POk s' -> pinv ts s -> pinv ts s'.
Proof.
  intros Hb Hl Hok H Hp. unfold p_start in H.
  destruct (lift_b (b_step o (p_builder s)) s) as [s1|] eqn:E; [|discriminate]. injection H as <-.
  apply check_depth_pinv. exact (lift_b_pinv ts o s s1 Hb Hl Hok E Hp).
Qed.

Lemma deferred_start_pinv ts s d :
  pinv ts s -> p_deferred s = Some d -> pinv ts (mkP d (p_builder s) (p_errors s) None).
Proof.
  intros (consumed & Hc & Hi & He & Hd) E. exists consumed.
  cbn [p_stream p_builder p_errors p_deferred deferred_list].
  rewrite (Hd _ E), E in Hc. cbn [app deferred_list] in Hc.
  split; [rewrite app_nil_r; exact Hc|split; [exact Hi|split; [exact He|intros; discriminate]]].
Qed.

Lemma push_deferred_pinv ts s s' : push_deferred s = POk s' -> pinv ts s -> pinv ts s'.
Proof.
  intros H Hp. unfold push_deferred in H. destruct (p_deferred s) as [d|] eqn:E.
  - exact (proj1 (p_take_n_pinv ts _ _ _ H (deferred_start_pinv ts s d Hp E))).
  - injection H as <-. exact Hp.
Qed.

Lemma p_end_node_pinv ts s s' : p_end_node s = POk s' -> pinv ts s -> pinv ts s'.
Proof.
  intros H Hp. unfold p_end_node in H.
  destruct (if (p_depth s =? 1)%nat then push_deferred s else POk s) as [s1|] eqn:E1; [|discriminate].
  assert (Hp1 : pinv ts s1).
  { destruct (p_depth s =? 1)%nat; [exact (push_deferred_pinv ts s s1 E1 Hp)|].
    injection E1 as <-. exact Hp. }
  exact (lift_b_pinv ts OEnd s1 s' eq_refl eq_refl eq_refl H Hp1).
Qed.

Lemma p_step_pinv ts max o s s' : p_step max o s = POk s' -> pinv ts s -> pinv ts s'.
Proof.
  intros H Hp. destruct o as [k| |cp k| |n h]; cbn [p_step] in H.
  - exact (p_start_pinv ts max (OStart k) s s' eq_refl eq_refl eq_refl H Hp).
  - exact (p_end_node_pinv ts s s' H Hp).
  - exact (p_start_pinv ts max (OStartAt cp k) s s' eq_refl eq_refl eq_refl H Hp).
  - exact (proj1 (p_take_pinv ts _ _ H Hp)).
  - exact (p_recover_pinv ts n h s s' H Hp).
Qed.

Lemma p_run_pinv ts max ops : forall s s', p_run max ops s = POk s' -> pinv ts s -> pinv ts s'.
Proof.
  induction ops as [|o ops IH]; intros s s' H Hp; cbn [p_run] in H.
  - injection H as <-. exact Hp.
  - destruct (p_step max o s) as [s1|] eqn:E; [|discriminate].
    exact (IH _ _ H (p_step_pinv ts max _ _ _ E Hp)).
Qed.

Lemma pinv_init ts : pinv ts (p_init ts).
Proof.
  exists []. unfold p_init; cbn [p_stream p_builder p_errors p_deferred deferred_list app map concat].
  split; [apply app_nil_r|split; [exact inv_init|split; [constructor|intros; discriminate]]].
Qed.

(* what the invariant says when the builder holds exactly the root *)
Lemma pinv_root ts s root : pinv ts s -> b_children (p_builder s) = [root] ->
  exists consumed,
    consumed ++ p_stream s ++ deferred_list (p_deferred s) = ts /\
    bytes_of root = printed consumed /\ leaves root = map fst consumed /\ len_ok root = true.
Proof.
  intros (consumed & Hc & (H1 & H2 & H3 & _) & _ & _) Hch. exists consumed.
  rewrite Hch in H1, H2, H3. cbn [map concat forallb] in H1, H2, H3.
  rewrite app_nil_r in H1, H2. rewrite andb_true_r in H3. auto.
Qed.

Lemma parse_with_pinv max ts ops root errs rest d :
  parse_with max ops ts = Some (root, errs, rest, d) ->
  exists s, pinv ts s /\ b_children (p_builder s) = [root] /\ p_errors s = errs /\
            p_stream s = rest /\ p_deferred s = d.
Proof.
  unfold parse_with. intros H. destruct (p_run max ops (p_init ts)) as [s|] eqn:E; [|discriminate].
  destruct (b_end (p_builder s)) as [r|] eqn:Eb; [|discriminate].
  injection H as -> <- <- <-. exists s. apply b_end_some in Eb.
  split; [exact (p_run_pinv ts max _ _ _ E (pinv_init ts))|auto].
Qed.

Lemma parse_lossless_gen :
  forall max ts ops root errs rest d, parse_with max ops ts = Some (root, errs, rest, d) ->
    bytes_of root ++ printed rest ++ printed (deferred_list d) = printed ts /\
    len_ok root = true /\
    (rest = [] -> d = None -> leaves root = map fst ts).
Proof.
  intros max ts ops root errs rest d H.
  destruct (parse_with_pinv _ _ _ _ _ _ _ H) as (s & Hp & Hch & _ & Hr & Hd).
  destruct (pinv_root ts s root Hp Hch) as (consumed & Hc & H1 & H2 & H3).
  rewrite Hr, Hd in Hc.
  split; [|split; [exact H3|]].
  - rewrite H1, <- Hc, !printed_app. reflexivity.
  - intros -> ->. cbn [deferred_list app] in Hc. rewrite app_nil_r in Hc. rewrite H2, Hc. reflexivity.
Qed.

Lemma error_spans_inside_gen :
  forall max ts ops root errs rest d, parse_with max ops ts = Some (root, errs, rest, d) ->
    Forall (fun sp : N * N => fst sp <= snd sp /\ snd sp <= N.of_nat (length (printed ts))) errs.
Proof.
  intros max ts ops root errs rest d H.
  destruct (parse_with_pinv _ _ _ _ _ _ _ H) as (s & (consumed & _ & _ & He & _) & _ & Herr & _).
  rewrite Herr in He. exact He.
Qed.

(* the bail-out of check_nesting_depth loses nothing: closing the root pushes the deferred tokens *)
Lemma p_take_shape s s1 :
  p_take s = POk s1 -> p_stream s1 = tl (p_stream s) /\ p_deferred s1 = p_deferred s.
Proof.
  unfold p_take. destruct (p_stream s) as [|[t e] rest] eqn:Es.
  - intros H; injection H as <-. rewrite Es. auto.
  - unfold b_push. destruct e as [le|];
      [destruct (lex_err_span le t (b_text_len (p_builder s))); [|discriminate]|];
      intros H; injection H as <-; auto.
Qed.

Lemma p_take_n_drain n : forall s s',
  p_take_n n s = POk s' -> (length (p_stream s) <= n)%nat ->
  p_stream s' = [] /\ p_deferred s' = p_deferred s.
Proof.
  induction n as [|n IH]; intros s s' H Hl; cbn [p_take_n] in H.
  - injection H as <-. destruct (p_stream s); [auto|cbn [length] in Hl; lia].
  - destruct (p_take s) as [s1|] eqn:E; [|discriminate].
    destruct (p_take_shape _ _ E) as [Hs Hd].
    assert (Hl1 : (length (p_stream s1) <= n)%nat).
    { rewrite Hs. destruct (p_stream s); cbn [tl length] in *; lia. }
    destruct (IH _ _ H Hl1) as [H1 H2]. rewrite H2, Hd. auto.
Qed.

Lemma parse_bail_gen :
  forall max ts ops s1 dts s2 root,
    p_run max ops (p_init ts) = POk s1 ->
    p_deferred s1 = Some dts -> p_depth s1 = 1%nat ->
    p_step max PEnd s1 = POk s2 -> b_end (p_builder s2) = Some root ->
    p_stream s2 = [] /\ p_deferred s2 = None /\ bytes_of root = printed ts /\
    leaves root = map fst ts /\ len_ok root = true.
Proof.
  intros max ts ops s1 dts s2 root Hrun Hdef Hdepth Hstep Hend.
  pose proof (p_run_pinv ts max ops _ _ Hrun (pinv_init ts)) as Hp1.
  pose proof (p_step_pinv ts max PEnd _ _ Hstep Hp1) as Hp2.
  apply b_end_some in Hend.
  destruct (pinv_root ts s2 root Hp2 Hend) as (consumed & Hc & H1 & H2 & H3).
  assert (Hsd : p_stream s2 = [] /\ p_deferred s2 = None).
  { cbn [p_step] in Hstep. unfold p_end_node in Hstep. rewrite Hdepth in Hstep. cbn [Nat.eqb] in Hstep.
    unfold push_deferred in Hstep. rewrite Hdef in Hstep.
    destruct (p_take_n (length dts) (mkP dts (p_builder s1) (p_errors s1) None)) as [s'|] eqn:Et;
      [|discriminate].
    destruct (p_take_n_drain _ _ _ Et (le_n _)) as [Hs Hd]. cbn [p_deferred] in Hd.
    destruct (b_end_node (p_builder s')) as [b|]; [|discriminate]. cbn [lift_b] in Hstep.
    injection Hstep as <-. cbn [p_stream p_deferred]. auto. }
  destruct Hsd as [Hs Hd]. rewrite Hs, Hd in Hc. cbn [deferred_list app] in Hc. rewrite app_nil_r in Hc.
  subst consumed. auto.
Qed.

(* ---------------------------------------------------------------------------------------------- *)
(* Red layer: offsets                                                                             *)
(* ---------------------------------------------------------------------------------------------- *)

(* the inner loops of red_walk / leaf_offsets as a named function of the recursive call *)
Section WalkGo.
  Variable A : Type.
  Variable rec : N -> green -> list A.
  Fixpoint walk_go (o : N) (l : list green) : list A :=
    match l with
    | [] => []
    | c :: r => rec o c ++ walk_go (o + glen c) r
    end.
End WalkGo.

Lemma red_walk_node off k cs l :
  red_walk off (GNode k cs l) = (off, GNode k cs l) :: walk_go _ red_walk off cs.
Proof. reflexivity. Qed.

Lemma leaf_offsets_node off k cs l :
  leaf_offsets off (GNode k cs l) = walk_go _ leaf_offsets off cs.
Proof. reflexivity. Qed.

Lemma slice_all bs n : n = N.of_nat (length bs) -> slice 0 n bs = bs.
Proof.
  intros ->. unfold slice. rewrite Nat2N.id. cbn [N.to_nat skipn]. apply firstn_all.
Qed.

Lemma slice_app_l a n (x y : list byte) :
  (N.to_nat a + N.to_nat n <= length x)%nat -> slice a n (x ++ y) = slice a n x.
Proof.
  intros H. unfold slice. rewrite skipn_app, firstn_app, skipn_length.
  replace (N.to_nat a - length x)%nat with O by lia.
  replace (N.to_nat n - (length x - N.to_nat a))%nat with O by lia.
  cbn [firstn]. apply app_nil_r.
Qed.

Lemma slice_app_r a n (x y : list byte) :
  slice (N.of_nat (length x) + a) n (x ++ y) = slice a n y.
Proof.
  unfold slice.
  replace (N.to_nat (N.of_nat (length x) + a)) with (length x + N.to_nat a)%nat by lia.
  rewrite skipn_app, skipn_all2 by lia.
  replace (length x + N.to_nat a - length x)%nat with (N.to_nat a) by lia. reflexivity.
Qed.

Definition red_P (g : green) : Prop :=
  len_ok g = true -> forall off o c, In (o, c) (red_walk off g) ->
    off <= o /\ o + glen c <= off + glen g /\
    bytes_of c = slice (o - off) (glen c) (bytes_of g) /\ len_ok c = true.

Lemma red_self g off : len_ok g = true ->
  off <= off /\ off + glen g <= off + glen g /\
  bytes_of g = slice (off - off) (glen g) (bytes_of g) /\ len_ok g = true.
Proof.
  intros Hok. split; [lia|split; [lia|split; [|exact Hok]]].
  rewrite N.sub_diag. symmetry. apply slice_all. apply glen_bytes. exact Hok.
Qed.

Lemma red_list cs :
  Forall red_P cs -> forallb len_ok cs = true ->
  forall off o c, In (o, c) (walk_go _ red_walk off cs) ->
    off <= o /\ o + glen c <= off + sum_len cs /\
    bytes_of c = slice (o - off) (glen c) (concat (map bytes_of cs)) /\ len_ok c = true.
Proof.
  induction 1 as [|c0 cs Hc0 _ IH]; intros Hok off o c Hin; [destruct Hin|].
  cbn [forallb] in Hok. apply andb_true_iff in Hok as [Hok0 Hoks].
  cbn [walk_go] in Hin. apply in_app_or in Hin as [Hin|Hin].
  - destruct (Hc0 Hok0 _ _ _ Hin) as (H1 & H2 & H3 & H4).
    pose proof (glen_bytes _ Hok0) as Hg0.
    rewrite sum_len_cons. cbn [map concat].
    split; [exact H1|split; [lia|split; [|exact H4]]].
    rewrite slice_app_l; [exact H3|]. unfold byte in *. lia.
  - destruct (IH Hoks _ _ _ Hin) as (H1 & H2 & H3 & H4).
    pose proof (glen_bytes _ Hok0) as Hg0.
    rewrite sum_len_cons. cbn [map concat].
    split; [lia|split; [lia|split; [|exact H4]]].
    replace (o - off) with (N.of_nat (length (bytes_of c0)) + (o - (off + glen c0)))
      by (unfold byte in *; lia).
    rewrite slice_app_r. exact H3.
Qed.

Lemma red_all g : red_P g.
Proof.
  induction g as [t|k cs l IH] using green_ind'; intros Hok off o c Hin.
  - cbn [red_walk] in Hin. destruct Hin as [Hin|[]]. injection Hin as <- <-. apply red_self. exact Hok.
  - rewrite red_walk_node in Hin. destruct Hin as [Hin|Hin].
    + injection Hin as <- <-. apply red_self. exact Hok.
    + apply len_ok_node in Hok as [-> Hoks]. cbn [glen bytes_of].
      exact (red_list cs IH Hoks _ _ _ Hin).
Qed.

Lemma tiles_children cs : forall o,
  tiles o (o + sum_len cs) (map (fun oc => (fst oc, glen (snd oc))) (red_children o cs)).
Proof.
  induction cs as [|c cs IH]; intros o; cbn [red_children map tiles fst snd].
  - rewrite sum_len_nil. lia.
  - split; [reflexivity|]. rewrite sum_len_cons.
    replace (o + (glen c + sum_len cs)) with (o + glen c + sum_len cs) by lia. apply IH.
Qed.

Definition toks_len (ts : list tok) : N := N.of_nat (length (concat (map token_bytes ts))).

Lemma scan_app a b : forall off,
  scan_offsets off (a ++ b) = scan_offsets off a ++ scan_offsets (off + toks_len a) b.
Proof.
  induction a as [|t a IH]; intros off.
  - cbn [app scan_offsets]. unfold toks_len; cbn [map concat length N.of_nat].
    rewrite N.add_0_r. reflexivity.
  - cbn [app scan_offsets]. rewrite IH. f_equal. f_equal. f_equal.
    unfold toks_len. cbn [map concat]. rewrite app_length, tok_len_bytes. unfold byte in *. lia.
Qed.

Lemma glen_toks g : len_ok g = true -> glen g = toks_len (leaves g).
Proof. intros H. unfold toks_len. rewrite <- bytes_leaves. apply glen_bytes. exact H. Qed.

Lemma leaf_offsets_scan g : len_ok g = true -> forall off, leaf_offsets off g = scan_offsets off (leaves g).
Proof.
  induction g as [t|k cs l IH] using green_ind'; intros Hok off.
  - reflexivity.
  - apply len_ok_node in Hok as [_ Hoks]. rewrite leaf_offsets_node. cbn [leaves].
    revert off. induction IH as [|c cs Hc _ IHcs]; intros off; [reflexivity|].
    cbn [forallb] in Hoks. apply andb_true_iff in Hoks as [Hok0 Hoks].
    cbn [walk_go map concat]. rewrite scan_app, (Hc Hok0), (IHcs Hoks), (glen_toks _ Hok0). reflexivity.
Qed.

Lemma offsets_tile :
  forall root, len_ok root = true ->
    glen root = N.of_nat (length (bytes_of root)) /\
    leaf_offsets 0 root = scan_offsets 0 (leaves root) /\
    (forall o c, In (o, c) (red_walk 0 root) ->
       bytes_of c = slice o (glen c) (bytes_of root) /\
       o + glen c <= glen root /\
       match c with
       | GTok _ => True
       | GNode _ cs l => tiles o (o + l) (map (fun oc => (fst oc, glen (snd oc))) (red_children o cs))
       end).
Proof.
  intros root Hok. split; [exact (glen_bytes _ Hok)|split; [exact (leaf_offsets_scan _ Hok 0)|]].
  intros o c Hin. destruct (red_all root Hok _ _ _ Hin) as (H1 & H2 & H3 & H4).
  rewrite N.sub_0_r in H3. split; [exact H3|split; [lia|]].
  destruct c as [t|k cs l]; [exact I|].
  apply len_ok_node in H4 as [-> _]. apply tiles_children.
Qed.

(* ---------------------------------------------------------------------------------------------- *)
(* Rewriters                                                                                      *)
(* ---------------------------------------------------------------------------------------------- *)

(* the inner loops of rw / trw as named functions of the recursive call *)
Section RwGo.
  Variable St : Type.
  Variable act : St -> N -> green -> St * action.
  Variable rec : St -> N -> green -> St * green.
  Fixpoint rw_go (st : St) (o : N) (l : list green) (acc : list green) {struct l} : St * list green :=
    match l with
    | [] => (st, acc)
    | c :: r =>
      let '(st1, a) := act st o c in
      match a with
      | Leave =>
        match c with
        | GNode _ _ _ => let '(st2, c') := rec st1 o c in rw_go st2 (o + glen c) r (acc ++ [c'])
        | GTok t => rw_go st1 (o + glen c) r (acc ++ [GTok t])
        end
      | Change g' => rw_go st1 (o + glen c) r (acc ++ [g'])
      | Remove => rw_go st1 (o + glen c) r acc
      end
    end.
End RwGo.

Lemma rw_node St act st off k cs l :
  rw St act st off (GNode k cs l) =
  let '(st', cs') := rw_go St act (rw St act) st off cs [] in (st', mk_node k cs').
Proof. reflexivity. Qed.

Section TrwGo.
  Variable St : Type.
  Variable tact : St -> N -> tok -> St * taction.
  Variable keep_pushes : bool.
  Variable rec : St -> N -> green -> St * green.
  Fixpoint trw_go (st : St) (o : N) (l : list green) (acc : list green) {struct l} : St * list green :=
    match l with
    | [] => (st, acc)
    | c :: r =>
      match c with
      | GNode _ _ _ => let '(st1, c') := rec st o c in trw_go st1 (o + glen c) r (acc ++ [c'])
      | GTok t =>
        let '(st1, a) := tact st o t in
        match a with
        | Keep => trw_go st1 (o + glen c) r (if keep_pushes then acc ++ [GTok t] else acc)
        | Replace t' => trw_go st1 (o + glen c) r (acc ++ [GTok t'])
        end
      end
    end.
End TrwGo.

Lemma trw_node St enter tact exit kp st off k cs l :
  trw St enter tact exit kp st off (GNode k cs l) =
  let '(st', cs') := trw_go St tact kp (trw St enter tact exit kp) (enter st off (GNode k cs l)) off cs [] in
  (exit st' off (GNode k cs l), mk_node k cs').
Proof. reflexivity. Qed.

(* ---- identity actions ---- *)

Lemma rw_leave_all g : len_ok g = true -> forall st off, rw unit leave_all st off g = (st, g).
Proof.
  induction g as [t|k cs l IH] using green_ind'; intros Hok st off; [reflexivity|].
  apply len_ok_node in Hok as [-> Hoks]. rewrite rw_node.
  assert (Hgo : forall st o acc, rw_go unit leave_all (rw unit leave_all) st o cs acc = (st, acc ++ cs)).
  { clear st off. induction IH as [|c cs Hc _ IHcs]; intros st o acc.
    - cbn [rw_go]. rewrite app_nil_r. reflexivity.
    - cbn [forallb] in Hoks. apply andb_true_iff in Hoks as [Hok0 Hoks].
      cbn [rw_go leave_all]. destruct c as [t|k0 cs0 l0].
      + rewrite (IHcs Hoks), <- app_assoc. reflexivity.
      + rewrite (Hc Hok0), (IHcs Hoks), <- app_assoc. reflexivity. }
  rewrite Hgo. reflexivity.
Qed.

Lemma rewrite_leave_id : forall g, len_ok g = true -> rewrite leave_all tt g = g.
Proof. intros g Hok. unfold rewrite. rewrite (rw_leave_all g Hok). reflexivity. Qed.

Lemma trw_keep_all g :
  len_ok g = true -> forall st off, trw unit no_hook keep_all no_hook true st off g = (st, g).
Proof.
  induction g as [t|k cs l IH] using green_ind'; intros Hok st off; [reflexivity|].
  apply len_ok_node in Hok as [-> Hoks]. rewrite trw_node.
  assert (Hgo : forall st o acc,
             trw_go unit keep_all true (trw unit no_hook keep_all no_hook true) st o cs acc = (st, acc ++ cs)).
  { clear st off. induction IH as [|c cs Hc _ IHcs]; intros st o acc.
    - cbn [trw_go]. rewrite app_nil_r. reflexivity.
    - cbn [forallb] in Hoks. apply andb_true_iff in Hoks as [Hok0 Hoks].
      destruct c as [t|k0 cs0 l0]; cbn [trw_go keep_all].
      + rewrite (IHcs Hoks), <- app_assoc. reflexivity.
      + rewrite (Hc Hok0), (IHcs Hoks), <- app_assoc. reflexivity. }
  rewrite Hgo. reflexivity.
Qed.

Lemma token_rewrite_keep_id : forall g, len_ok g = true -> token_rewrite no_hook keep_all no_hook tt g = g.
Proof. intros g Hok. unfold token_rewrite. rewrite (trw_keep_all g Hok). reflexivity. Qed.

Lemma token_rewrite_keep_id_old_refuted :
  exists g, len_ok g = true /\ token_rewrite_old no_hook keep_all no_hook tt g <> g /\
            bytes_of (token_rewrite_old no_hook keep_all no_hook tt g) <> bytes_of g.
Proof.
  exists (GNode 0 [GTok (mkTok KIdentifier [97] [])] 1).
  split; [reflexivity|split; vm_compute; intros H; discriminate H].
Qed.

(* ---- replacing one token ---- *)

(* what the counting closures do to the token sequence: the token with global index i is replaced *)
Fixpoint repl (n i : nat) (t' : tok) (ls : list tok) : list tok :=
  match ls with
  | [] => []
  | t :: r => (if (n =? i)%nat then t' else t) :: repl (S n) i t' r
  end.

Lemma repl_app n i t' a b : repl n i t' (a ++ b) = repl n i t' a ++ repl (n + length a) i t' b.
Proof.
  revert n; induction a as [|x a IH]; intros n; cbn [app repl length].
  - rewrite Nat.add_0_r. reflexivity.
  - rewrite IH. replace (S n + length a)%nat with (n + S (length a))%nat by lia. reflexivity.
Qed.

Lemma repl_id n i t' ls : (i < n)%nat -> repl n i t' ls = ls.
Proof.
  revert n; induction ls as [|x ls IH]; intros n H; cbn [repl]; [reflexivity|].
  destruct (Nat.eqb_spec n i); [lia|]. rewrite IH by lia. reflexivity.
Qed.

Lemma repl_nth ls : forall n j t t', nth_error ls j = Some t ->
  repl n (n + j) t' ls = firstn j ls ++ t' :: skipn (S j) ls.
Proof.
  induction ls as [|x ls IH]; intros n j t t' H.
  - destruct j; discriminate.
  - destruct j as [|j]; cbn [repl firstn skipn app].
    + rewrite Nat.add_0_r, Nat.eqb_refl. rewrite repl_id by lia. reflexivity.
    + destruct (Nat.eqb_spec n (n + S j)); [lia|]. cbn [nth_error] in H.
      replace (n + S j)%nat with (S n + j)%nat by lia. rewrite (IH _ _ _ _ H). reflexivity.
Qed.

Lemma replace_final g g' i t t' :
  nth_error (leaves g) i = Some t -> leaves g' = repl 0 i t' (leaves g) -> len_ok g' = true ->
  bytes_of g = concat (map token_bytes (firstn i (leaves g))) ++ token_bytes t ++
               concat (map token_bytes (skipn (S i) (leaves g))) /\
  bytes_of g' = concat (map token_bytes (firstn i (leaves g))) ++ token_bytes t' ++
                concat (map token_bytes (skipn (S i) (leaves g))) /\
  leaves g' = firstn i (leaves g) ++ [t'] ++ skipn (S i) (leaves g) /\
  len_ok g' = true.
Proof.
  intros Hn Hl Hk. pose proof (repl_nth _ 0%nat _ _ t' Hn) as Hr. cbn [Nat.add] in Hr. rewrite Hr in Hl.
  pose proof (nth_error_split _ _ _ Hn) as Hs.
  split; [|split; [|split; [exact Hl | exact Hk]]].
  - rewrite bytes_leaves. rewrite Hs at 1. rewrite map_app, concat_app. cbn [map concat]. reflexivity.
  - rewrite bytes_leaves, Hl, map_app, concat_app. cbn [map concat]. reflexivity.
Qed.

Section ReplaceT.
  Variables (i : nat) (t' : tok).
  Notation trwN := (trw nat nat_hook (replace_nth_t i t') nat_hook true).

  Definition PT (g : green) : Prop :=
    match g with
    | GTok _ => True
    | GNode _ _ _ =>
      forall n off,
        fst (trwN n off g) = (n + length (leaves g))%nat /\
        leaves (snd (trwN n off g)) = repl n i t' (leaves g) /\
        len_ok (snd (trwN n off g)) = true
    end.

  Lemma trw_go_repl cs : Forall PT cs -> forall n o acc,
    exists cs',
      trw_go nat (replace_nth_t i t') true trwN n o cs acc
        = ((n + length (concat (map leaves cs)))%nat, acc ++ cs') /\
      concat (map leaves cs') = repl n i t' (concat (map leaves cs)) /\
      forallb len_ok cs' = true.
  Proof.
    induction 1 as [|c cs Hc _ IH]; intros n o acc.
    - exists []. cbn [trw_go map concat length repl forallb]. rewrite app_nil_r, Nat.add_0_r. auto.
    - destruct c as [t|k cs0 l].
      + cbn [trw_go replace_nth_t]. destruct (n =? i)%nat eqn:En.
        * destruct (IH (S n) (o + glen (GTok t)) (acc ++ [GTok t'])) as (cs' & E & Hl & Hk).
          exists (GTok t' :: cs'). rewrite E. split; [|split].
          -- f_equal; [cbn [map concat leaves app length]; lia | rewrite <- app_assoc; reflexivity].
          -- cbn [map concat leaves app repl]. rewrite En, Hl. reflexivity.
          -- cbn [forallb len_ok andb]. exact Hk.
        * destruct (IH (S n) (o + glen (GTok t)) (acc ++ [GTok t])) as (cs' & E & Hl & Hk).
          exists (GTok t :: cs'). rewrite E. split; [|split].
          -- f_equal; [cbn [map concat leaves app length]; lia | rewrite <- app_assoc; reflexivity].
          -- cbn [map concat leaves app repl]. rewrite En, Hl. reflexivity.
          -- cbn [forallb len_ok andb]. exact Hk.
      + cbn [trw_go]. cbn [PT] in Hc. destruct (Hc n o) as (H1 & H2 & H3).
        destruct (trwN n o (GNode k cs0 l)) as [st1 c'] eqn:Ec. cbn [fst snd] in H1, H2, H3. subst st1.
        destruct (IH (n + length (leaves (GNode k cs0 l)))%nat (o + glen (GNode k cs0 l)) (acc ++ [c']))
          as (cs' & E & Hl & Hk).
        exists (c' :: cs'). rewrite E. split; [|split].
        -- f_equal; [cbn [map concat]; rewrite app_length; lia | rewrite <- app_assoc; reflexivity].
        -- cbn [map concat]. rewrite repl_app, H2, Hl. reflexivity.
        -- cbn [forallb]. rewrite H3, Hk. reflexivity.
  Qed.

  Lemma trw_repl g : PT g.
  Proof.
    induction g as [t|k cs l IH] using green_ind'; [exact I|].
    cbn [PT]. intros n off. rewrite trw_node. change (nat_hook n off (GNode k cs l)) with n.
    destruct (trw_go_repl cs IH n off []) as (cs' & E & Hl & Hk). rewrite E.
    cbn [fst snd app leaves mk_node]. unfold nat_hook.
    split; [reflexivity|split; [exact Hl|]]. apply len_ok_mk_node. exact Hk.
  Qed.
End ReplaceT.

Section ReplaceE.
  Variables (i : nat) (t' : tok).
  Notation rwN := (rw nat (replace_nth_e i t')).

  Definition PE (g : green) : Prop :=
    match g with
    | GTok _ => True
    | GNode _ _ _ =>
      forall n off,
        fst (rwN n off g) = (n + length (leaves g))%nat /\
        leaves (snd (rwN n off g)) = repl n i t' (leaves g) /\
        len_ok (snd (rwN n off g)) = true
    end.

  Lemma rw_go_repl cs : Forall PE cs -> forall n o acc,
    exists cs',
      rw_go nat (replace_nth_e i t') rwN n o cs acc
        = ((n + length (concat (map leaves cs)))%nat, acc ++ cs') /\
      concat (map leaves cs') = repl n i t' (concat (map leaves cs)) /\
      forallb len_ok cs' = true.
  Proof.
    induction 1 as [|c cs Hc _ IH]; intros n o acc.
    - exists []. cbn [rw_go map concat length repl forallb]. rewrite app_nil_r, Nat.add_0_r. auto.
    - destruct c as [t|k cs0 l].
      + cbn [rw_go replace_nth_e]. destruct (n =? i)%nat eqn:En.
        * destruct (IH (S n) (o + glen (GTok t)) (acc ++ [GTok t'])) as (cs' & E & Hl & Hk).
          exists (GTok t' :: cs'). rewrite E. split; [|split].
          -- f_equal; [cbn [map concat leaves app length]; lia | rewrite <- app_assoc; reflexivity].
          -- cbn [map concat leaves app repl]. rewrite En, Hl. reflexivity.
          -- cbn [forallb len_ok andb]. exact Hk.
        * destruct (IH (S n) (o + glen (GTok t)) (acc ++ [GTok t])) as (cs' & E & Hl & Hk).
          exists (GTok t :: cs'). rewrite E. split; [|split].
          -- f_equal; [cbn [map concat leaves app length]; lia | rewrite <- app_assoc; reflexivity].
          -- cbn [map concat leaves app repl]. rewrite En, Hl. reflexivity.
          -- cbn [forallb len_ok andb]. exact Hk.
      + cbn [rw_go replace_nth_e]. cbn [PE] in Hc. destruct (Hc n o) as (H1 & H2 & H3).
        destruct (rwN n o (GNode k cs0 l)) as [st1 c'] eqn:Ec. cbn [fst snd] in H1, H2, H3. subst st1.
        destruct (IH (n + length (leaves (GNode k cs0 l)))%nat (o + glen (GNode k cs0 l)) (acc ++ [c']))
          as (cs' & E & Hl & Hk).
        exists (c' :: cs'). rewrite E. split; [|split].
        -- f_equal; [cbn [map concat]; rewrite app_length; lia | rewrite <- app_assoc; reflexivity].
        -- cbn [map concat]. rewrite repl_app, H2, Hl. reflexivity.
        -- cbn [forallb]. rewrite H3, Hk. reflexivity.
  Qed.

  Lemma rw_repl g : PE g.
  Proof.
    induction g as [t|k cs l IH] using green_ind'; [exact I|].
    cbn [PE]. intros n off. rewrite rw_node.
    destruct (rw_go_repl cs IH n off []) as (cs' & E & Hl & Hk). rewrite E.
    cbn [fst snd app leaves mk_node].
    split; [reflexivity|split; [exact Hl|]]. apply len_ok_mk_node. exact Hk.
  Qed.
End ReplaceE.

Lemma replace_one_token_local_t :
  forall k cs l i t t', let g := GNode k cs l in
    nth_error (leaves g) i = Some t ->
    let g' := token_rewrite nat_hook (replace_nth_t i t') nat_hook 0%nat g in
    let pre := concat (map token_bytes (firstn i (leaves g))) in
    let post := concat (map token_bytes (skipn (S i) (leaves g))) in
    bytes_of g = pre ++ token_bytes t ++ post /\
    bytes_of g' = pre ++ token_bytes t' ++ post /\
    leaves g' = firstn i (leaves g) ++ [t'] ++ skipn (S i) (leaves g) /\
    len_ok g' = true.
Proof.
  intros k cs l i t t' g Hn g' pre post. subst pre post.
  pose proof (trw_repl i t' g) as HP. cbn [PT g] in HP. destruct (HP 0%nat 0) as (_ & H2 & H3).
  exact (replace_final g g' i t t' Hn H2 H3).
Qed.

Lemma replace_one_token_local_e :
  forall k cs l i t t', let g := GNode k cs l in
    nth_error (leaves g) i = Some t ->
    let g' := rewrite (replace_nth_e i t') 0%nat g in
    let pre := concat (map token_bytes (firstn i (leaves g))) in
    let post := concat (map token_bytes (skipn (S i) (leaves g))) in
    bytes_of g = pre ++ token_bytes t ++ post /\
    bytes_of g' = pre ++ token_bytes t' ++ post /\
    leaves g' = firstn i (leaves g) ++ [t'] ++ skipn (S i) (leaves g) /\
    len_ok g' = true.
Proof.
  intros k cs l i t t' g Hn g' pre post. subst pre post.
  pose proof (rw_repl i t' g) as HP. cbn [PE g] in HP. destruct (HP 0%nat 0) as (_ & H2 & H3).
  exact (replace_final g g' i t t' Hn H2 H3).
Qed.

Lemma replace_text_local :
  forall k cs l i t new, let g := GNode k cs l in
    nth_error (leaves g) i = Some t ->
    let g' := token_rewrite nat_hook (replace_nth_t i (clone_with_text t new)) nat_hook 0%nat g in
    let pre := concat (map token_bytes (firstn i (leaves g))) ++ trivia_bytes (t_trivia t) in
    let post := concat (map token_bytes (skipn (S i) (leaves g))) in
    bytes_of g = pre ++ t_text t ++ post /\ bytes_of g' = pre ++ new ++ post.
Proof.
  intros k cs l i t new g Hn g' pre post. subst pre post.
  destruct (replace_one_token_local_t k cs l i t (clone_with_text t new) Hn) as (H1 & H2 & _ & _).
  fold g in H1, H2. fold g' in H2. rewrite H1, H2.
  assert (Hc : token_bytes (clone_with_text t new) = trivia_bytes (t_trivia t) ++ new) by reflexivity.
  assert (Ht : token_bytes t = trivia_bytes (t_trivia t) ++ t_text t) by reflexivity.
  rewrite Hc, Ht, <- !app_assoc. split; reflexivity.
Qed.

(* ---------------------------------------------------------------------------------------------- *)
(* Non-vacuity                                                                                    *)
(* ---------------------------------------------------------------------------------------------- *)

Lemma ex_build :
  forallb op_ok [OStart 1; OPush (mkTok KIdentifier [97] []); OStart 2; OEnd; OStart 3;
                 OPush (mkTok KIdentifier [98] [Spaces 1; LineC [120]; LFs 1]); OEnd; OStartAt 1 4; OEnd;
                 OPush (mkTok KEof [] [LFs 1]); OEnd] = true /\
  build [OStart 1; OPush (mkTok KIdentifier [97] []); OStart 2; OEnd; OStart 3;
         OPush (mkTok KIdentifier [98] [Spaces 1; LineC [120]; LFs 1]); OEnd; OStartAt 1 4; OEnd;
         OPush (mkTok KEof [] [LFs 1]); OEnd]
    = Some (GNode 1 [GTok (mkTok KIdentifier [97] []);
                     GNode 4 [GNode 3 [GTok (mkTok KIdentifier [98] [Spaces 1; LineC [120]; LFs 1])] 6] 6;
                     GTok (mkTok KEof [] [LFs 1])] 8) /\
  bytes_of (GNode 1 [GTok (mkTok KIdentifier [97] []);
                     GNode 4 [GNode 3 [GTok (mkTok KIdentifier [98] [Spaces 1; LineC [120]; LFs 1])] 6] 6;
                     GTok (mkTok KEof [] [LFs 1])] 8) = [97; 32; 45; 45; 120; 10; 98; 10] /\
  map fst (red_walk 0 (GNode 1 [GTok (mkTok KIdentifier [97] []);
                     GNode 4 [GNode 3 [GTok (mkTok KIdentifier [98] [Spaces 1; LineC [120]; LFs 1])] 6] 6;
                     GTok (mkTok KEof [] [LFs 1])] 8)) = [0; 0; 1; 1; 1; 7] /\
  leaf_offsets 0 (GNode 1 [GTok (mkTok KIdentifier [97] []);
                     GNode 4 [GNode 3 [GTok (mkTok KIdentifier [98] [Spaces 1; LineC [120]; LFs 1])] 6] 6;
                     GTok (mkTok KEof [] [LFs 1])] 8)
    = [(0, mkTok KIdentifier [97] []); (1, mkTok KIdentifier [98] [Spaces 1; LineC [120]; LFs 1]); (7, mkTok KEof [] [LFs 1])].
Proof.
  split; [vm_compute; reflexivity|split; [vm_compute; reflexivity|split; [vm_compute; reflexivity|
  split; [vm_compute; reflexivity|vm_compute; reflexivity]]]].
Qed.

Lemma ex_replace :
  let ta := mkTok KIdentifier [97] [] in
  let tb := mkTok KIdentifier [98] [Spaces 1; LineC [120]; LFs 1] in
  let te := mkTok KEof [] [LFs 1] in
  let tree := GNode 1 [GTok ta; GNode 4 [GNode 3 [GTok tb] 6] 6; GTok te] 8 in
  nth_error (leaves tree) 1 = Some tb /\ len_ok tree = true /\
  token_rewrite nat_hook (replace_nth_t 1 (clone_with_text tb [99; 100; 101])) nat_hook 0%nat tree
    = GNode 1 [GTok ta; GNode 4 [GNode 3 [GTok (clone_with_text tb [99; 100; 101])] 8] 8; GTok te] 10 /\
  rewrite (replace_nth_e 1 (clone_with_text tb [99; 100; 101])) 0%nat tree
    = GNode 1 [GTok ta; GNode 4 [GNode 3 [GTok (clone_with_text tb [99; 100; 101])] 8] 8; GTok te] 10.
Proof.
  intros ta tb te tree.
  split; [vm_compute; reflexivity|split; [vm_compute; reflexivity|split; vm_compute; reflexivity]].
Qed.

(* a trivia-only replacement (clone_with_leading_trivia), through both interfaces: only the bytes of the
   token's leading trivia change *)
Lemma replace_trivia_local :
  forall k cs l i t tr, let g := GNode k cs l in
    nth_error (leaves g) i = Some t ->
    let t' := clone_with_leading_trivia t tr in
    let g1 := token_rewrite nat_hook (replace_nth_t i t') nat_hook 0%nat g in
    let g2 := rewrite (replace_nth_e i t') 0%nat g in
    let pre := concat (map token_bytes (firstn i (leaves g))) in
    let post := t_text t ++ concat (map token_bytes (skipn (S i) (leaves g))) in
    bytes_of g = pre ++ trivia_bytes (t_trivia t) ++ post /\
    bytes_of g1 = pre ++ trivia_bytes tr ++ post /\ bytes_of g2 = pre ++ trivia_bytes tr ++ post /\
    len_ok g1 = true /\ len_ok g2 = true.
Proof.
  intros k cs l i t tr g Hn t' g1 g2 pre post.
  destruct (replace_one_token_local_t k cs l i t t' Hn) as (A & B & _ & D).
  destruct (replace_one_token_local_e k cs l i t t' Hn) as (_ & B2 & _ & D2).
  subst pre post. unfold token_bytes at 2 in A. unfold token_bytes at 2 in B. unfold token_bytes at 2 in B2.
  cbn [t_trivia t_text clone_with_leading_trivia t'] in *.
  rewrite <- !app_assoc in A, B, B2.
  repeat split; assumption.
Qed.

(* Token::set_leading_trivia: the reported length is the printed length of the modified token; putting such a
   token into a tree through either rewriter keeps every cached length right (seeded change m8: a stale cached
   token length) *)
Lemma set_leading_trivia_len :
  forall t tr,
    tok_len (set_leading_trivia t tr) = trivia_len tr + text_len t /\
    tok_len (set_leading_trivia t tr) = N.of_nat (length (token_bytes (set_leading_trivia t tr))) /\
    token_bytes (set_leading_trivia t tr) = trivia_bytes tr ++ t_text t.
Proof.
  intros t tr. split; [reflexivity|]. split; [apply tok_len_bytes|reflexivity].
Qed.

Lemma replace_set_trivia_consistent :
  forall k cs l i t tr, let g := GNode k cs l in
    nth_error (leaves g) i = Some t ->
    let t' := clone_with_token t (set_leading_trivia t tr) in
    let g1 := token_rewrite nat_hook (replace_nth_t i t') nat_hook 0%nat g in
    let g2 := rewrite (replace_nth_e i t') 0%nat g in
    len_ok g1 = true /\ len_ok g2 = true /\
    glen g1 = N.of_nat (length (bytes_of g1)) /\ glen g2 = N.of_nat (length (bytes_of g2)) /\
    bytes_of g1 = bytes_of g2.
Proof.
  intros k cs l i t tr g Hn t' g1 g2.
  destruct (replace_one_token_local_t k cs l i t t' Hn) as (_ & B & _ & D).
  destruct (replace_one_token_local_e k cs l i t t' Hn) as (_ & B2 & _ & D2).
  split; [exact D|]. split; [exact D2|].
  split; [apply glen_bytes; exact D|]. split; [apply glen_bytes; exact D2|].
  subst g1 g2 g. cbv zeta in B, B2. etransitivity; [exact B|symmetry; exact B2].
Qed.

(* ---- glue with the lexer proofs (added by the coordinator) ---- *)
From RH Require Import Lex.SynLexerProofs.

Lemma parse_lossless :
  forall max kws bs ts ops root errs rest d,
    token_stream kws bs = Some ts -> parse_with max ops ts = Some (root, errs, rest, d) ->
    bytes_of root ++ printed rest ++ printed (deferred_list d) = bs /\
    len_ok root = true /\
    (rest = [] -> d = None ->
       bytes_of root = bs /\ leaves root = map fst ts /\ glen root = N.of_nat (length bs)).
Proof.
  intros max kws bs ts ops root errs rest d Hts Hp.
  destruct (token_stream_lossless kws bs) as (ts' & Hts' & Hpr & _).
  rewrite Hts in Hts'. inversion Hts'; subst ts'; clear Hts'.
  destruct (parse_lossless_gen max ts ops root errs rest d Hp) as (Hb & Hok & Hl).
  rewrite Hpr in Hb.
  split; [exact Hb|]. split; [exact Hok|].
  intros Hr Hd. subst rest d. cbn [deferred_list map concat app] in Hb. rewrite app_nil_r in Hb.
  split; [exact Hb|]. split; [apply Hl; reflexivity|].
  rewrite (glen_bytes root Hok), Hb. reflexivity.
Qed.

Lemma error_spans_inside :
  forall max kws bs ts ops root errs rest d,
    token_stream kws bs = Some ts -> parse_with max ops ts = Some (root, errs, rest, d) ->
    Forall (fun sp : N * N => fst sp <= snd sp /\ snd sp <= N.of_nat (length bs)) errs.
Proof.
  intros max kws bs ts ops root errs rest d Hts Hp.
  destruct (token_stream_lossless kws bs) as (ts' & Hts' & Hpr & _).
  rewrite Hts in Hts'. inversion Hts'; subst ts'; clear Hts'.
  pose proof (error_spans_inside_gen max ts ops root errs rest d Hp) as H.
  rewrite Hpr in H. exact H.
Qed.

Lemma parse_lossless_bail :
  forall max kws bs ts ops s1 dts s2 root,
    token_stream kws bs = Some ts -> p_run max ops (p_init ts) = POk s1 ->
    p_deferred s1 = Some dts -> p_depth s1 = 1%nat ->
    p_step max PEnd s1 = POk s2 -> b_end (p_builder s2) = Some root ->
    p_stream s2 = [] /\ p_deferred s2 = None /\ bytes_of root = bs /\ leaves root = map fst ts /\
    len_ok root = true /\ glen root = N.of_nat (length bs).
Proof.
  intros max kws bs ts ops s1 dts s2 root Hts Hrun Hdef Hdepth Hstep Hend.
  destruct (token_stream_lossless kws bs) as (ts' & Hts' & Hpr & _).
  rewrite Hts in Hts'. inversion Hts'; subst ts'; clear Hts'.
  destruct (parse_bail_gen max ts ops s1 dts s2 root Hrun Hdef Hdepth Hstep Hend)
    as (H1 & H2 & H3 & H4 & H5).
  rewrite Hpr in H3.
  split; [exact H1|split; [exact H2|split; [exact H3|split; [exact H4|split; [exact H5|]]]]].
  rewrite (glen_bytes root H5), H3. reflexivity.
Qed.

Lemma ex_parse :
  exists ts root, token_stream kw2008 [97; 32; 36; 32; 98; 32; 47; 42] = Some ts /\
    parse_with 1024 [PStart 1; PTake; PStart 2; PRecover 2 false; PEnd; PTake; PEnd] ts
      = Some (root, [(2, 3); (2, 5); (6, 8)], [], None) /\
    bytes_of root = [97; 32; 36; 32; 98; 32; 47; 42].
Proof.
  eexists. eexists. split; [vm_compute; reflexivity|]. split; vm_compute; reflexivity.
Qed.

Lemma ex_bail :
  exists ts root s1, token_stream kw2008 [97; 32; 98; 32; 36; 32; 100] = Some ts /\
    parse_with 2 [PStart 1; PTake; PStart 2; PTake; PStart 3; PTake; PEnd; PEnd; PEnd] ts
      = Some (root, [(4, 5); (4, 5)], [], None) /\
    bytes_of root = [97; 32; 98; 32; 36; 32; 100] /\
    p_run 2 [PStart 1; PTake; PStart 2; PTake; PStart 3; PTake; PEnd; PEnd] (p_init ts) = POk s1 /\
    p_depth s1 = 1%nat /\ p_deferred s1 <> None.
Proof.
  eexists. eexists. eexists.
  split; [vm_compute; reflexivity|]. split; [vm_compute; reflexivity|].
  split; [vm_compute; reflexivity|]. split; [vm_compute; reflexivity|].
  split; [vm_compute; reflexivity|]. vm_compute. intros H; discriminate H.
Qed.

(* F25: with debug assertions the contract violation is a panic, without them an inverted span *)
Lemma recover_contract_violation :
  exists s, p_recover 0 true s = PCrash /\
    exists s', p_recover_noassert 0 true s = POk s' /\
      exists sp, In sp (p_errors s') /\ snd sp < fst sp.
Proof.
  exists (p_init [(mkTok KIdentifier [108] [Spaces 1], None); (mkTok KColon [58] [], None);
                  (mkTok KEof [] [], None)]).
  split; [vm_compute; reflexivity|].
  eexists. split; [vm_compute; reflexivity|].
  exists (1, 0). split; [cbn; left; reflexivity|]. vm_compute. reflexivity.
Qed.
