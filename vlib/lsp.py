"""Minimal LSP client driving the vhdl_ls binary over stdio (python3 stdlib only).

Quiescence is detected deterministically, not by time-outs: the server is single threaded and handles
messages in order, so `sync()` sends a request with an unknown method and waits for its (MethodNotFound)
response; everything the server emitted for earlier messages has then been received.
"""
import json
import os
import queue
import subprocess
import threading
import time

VHDL_LIBRARIES = "/repo/vhdl_libraries"


class ServerDied(Exception):
    pass


class LS:
    def __init__(self, binpath, root, libraries=VHDL_LIBRARIES, extra_args=(), env=None):
        args = [binpath, "--silent"]
        if libraries:
            args += ["-l", libraries]
        args += list(extra_args)
        self.root = root
        self.p = subprocess.Popen(args, stdin=subprocess.PIPE, stdout=subprocess.PIPE, stderr=subprocess.PIPE,
                                  cwd=root, env=env)
        self.q = queue.Queue()
        self.id = 0
        self.log = []          # every message received, in order
        self.stderr_buf = []
        threading.Thread(target=self._rd, daemon=True).start()
        threading.Thread(target=self._rd_err, daemon=True).start()

    # ---- transport
    def _rd(self):
        f = self.p.stdout
        try:
            while True:
                hdr = {}
                line = f.readline()
                if not line:
                    self.q.put(None)
                    return
                while line.strip():
                    k, v = line.decode("utf-8", "replace").split(":", 1)
                    hdr[k.strip().lower()] = v.strip()
                    line = f.readline()
                n = int(hdr["content-length"])
                body = f.read(n)
                self.q.put(json.loads(body))
        except Exception:
            self.q.put(None)

    def _rd_err(self):
        for line in self.p.stderr:
            self.stderr_buf.append(line.decode("utf-8", "replace"))
            if len(self.stderr_buf) > 200:
                del self.stderr_buf[:100]

    def send_raw(self, obj):
        b = json.dumps(obj).encode("utf-8")
        try:
            self.p.stdin.write(b"Content-Length: %d\r\n\r\n" % len(b) + b)
            self.p.stdin.flush()
        except (BrokenPipeError, OSError):
            raise ServerDied("stdin closed; exit=%s stderr=%s" % (self.p.poll(), "".join(self.stderr_buf[-5:])))

    def request(self, method, params, rid=None):
        if rid is None:
            self.id += 1
            rid = self.id
        msg = {"jsonrpc": "2.0", "id": rid, "method": method}
        if params is not None:
            msg["params"] = params
        self.send_raw(msg)
        return rid

    def notify(self, method, params):
        msg = {"jsonrpc": "2.0", "method": method}
        if params is not None:
            msg["params"] = params
        self.send_raw(msg)

    def _get(self, timeout):
        try:
            m = self.q.get(timeout=timeout)
        except queue.Empty:
            return "TIMEOUT"
        if m is None:
            return "EOF"
        self.log.append(m)
        # answer the server's own requests (client/registerCapability) with null
        if isinstance(m, dict) and "method" in m and "id" in m:
            try:
                self.send_raw({"jsonrpc": "2.0", "id": m["id"], "result": None})
            except ServerDied:
                pass
        return m

    def wait_response(self, rid, timeout=60.0):
        """Collect messages until the response with id `rid`; returns (response, other_messages).
        Raises ServerDied on EOF / timeout."""
        others = []
        t_end = time.time() + timeout
        while True:
            m = self._get(max(0.05, t_end - time.time()))
            if m == "EOF":
                raise ServerDied("EOF; exit=%s stderr=%s" % (self.p.poll(), "".join(self.stderr_buf[-8:])))
            if m == "TIMEOUT":
                raise ServerDied("timeout waiting for response %r; exit=%s" % (rid, self.p.poll()))
            if isinstance(m, dict) and m.get("id") == rid and "method" not in m:
                return m, others
            others.append(m)

    def call(self, method, params, timeout=60.0):
        rid = self.request(method, params)
        resp, others = self.wait_response(rid, timeout)
        return resp, others

    def sync(self, timeout=120.0):
        """Barrier: returns all messages (notifications etc.) received before the barrier's response."""
        rid = self.request("$verif/sync", {})
        _resp, others = self.wait_response(rid, timeout)
        return others

    # ---- lifecycle
    def initialize(self, caps=None, init_options=None, timeout=120.0):
        params = {"processId": None, "rootUri": "file://" + self.root,
                  "capabilities": caps if caps is not None else
                  {"textDocument": {"publishDiagnostics": {"relatedInformation": True}}}}
        if init_options is not None:
            params["initializationOptions"] = init_options
        resp, others = self.call("initialize", params, timeout)
        self.notify("initialized", {})
        others += self.sync(timeout)
        return resp, others

    def shutdown(self, timeout=20.0):
        """shutdown + exit; returns the exit code (None if it had to be killed)."""
        try:
            rid = self.request("shutdown", None)
            self.wait_response(rid, timeout)
            self.notify("exit", None)
        except ServerDied:
            pass
        try:
            self.p.stdin.close()
        except Exception:
            pass
        try:
            return self.p.wait(timeout=timeout)
        except subprocess.TimeoutExpired:
            self.p.kill()
            return None

    def kill(self):
        try:
            self.p.kill()
        except Exception:
            pass

    def alive(self):
        return self.p.poll() is None


def uri(path):
    return "file://" + path


def publish_map(messages, into=None):
    """Fold publishDiagnostics notifications into {uri: diagnostics-list} (last one wins)."""
    view = {} if into is None else into
    for m in messages:
        if isinstance(m, dict) and m.get("method") == "textDocument/publishDiagnostics":
            view[m["params"]["uri"]] = m["params"]["diagnostics"]
    return view


def canon_diag(d):
    rel = sorted((r["location"]["uri"], json.dumps(r["location"]["range"], sort_keys=True), r["message"])
                 for r in (d.get("relatedInformation") or []))
    return (json.dumps(d["range"], sort_keys=True), d.get("severity"), str(d.get("code")), d["message"], tuple(rel))


def canon_view(view):
    """Canonical client view: files with an empty list are the same as files never mentioned."""
    return {u: sorted(canon_diag(d) for d in ds) for u, ds in view.items() if ds}
