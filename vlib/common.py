"""Shared machinery of the /verif checks (python3 stdlib only).

Every check does, in this order:
  1. (re)build the Coq theorems of the property (`make Props/Cnn.vo`, full .vo) and read their
     `Print Assumptions` output against the allow-list;
  2. rebuild the Rust harness against /repo's *current working tree* (path dependencies, hooks on);
  3. run corpus + generated cases through implementation and extracted model, compare;
  4. cross-check a sample of the cases inside Coq (`vm_compute`);
  5. write evidence, print KNOWN-FINDING / VIOLATION lines.
"""
import hashlib
import json
import os
import re
import subprocess
import sys
import time

VERIF = os.path.dirname(os.path.dirname(os.path.abspath(__file__)))
# The checks run against /repo.  For experiments (seeded mutations in a scratch worktree) VERIF_REPO=<dir> points
# the harness at another checkout: the harness crate is copied with rewritten path dependencies and gets its own
# target, run and evidence directories under .cache/alt/<key>/ so that nothing of the real run is disturbed.
REPO = os.path.abspath(os.environ.get("VERIF_REPO", "/repo"))
ALT = None if REPO == "/repo" else re.sub(r"[^A-Za-z0-9]+", "_", REPO).strip("_")
CACHE = os.path.join(VERIF, ".cache")
ALTROOT = os.path.join(CACHE, "alt", ALT) if ALT else None
COQ = os.path.join(VERIF, "coq")
OCAML = os.path.join(VERIF, "ocaml")
HARNESS_SRC = os.path.join(VERIF, "harness")
HARNESS = os.path.join(ALTROOT, "harness") if ALT else HARNESS_SRC
TARGET = os.path.join(ALTROOT, "target") if ALT else os.path.join(CACHE, "target")
OCAMLBUILD = os.path.join(CACHE, "ocamlbuild")
EVIDENCE_DIR = os.path.join(ALTROOT, "evidence") if ALT else os.path.join(VERIF, "evidence")
GUARD = "vhdl_ls_rust_hdl_verif"


def _sync_alt_harness():
    """Copy harness/ to the alternative location with path dependencies rewritten to REPO."""
    import shutil
    os.makedirs(HARNESS, exist_ok=True)
    for root, dirs, files in os.walk(HARNESS_SRC):
        rel = os.path.relpath(root, HARNESS_SRC)
        if rel.startswith("target"):
            continue
        os.makedirs(os.path.join(HARNESS, rel), exist_ok=True)
        for f in files:
            src = os.path.join(root, f)
            dst = os.path.join(HARNESS, rel, f)
            data = open(src, "rb").read()
            if f == "Cargo.toml":
                data = data.replace(b'"/repo/', ('"%s/' % REPO).encode())
            if f == "config.toml":
                data = re.sub(rb'target-dir = "[^"]*"', ('target-dir = "%s"' % TARGET).encode(), data)
            if not os.path.exists(dst) or open(dst, "rb").read() != data:
                open(dst, "wb").write(data)
    shutil.copy(os.path.join(REPO, "Cargo.lock"), os.path.join(HARNESS, "Cargo.lock"))

ALLOWED_AXIOMS = {
    # axioms declared by the standard library that a property file may depend on; each use is
    # listed in DESIGN.md section 6.  Empty for most properties ("Closed under the global context").
    "functional_extensionality_dep", "FunctionalExtensionality.functional_extensionality_dep",
    "Eqdep.Eq_rect_eq.eq_rect_eq", "eq_rect_eq", "JMeq_eq", "JMeq.JMeq_eq",
    "proof_irrelevance", "ProofIrrelevance.proof_irrelevance", "classic", "Classical_Prop.classic",
    "propositional_extensionality", "PropExtensionality.propositional_extensionality",
}


def env_base():
    e = dict(os.environ)
    e["CARGO_NET_OFFLINE"] = "true"
    e["CARGO_TARGET_DIR"] = TARGET
    e.setdefault("LC_ALL", "C.UTF-8")
    return e


def run(cmd, cwd=None, timeout=None, env=None, stdin=None, check=False):
    """Run a command, return (returncode, stdout+stderr text). rc 124 on timeout."""
    try:
        p = subprocess.run(cmd, cwd=cwd, env=env or env_base(), stdin=stdin, stdout=subprocess.PIPE,
                           stderr=subprocess.STDOUT, timeout=timeout, shell=isinstance(cmd, str))
        out = p.stdout.decode("utf-8", "replace")
        if check and p.returncode != 0:
            raise RuntimeError("command failed: %s\n%s" % (cmd, out[-4000:]))
        return p.returncode, out
    except subprocess.TimeoutExpired as ex:
        out = (ex.stdout or b"").decode("utf-8", "replace")
        if check:
            raise RuntimeError("command timed out: %s\n%s" % (cmd, out[-4000:]))
        return 124, out


def seed():
    try:
        return int(os.environ.get("VERIF_SEED", "1"))
    except ValueError:
        return 1


def rundir(prop):
    d = os.path.join(ALTROOT if ALT else CACHE, "run", prop)
    os.makedirs(d, exist_ok=True)
    return d


def replaydir():
    d = os.path.join(ALTROOT if ALT else CACHE, "replay")
    os.makedirs(d, exist_ok=True)
    return d


# ----------------------------------------------------------------------------------------------
# Coq side
# ----------------------------------------------------------------------------------------------
LINT_RE = re.compile(
    r"\b(Admitted|admit|Axiom|Axioms|Parameter|Parameters|Conjecture|Conjectures|Abort All)\b|"
    r"Unset\s+Guard|bypass_check|type-in-type|impredicative-set|Unset\s+Positivity|Unset\s+Universe|"
    r"Admit\s+Obligations")


def strip_coq_comments(text):
    out = []
    depth = 0
    i = 0
    n = len(text)
    while i < n:
        if text.startswith("(*", i):
            depth += 1
            i += 2
        elif text.startswith("*)", i) and depth > 0:
            depth -= 1
            i += 2
        else:
            if depth == 0:
                out.append(text[i])
            elif text[i] == "\n":
                out.append("\n")
            i += 1
    return "".join(out)


def coq_files():
    res = []
    for root, _dirs, files in os.walk(COQ):
        for f in files:
            if f.endswith(".v"):
                res.append(os.path.join(root, f))
    ex = os.path.join(OCAML, "extract")
    if os.path.isdir(ex):
        res += [os.path.join(ex, f) for f in os.listdir(ex) if f.endswith(".v")]
    return sorted(res)


def coq_deps(prop):
    """The .v files Props/<prop>.v transitively depends on (itself included), plus the extraction files."""
    rc, out = run(["coqdep", "-Q", ".", "RH", "-sort", "Props/%s.v" % prop], cwd=COQ, timeout=300)
    files = [os.path.join(COQ, f) for f in out.split() if f.endswith(".v") and os.path.exists(os.path.join(COQ, f))]
    ex = os.path.join(OCAML, "extract")
    if os.path.isdir(ex):
        files += [os.path.join(ex, f) for f in sorted(os.listdir(ex)) if f.endswith(".v") and f.lower().startswith(prop.lower())]
    return files


def coq_lint(prop=None):
    """No Admitted/admit/Axiom/Parameter/... anywhere; Variable/Hypothesis only inside a Section.
    With `prop`: only the files that property's theorems depend on (other properties' work in progress
    must not disturb this check); without: every .v file of the development."""
    problems = []
    for path in (coq_deps(prop) if prop else coq_files()):
        text = strip_coq_comments(open(path, encoding="utf-8").read())
        depth = 0
        for lineno, line in enumerate(text.split("\n"), 1):
            s = line.strip()
            if re.match(r"^(Section|Module\s+Type)\b", s):
                depth += 1 if s.startswith("Section") else 0
            if re.match(r"^End\b", s) and depth > 0:
                depth -= 1
            m = LINT_RE.search(line)
            if m:
                problems.append("%s:%d: forbidden `%s`" % (path, lineno, m.group(0)))
            if depth == 0 and re.match(r"^(Variable|Variables|Hypothesis|Hypotheses|Context)\b", s):
                problems.append("%s:%d: `%s` outside a Section" % (path, lineno, s.split()[0]))
    return problems


def coq_build(targets, timeout=3000):
    """Full .vo build of the given targets (relative to coq/). Returns (ok, log)."""
    rc, out = run(["./build.sh"] + list(targets), cwd=COQ, timeout=timeout)
    return rc == 0, out


def theorem_names(prop):
    path = os.path.join(COQ, "Props", prop + ".v")
    text = strip_coq_comments(open(path, encoding="utf-8").read())
    return re.findall(r"^\s*(?:Theorem|Example|Lemma|Corollary)\s+([A-Za-z0-9_']+)", text, re.M)


def coq_assumptions(prop, names=None):
    """Print Assumptions of every theorem of Props/<prop>.v -> {name: [axioms]}; [] = closed."""
    names = names or theorem_names(prop)
    d = os.path.join(CACHE, "assum")
    os.makedirs(d, exist_ok=True)
    path = os.path.join(d, "Assum_%s.v" % prop)
    with open(path, "w") as f:
        f.write("From RH Require Import Props.%s.\n" % prop)
        for n in names:
            f.write('Goal True. idtac "@@BEGIN %s". Abort.\nPrint Assumptions %s.\n' % (n, n))
        f.write('Goal True. idtac "@@END". Abort.\n')
    rc, out = run(["coqc", "-Q", COQ, "RH", path], cwd=d, timeout=600)
    if rc != 0:
        return None, out
    res = {}
    cur = None
    for line in out.split("\n"):
        m = re.match(r"@@BEGIN (\S+)", line)
        if m:
            cur = m.group(1)
            res[cur] = []
            continue
        if line.startswith("@@END"):
            cur = None
            continue
        if cur is None:
            continue
        if "Closed under the global context" in line or line.startswith("Axioms:") or not line.strip():
            continue
        m = re.match(r"^([A-Za-z_][A-Za-z0-9_.']*)\s*:", line)
        if m:
            res[cur].append(m.group(1))
    return res, out


def coqchk(prop, timeout=1500):
    rc, out = run(["coqchk", "-silent", "-o", "-Q", COQ, "RH", "RH.Props." + prop], cwd=COQ, timeout=timeout)
    return rc == 0, out


def ensure_coq_deps(vfile):
    """Compile the RH modules a generated .v file requires (a fresh checkout only builds the dependency
    cone of the claimed Props files)."""
    rc, out = run(["coqdep", "-Q", COQ, "RH", vfile], cwd=COQ, timeout=300)
    deps = sorted({os.path.relpath(w, COQ) for w in out.split() if w.endswith(".vo") and os.path.abspath(w).startswith(COQ + os.sep)})
    missing = [d for d in deps if not os.path.exists(os.path.join(COQ, d))]
    if missing:
        coq_build(missing)


def coq_eval_bool(prop, tag, preamble, body_bool, timeout=900):
    """Evaluate a closed boolean Gallina term with vm_compute inside Coq; returns (True/False/None, log)."""
    d = os.path.join(CACHE, "casesv")
    os.makedirs(d, exist_ok=True)
    path = os.path.join(d, "Cases_%s_%s.v" % (prop, tag))
    with open(path, "w") as f:
        f.write(preamble + "\n")
        f.write("Definition verdict : bool := %s.\n" % body_bool)
        f.write('Goal True. let v := eval vm_compute in verdict in idtac "@@VERDICT" v. Abort.\n')
    ensure_coq_deps(path)
    rc, out = run(["coqc", "-Q", COQ, "RH", path], cwd=d, timeout=timeout)
    if rc != 0:
        return None, out
    m = re.search(r"@@VERDICT (\w+)", out)
    if not m:
        return None, out
    return m.group(1) == "true", out


# ----------------------------------------------------------------------------------------------
# builds
# ----------------------------------------------------------------------------------------------
def ocaml_build(exe, timeout=1800):
    rc, out = run(["./build.sh", exe], cwd=OCAML, timeout=timeout)
    return rc == 0, out, os.path.join(OCAMLBUILD, exe, exe + ".native")


def harness_build(bin_name, timeout=3000):
    """Build one harness binary against /repo's current working tree with the hooks enabled."""
    env = env_base()
    env["RUSTFLAGS"] = "--cfg %s --cap-lints allow" % GUARD
    if ALT:
        _sync_alt_harness()
    lock_src = os.path.join(REPO, "Cargo.lock")
    lock_dst = os.path.join(HARNESS, "Cargo.lock")
    if not os.path.exists(lock_dst):
        import shutil
        shutil.copy(lock_src, lock_dst)
    rc, out = run(["cargo", "build", "--release", "--offline", "--bin", bin_name], cwd=HARNESS, env=env,
                  timeout=timeout)
    return rc == 0, out, os.path.join(TARGET, "release", bin_name)


def vhdl_ls_build(timeout=3000):
    """Build the vhdl_ls binary from /repo's working tree (hooks on) into .cache/target."""
    env = env_base()
    env["RUSTFLAGS"] = "--cfg %s --cap-lints allow" % GUARD
    rc, out = run(["cargo", "build", "--release", "--offline", "-p", "vhdl_ls"], cwd=REPO, env=env, timeout=timeout)
    return rc == 0, out, os.path.join(TARGET, "release", "vhdl_ls")


def repo_head():
    rc, out = run(["git", "-C", REPO, "rev-parse", "HEAD"])
    dirty = run(["git", "-C", REPO, "status", "--porcelain", "--untracked-files=no"])[1].strip()
    return out.strip() + ("+dirty" if dirty else "")


# ----------------------------------------------------------------------------------------------
# known findings
# ----------------------------------------------------------------------------------------------
def known_findings(prop):
    path = os.path.join(VERIF, "known_findings.json")
    if not os.path.exists(path):
        return []
    data = json.load(open(path))
    return [e for e in data.get("findings", []) if e.get("property") == prop]


# ----------------------------------------------------------------------------------------------
# result / evidence
# ----------------------------------------------------------------------------------------------
class Result:
    def __init__(self, prop, tier, level="proof"):
        self.prop = prop
        self.tier = tier
        self.level = level
        self.t0 = time.time()
        self.violations = []        # (replay_path, no_failing_input, text)
        self.known = []
        self.coverage = {}
        self.assumptions = []
        self.seen = set()
        self.evaluations = 0
        self.nontrivial = set()
        self.samples = []

    # -- case accounting
    def count_case(self, canonical, nontrivial):
        self.evaluations += 1
        if nontrivial:
            self.nontrivial.add(hashlib.sha1(canonical.encode("utf-8", "replace")).digest()[:10])

    def add_sample(self, s, limit=6):
        if len(self.samples) < limit:
            self.samples.append(s)

    # -- reporting
    def violation(self, what, replay_obj, no_failing_input=False):
        n = len(self.violations)
        path = os.path.join(replaydir(), "%s-%s-%d.json" % (self.prop, self.tier, n))
        replay_obj = dict(replay_obj)
        replay_obj.setdefault("property", self.prop)
        replay_obj["what"] = what
        replay_obj["repo_head"] = repo_head()
        with open(path, "w") as f:
            json.dump(replay_obj, f, indent=1, ensure_ascii=False)
        self.violations.append((path, no_failing_input, what))

    def known_finding(self, text):
        self.known.append(text)

    def finish(self):
        wall = time.time() - self.t0
        cov = dict(self.coverage)
        cov.setdefault("evaluations", self.evaluations)
        cov.setdefault("distinct_nontrivial", len(self.nontrivial))
        cov.setdefault("samples", self.samples if self.samples else ["(no generated cases in this run)"])
        ev = {
            "property_id": self.prop,
            "tier": self.tier,
            "seed": seed(),
            "level": self.level,
            "coverage": cov,
            "assumptions": self.assumptions,
            "wall_s": round(wall, 2),
            "violations": len(self.violations),
            "known_findings_reproduced": self.known,
            "repo_head": repo_head(),
        }
        os.makedirs(EVIDENCE_DIR, exist_ok=True)
        with open(os.path.join(EVIDENCE_DIR, self.prop + ".json"), "w") as f:
            json.dump(ev, f, indent=1, ensure_ascii=False)
            f.write("\n")
        for k in self.known:
            print("KNOWN-FINDING: property=%s %s" % (self.prop, k))
        shown = 0
        for path, nf, what in self.violations:
            if shown < 5:
                print("# %s" % what[:600])
            shown += 1
        # one VIOLATION line per distinct replay (first 20)
        for path, nf, what in self.violations[:5]:
            print("VIOLATION property=%s replay=%s%s" % (self.prop, path, " no-failing-input-found" if nf else ""))
        sys.stdout.flush()
        return 1 if self.violations else 0


def proof_stage(res, prop, extra_targets=(), thorough=False):
    """Stage 1 of every check: theorems build, lint, assumptions. Fills res.coverage proof keys.
    Returns True when all obligations are discharged."""
    ok_all = True
    problems = coq_lint(prop)
    if problems:
        res.violation("Coq source lint failed: " + "; ".join(problems[:5]),
                      {"kind": "theorem", "theorem": "source-lint", "detail": problems}, no_failing_input=True)
        ok_all = False
    targets = ["Props/%s.vo" % prop] + list(extra_targets)
    ok, log = coq_build(targets)
    names = theorem_names(prop)
    discharged = 0
    axioms = {}
    if not ok:
        ok_all = False
        m = re.search(r'File "([^"]+)", line (\d+)', log)
        res.violation("Coq build of %s failed (%s): the theorems no longer check" % (prop, m.group(0) if m else "?"),
                      {"kind": "theorem", "theorem": "Props/%s.v" % prop, "log": log[-3000:]}, no_failing_input=True)
    else:
        assum, alog = coq_assumptions(prop, names)
        if assum is None:
            ok_all = False
            res.violation("Print Assumptions run failed for %s" % prop,
                          {"kind": "theorem", "theorem": "Props/%s.v" % prop, "log": alog[-3000:]}, no_failing_input=True)
        else:
            for n in names:
                ax = assum.get(n)
                if ax is None:
                    ok_all = False
                    res.violation("no Print Assumptions output for %s" % n,
                                  {"kind": "theorem", "theorem": n}, no_failing_input=True)
                    continue
                bad = [a for a in ax if a.split(".")[-1] not in {x.split(".")[-1] for x in ALLOWED_AXIOMS}]
                axioms[n] = ax
                if bad:
                    ok_all = False
                    res.violation("theorem %s depends on axioms outside the allow-list: %s" % (n, bad),
                                  {"kind": "theorem", "theorem": n, "axioms": ax}, no_failing_input=True)
                else:
                    discharged += 1
    chk = None
    if thorough and ok:
        cok, clog = coqchk(prop)
        chk = "ok" if cok else "FAILED"
        res.coverage["coqchk"] = chk
        res.coverage["coqchk_tail"] = clog[-1500:]
        if not cok:
            ok_all = False
            res.violation("coqchk rejected Props/%s.vo" % prop,
                          {"kind": "theorem", "theorem": "coqchk Props/%s.vo" % prop, "log": clog[-3000:]},
                          no_failing_input=True)
    res.coverage["obligations"] = len(names)
    res.coverage["discharged"] = discharged
    res.coverage["theorems"] = names
    res.coverage["axioms_per_theorem"] = axioms
    res.coverage["checker_cmd"] = "cd /verif/coq && ./build.sh Props/%s.vo  (coqc 8.16.1, full .vo); Print Assumptions per theorem%s" % (
        prop, "; coqchk -o -silent RH.Props.%s" % prop if thorough else "")
    return ok_all


TRUSTED_BASE_COMMON = [
    "Coq 8.16.1 kernel (coqc, full .vo builds; vm_compute used in finite sweeps and witnesses; native_compute not used)",
    "hand-written Gallina model tied to /repo by the correspondence run of this check (model is not generated from the Rust source)",
    "extraction: ExtrOcamlBasic only (Extract Inductive bool/option/unit/prod/list/sumbool/sumor, inlined andb/orb); no Extract Constant; OCaml 4.13.1",
    "Rust harness (generators, canonicalisation) and python driver of /verif",
]
