#!/usr/bin/env python3
"""Rewrites the generated tables of DESIGN.md (between <!-- BEGIN:x --> / <!-- END:x --> markers) from
known_findings.json and seeded/*/{meta.json,confirm.log,detect.json}."""
import json, os, re, glob
here = os.path.dirname(os.path.abspath(__file__))
D = os.path.join(here, "DESIGN.md")
s = open(D).read()

def esc(t):
    return str(t).replace("|", "\\|").replace("\n", " ")

kf = json.load(open(os.path.join(here, "known_findings.json")))["findings"]
rows = ["| property | id | status | commit | what |", "|---|---|---|---|---|"]
for f in kf:
    txt = f.get("fixed") or f.get("open") or ""
    txt = re.sub(r"^(fixed|open): property=\S+ (\S+ )?", "", txt) if f["kind"] == "fixed" else re.sub(r"^open: property=\S+ ", "", txt)
    rows.append("| %s | %s | %s | %s | %s |" % (f["property"], f["id"], f["kind"], f.get("commit", ""), esc(txt)))
findings = "\n".join(rows)

rows = ["| seeded change | property | what it does | needs to manifest | confirmed (suite green / demo fails with / passes without) | caught by the quick check |", "|---|---|---|---|---|---|"]
for d in sorted(glob.glob(os.path.join(here, "seeded", "C*-m*"))):
    name = os.path.basename(d)
    meta = {}
    try:
        meta = json.load(open(os.path.join(d, "meta.json")))
    except Exception:
        pass
    conf = ""
    cl = os.path.join(d, "confirm.log")
    if os.path.exists(cl):
        m = re.findall(r"suite_with_mutation=(\w+) demo_with_mutation=(\w+) demo_without_mutation=(\w+)", open(cl).read())
        if m:
            conf = "%s / %s / %s" % m[-1]
    det = ""
    dj = os.path.join(d, "detect.json")
    if os.path.exists(dj):
        h = json.load(open(dj))
        def st(e):
            return ("yes: " + e["first_report"][:160]) if e["detected"] else "MISSED"
        first, last = h[0], h[-1]
        if len(h) == 1 or (first["detected"] and last["detected"]):
            det = st(last)
        elif not first["detected"] and last["detected"]:
            det = "first run MISSED -> after strengthening " + st(last)
        else:
            det = "first run " + st(first) + " -> latest run " + st(last)
    if meta.get("retired"):
        det = "RETIRED: " + meta["retired"] + ((" (earlier: " + det + ")") if det else "")
    rows.append("| %s | %s | %s | %s | %s | %s |" % (name, meta.get("property", name[:3]), esc(meta.get("summary", ""))[:300], esc(meta.get("needs_to_manifest", ""))[:300], conf, esc(det)))
# ---- per-round summary
_rounds = [("1-2", ("m1", "m2", "m3", "m4")), ("3", ("m5", "m6")), ("4", ("m7", "m8")), ("5", ("m9", "m10")), ("6 (fresh eyes)", ("m11", "m12")), ("7 (fresh eyes)", ("m13", "m14")), ("8 (fresh eyes, 8 properties, one change each)", ("m15",))]
_sum = ["| round | seeded changes kept | caught by the quick check as it was when the change arrived | caught now | retired |", "|---|---|---|---|---|"]
for rn, ms in _rounds:
    tot = first = last = ret = 0
    for d in sorted(glob.glob(os.path.join(here, "seeded", "C*-m*"))):
        if os.path.basename(d).split("-")[1] not in ms:
            continue
        try:
            meta = json.load(open(os.path.join(d, "meta.json")))
        except Exception:
            meta = {}
        dj = os.path.join(d, "detect.json")
        if not os.path.exists(dj):
            continue
        if meta.get("retired"):
            ret += 1
            continue
        h = json.load(open(dj))
        tot += 1
        first += 1 if h[0]["detected"] else 0
        last += 1 if h[-1]["detected"] else 0
    _sum.append("| %s | %d | %d | %d | %d |" % (rn, tot, first, last, ret))
_note = ("Each later round was written against the list of all earlier changes of that property (\"choose a different mechanism and "
         "location\"; from round 5 on also \"where a systematic generator is still likely to be blind\"), which is why the first-run "
         "rate falls from round to round; every miss was answered by widening the generator / oracle for the whole CLASS of the change "
         "(never by adding the seeded input alone), after which the change and its earlier siblings were re-run. Rounds 6, 7 and 8 are the control experiment: their "
         "authors saw only the property text and the code (like round 1, no list of earlier changes), so their first-run rate estimates how the "
         "strengthened checks fare on fresh, unbiased changes.\n\n")
seeded = "\n".join(_sum) + "\n\n" + _note + "\n".join(rows)

# ---- per-property "as built" summary from checks/registry.json and coq/Props/*.v
import subprocess
reg = json.load(open(os.path.join(here, "checks", "registry.json")))
parts = []
for pid in sorted(reg["checks"]):
    r = reg["checks"][pid]
    if not r.get("claimed"):
        continue
    pf = os.path.join(here, "coq", "Props", pid + ".v")
    names = []
    if os.path.exists(pf):
        txt = open(pf).read()
        names = re.findall(r"^\s*(?:Theorem|Example|Lemma|Corollary)\s+([A-Za-z0-9_']+)", txt, re.M)
    try:
        deps = subprocess.run(["coqdep", "-Q", ".", "RH", "-sort", "Props/%s.v" % pid], cwd=os.path.join(here, "coq"),
                              capture_output=True, text=True).stdout.split()
    except Exception:
        deps = []
    deps = [d for d in deps if d.endswith(".v") and not d.startswith("Props/")]
    nlines = 0
    for d in deps:
        try:
            nlines += sum(1 for _ in open(os.path.join(here, "coq", d)))
        except Exception:
            pass
    parts.append("#### %s  (level claimed: %s)\n\n*Technique.* %s\n\n*What is proved and what runs.* %s\n\n*Assumptions / trusted / partial.* %s\n\n"
                 "*Coq development* (%d files, %d lines, dependency cone of `Props/%s.v`): %s\n\n*Theorems in `Props/%s.v`* (%d): %s\n" % (
                     pid, r["category"], r["technique"], r["text"], r["note"], len(deps), nlines, pid,
                     ", ".join("`%s`" % d for d in deps), pid, len(names), ", ".join("`%s`" % n for n in names)))
asbuilt = "\n".join(parts)

for key, table in (("findings", findings), ("seeded", seeded), ("asbuilt", asbuilt)):
    pat = re.compile(r"(<!-- BEGIN:%s -->\n).*?(<!-- END:%s -->)" % (key, key), re.S)
    assert pat.search(s), key
    s = pat.sub(lambda m: m.group(1) + table + "\n" + m.group(2), s)
open(D, "w").write(s)
print("tables regenerated")
