#!/usr/bin/env python3
"""Rewrites the generated tables of DESIGN.md (between <!-- BEGIN:x --> / <!-- END:x --> markers) from
known_findings.json and seeded/*/{meta.json,confirm.log,detect.json}."""
import json, os, re, glob
here = os.path.dirname(os.path.abspath(__file__))
D = os.path.join(here, "DESIGN.md")
s = open(D).read()

def esc(t):
    return str(t).replace("|", "\\|").replace("\n", " ")

kf = json.load(open(os.path.join(here, "known_findings.json")))["findings"]
rows = ["| property | id | status | commit | what |", "|---|---|---|---|---|"]
for f in kf:
    txt = f.get("fixed") or f.get("open") or ""
    txt = re.sub(r"^(fixed|open): property=\S+ (\S+ )?", "", txt) if f["kind"] == "fixed" else re.sub(r"^open: property=\S+ ", "", txt)
    rows.append("| %s | %s | %s | %s | %s |" % (f["property"], f["id"], f["kind"], f.get("commit", ""), esc(txt)))
findings = "\n".join(rows)

rows = ["| seeded change | property | what it does | needs to manifest | confirmed (suite green / demo fails with / passes without) | caught by the quick check |", "|---|---|---|---|---|---|"]
for d in sorted(glob.glob(os.path.join(here, "seeded", "C*-m*"))):
    name = os.path.basename(d)
    meta = {}
    try:
        meta = json.load(open(os.path.join(d, "meta.json")))
    except Exception:
        pass
    conf = ""
    cl = os.path.join(d, "confirm.log")
    if os.path.exists(cl):
        m = re.findall(r"suite_with_mutation=(\w+) demo_with_mutation=(\w+) demo_without_mutation=(\w+)", open(cl).read())
        if m:
            conf = "%s / %s / %s" % m[-1]
    det = ""
    dj = os.path.join(d, "detect.json")
    if os.path.exists(dj):
        h = json.load(open(dj))
        parts = []
        for i, e in enumerate(h):
            parts.append(("yes: " + e["first_report"][:160]) if e["detected"] else "MISSED")
        det = " -> ".join(parts) if len(parts) > 1 else parts[0]
        if len(parts) > 1:
            det = "first run " + det + " (after strengthening)"
    rows.append("| %s | %s | %s | %s | %s | %s |" % (name, meta.get("property", name[:3]), esc(meta.get("summary", ""))[:300], esc(meta.get("needs_to_manifest", ""))[:300], conf, esc(det)))
seeded = "\n".join(rows)

for key, table in (("findings", findings), ("seeded", seeded)):
    pat = re.compile(r"(<!-- BEGIN:%s -->\n).*?(<!-- END:%s -->)" % (key, key), re.S)
    assert pat.search(s), key
    s = pat.sub(lambda m: m.group(1) + table + "\n" + m.group(2), s)
open(D, "w").write(s)
print("tables regenerated")
