"""C10 — Document synchronisation equals LSP splice semantics."""
import os
import json
from vlib.common import *

PROP = "C10"


def coq_list(cps):
    return "[" + "; ".join(str(x) for x in cps) + "]"


def parse_case(line):
    doc, edits = line.rstrip("\n").split("|")
    es = []
    for e in edits.split(";"):
        if not e:
            continue
        f = e.split(":")
        if f[0] == "F":
            es.append(("F", [int(x) for x in f[1].split()]))
        else:
            p = [int(x) for x in f[1].split(",")]
            es.append(("R", p, [int(x) for x in f[2].split()]))
    return [int(x) for x in doc.split()], es


def flat(states):
    return ";".join(" ".join(s.replace("/", " ").split()) for s in states.split(";"))


def nontrivial(doc, es):
    nl = doc.count(10) + doc.count(13) + 1
    for e in es:
        if e[0] == "R":
            l1, c1, l2, c2 = e[1]
            if 10 in e[2] or 13 in e[2] or l2 >= nl or l1 >= nl or c1 > 6 or c2 > 6:
                return True
            if any(c >= 65536 for c in e[2]) or any(c >= 65536 for c in doc):
                return True
    return False


def compare(res, tag, cases, impl, model, sample_every):
    """Compares the three result streams; returns list of sampled (case, model_line) for the Coq cross-check."""
    sampled = []
    n = 0
    nviol = 0
    with open(cases) as fc, open(impl) as fi, open(model) as fm:
        for c, i, m in zip(fc, fi, fm):
            n += 1
            c = c.rstrip("\n")
            ist, ior, ifl, iraw = i.rstrip("\n").split("|")
            mst, msp, wf = m.rstrip("\n").split("|")
            doc, es = parse_case(c)
            res.count_case(c, nontrivial(doc, es))
            if n % 5000 == 1:
                res.add_sample({"case": c, "impl": ist})
            if sample_every and n % sample_every == 0 and max([0] + [p for e in es if e[0] == "R" for p in e[1]]) < 5000:
                sampled.append((c, mst))
            bad = None
            if "PANIC" in ist:
                bad = "implementation panics in Contents::change"
            elif wf == "1" and flat(ist) != flat(ior):
                bad = "server text differs from the plain-string splice (independent oracle)"
            elif wf == "1" and flat(ist) != msp:
                bad = "server text differs from the extracted Coq specification spec_edits"
            elif "E" in ifl:
                bad = "Contents::end() differs from the end of the reference text"
            else:
                # the client's own raw text (theorem C10_raw_history): as long as no CR/LF fusion corner has
                # occurred, the server's text is the normalisation of the client's raw text
                fi = flat(ist).split(";")
                ri = iraw.split(";")
                for k in range(min(len(fi), len(ri))):
                    if ri[k] == "-":
                        res.coverage["raw_client_fusion_corner_cases"] = res.coverage.get("raw_client_fusion_corner_cases", 0) + 1
                        break
                    if ri[k] != fi[k]:
                        bad = "server text differs from the normalisation of the client's own raw text (no CR/LF fusion involved)"
                        break
                else:
                    res.coverage["raw_client_cases_compared"] = res.coverage.get("raw_client_cases_compared", 0) + 1
            if bad:
                nviol += 1
                if nviol <= 10:
                    res.violation(bad, {"kind": "input", "case": c, "impl": ist, "spec": msp, "oracle": ior,
                                        "replay_cmd": "./check C10 --replay <this file>"})
            elif ist != mst:
                # correspondence broken but the property-level oracle is satisfied on this input
                nviol += 1
                if nviol <= 10:
                    res.violation("correspondence broken: line buffer of the implementation differs from the Coq model "
                                  "`change` although the text equals the splice",
                                  {"kind": "correspondence", "correspondence": "Contents::change vs RH.Text.Contents.change",
                                   "case": c, "impl": ist, "model": mst}, no_failing_input=True)
    res.coverage.setdefault("streams", {})[tag] = n
    return sampled


def coq_cross_check(res, sampled):
    """Evaluate the model inside Coq (vm_compute) on the sampled cases and compare with the extracted runner."""
    if not sampled:
        return
    items = []
    for c, mst in sampled:
        doc, es = parse_case(c)
        el = []
        for e in es:
            if e[0] == "F":
                el.append("Full %s" % coq_list(e[1]))
            else:
                l1, c1, l2, c2 = e[1]
                el.append("Ranged (P %d %d) (P %d %d) %s" % (l1, c1, l2, c2, coq_list(e[2])))
        states = [s for s in mst.split(";") if s != ""] if mst.strip(";") != "" else []
        # final state only
        last = mst.split(";")[-2] if mst.endswith(";") and len(mst) > 1 else ""
        if last == "PANIC":
            exp = "None"
        else:
            lines = [[int(x) for x in l.split()] for l in last.split("/")] if last != "" else []
            exp = "Some [" + "; ".join(coq_list(l) for l in lines) + "]"
        items.append("(%s, [%s], %s)" % (coq_list(doc), "; ".join(el), exp))
    pre = ("From Coq Require Import List NArith Bool.\nImport ListNotations.\n"
           "From RH Require Import Text.Contents.\nOpen Scope N_scope.\n"
           "Definition docb (x y : list (list N)) : bool := if list_eq_dec (list_eq_dec N.eq_dec) x y then true else false.\n"
           "Definition optb (x y : option (list (list N))) : bool := match x, y with Some a, Some b => docb a b | None, None => true | _, _ => false end.\n"
           "Definition cases : list (list N * list edit * option (list (list N))) := [\n" + ";\n".join(items) + "].\n")
    body = "forallb (fun c => match c with (d, es, exp) => optb (apply_edits (split_lines d) es) exp end) cases"
    v, log = coq_eval_bool(PROP, "sample", pre, body)
    res.coverage["in_coq_vm_compute_cases"] = len(items)
    if v is not True:
        res.violation("extracted model and in-Coq evaluation (vm_compute) disagree on the sampled cases",
                      {"kind": "correspondence", "correspondence": "extraction vs vm_compute (RH.Text.Contents.apply_edits)",
                       "log": log[-2000:]}, no_failing_input=True)


# ----------------------------------------------------------------------------------------------
# LSP stage: "hence diagnostics after incremental edits equal those of a server that opened the
# final text directly" — ties text_document_did_change_notification (events applied in order,
# then update_source) to the same plain-string reference.
# ----------------------------------------------------------------------------------------------
BASE_TEXT = ("entity e is\nend entity;\n\narchitecture a of e is\n  signal s : bit;\nbegin\n"
             "  s <= '1';\nend architecture;\n")
SNIPPETS = ["x", " ", "\n", ";", "\u00e9", "\U0001F600", "--c\n", "signal t : bit;\n", "\r\n", "\r", "(", "end", "\t", ""]


class PyRng:
    def __init__(self, s):
        self.s = (s * 0x9E3779B97F4A7C15 + 0x1234567) & 0xFFFFFFFFFFFFFFFF

    def next(self):
        self.s = (self.s + 0x9E3779B97F4A7C15) & 0xFFFFFFFFFFFFFFFF
        z = self.s
        z = ((z ^ (z >> 30)) * 0xBF58476D1CE4E5B9) & 0xFFFFFFFFFFFFFFFF
        z = ((z ^ (z >> 27)) * 0x94D049BB133111EB) & 0xFFFFFFFFFFFFFFFF
        return z ^ (z >> 31)

    def below(self, n):
        return self.next() % n if n else 0


def py_normalize(t):
    return t.replace("\r\n", "\n").replace("\r", "\n")


def py_len16(ch):
    return 2 if ord(ch) >= 65536 else 1


def py_offset(s, line, col):
    i = 0
    cur = 0
    while cur < line:
        j = s.find("\n", i)
        if j < 0:
            return len(s)
        i = j + 1
        cur += 1
    acc = 0
    while i < len(s) and s[i] != "\n" and acc < col:
        acc += py_len16(s[i])
        i += 1
    return i


def py_apply(s, change):
    if "range" not in change:
        return py_normalize(change["text"])
    r = change["range"]
    a = py_offset(s, r["start"]["line"], r["start"]["character"])
    b = max(a, py_offset(s, r["end"]["line"], r["end"]["character"]))
    return py_normalize(s[:a] + change["text"] + s[b:])


def lsp_session(binpath, wsdir, k, sd):
    """One incremental session + one fresh server on the final text. Returns (record, verdict)."""
    from vlib import lsp
    rng = PyRng(sd * 1000003 + k)
    ws = os.path.join(wsdir, "s%d" % k)
    os.makedirs(ws, exist_ok=True)
    with open(os.path.join(ws, "vhdl_ls.toml"), "w") as f:
        f.write("[libraries]\nlib.files = ['a.vhd']\n")
    with open(os.path.join(ws, "a.vhd"), "w") as f:
        f.write(BASE_TEXT)
    uri = lsp.uri(os.path.join(ws, "a.vhd"))
    text = py_normalize(BASE_TEXT)
    batches = []
    for _ in range(1 + rng.below(4)):
        batch = []
        for _ in range(1 + rng.below(3)):
            if rng.below(10) == 0:
                ch = {"text": BASE_TEXT if rng.below(2) else SNIPPETS[rng.below(len(SNIPPETS))] * 2}
            else:
                nl = text.count("\n") + 1

                def pos():
                    line = rng.below(nl + 2) if rng.below(8) else 1000000
                    col = rng.below(12) if rng.below(8) else 4294967295
                    return (line, col)
                p, q = pos(), pos()
                if q < p:
                    p, q = q, p
                if rng.below(3) == 0:
                    q = p
                ch = {"range": {"start": {"line": p[0], "character": p[1]}, "end": {"line": q[0], "character": q[1]}},
                      "text": SNIPPETS[rng.below(len(SNIPPETS))]}
            text = py_apply(text, ch)
            batch.append(ch)
        batches.append(batch)
    rec = {"kind": "lsp-session", "session": k, "seed": sd, "batches": batches, "final_text": text}
    ls = lsp.LS(binpath, ws)
    try:
        ls.initialize()
        ls.notify("textDocument/didOpen", {"textDocument": {"uri": uri, "languageId": "vhdl", "version": 0, "text": BASE_TEXT}})
        view = lsp.publish_map(ls.sync())
        ver = 0
        for batch in batches:
            ver += 1
            ls.notify("textDocument/didChange", {"textDocument": {"uri": uri, "version": ver}, "contentChanges": batch})
            lsp.publish_map(ls.sync(), view)
        inc = lsp.canon_view(view).get(uri, [])
        ls.shutdown()
    except lsp.ServerDied as ex:
        ls.kill()
        return rec, "server died during incremental edits: %s" % str(ex)[:300]
    ls2 = lsp.LS(binpath, ws)
    try:
        ls2.initialize()
        ls2.notify("textDocument/didOpen", {"textDocument": {"uri": uri, "languageId": "vhdl", "version": 0, "text": text}})
        v2 = lsp.publish_map(ls2.sync())
        # the fresh server first analysed the file on disk; take the view after didOpen
        fresh = lsp.canon_view(v2).get(uri, [])
        ls2.shutdown()
    except lsp.ServerDied as ex:
        ls2.kill()
        return rec, "fresh server died on the final text: %s" % str(ex)[:300]
    rec["incremental"] = inc
    rec["fresh"] = fresh
    if inc != fresh:
        return rec, "diagnostics after incremental edits differ from those of a server that opened the final text"
    return rec, None


def lsp_stage(res, n, only=None):
    from concurrent.futures import ThreadPoolExecutor
    ok, log, binpath = vhdl_ls_build()
    if not ok:
        res.violation("vhdl_ls build failed against the current /repo tree", {"kind": "build", "log": log[-3000:]},
                      no_failing_input=True)
        return
    wsdir = os.path.join(rundir(PROP), "ws")
    import shutil
    shutil.rmtree(wsdir, ignore_errors=True)
    os.makedirs(wsdir)
    sd = seed()
    ks = [only] if only is not None else list(range(n))
    with ThreadPoolExecutor(max_workers=8) as ex:
        results = list(ex.map(lambda k: lsp_session(binpath, wsdir, k, sd if only is None else only[1]) if only is None
                              else lsp_session(binpath, wsdir, only[0], only[1]), ks))
    nd = 0
    for rec, verdict in results:
        nontriv = any("range" in c and (c["range"]["end"]["line"] > 8 or c["range"]["end"]["character"] > 11 or "\n" in c["text"])
                      for b in rec["batches"] for c in b)
        res.count_case("lsp:" + json.dumps(rec["batches"], sort_keys=True), nontriv)
        if rec.get("incremental"):
            nd += 1
        if verdict:
            res.violation(verdict, rec)
    res.add_sample({"lsp_session_batches": results[0][0]["batches"], "final_text": results[0][0]["final_text"]}, limit=8)
    res.coverage["lsp_sessions"] = len(results)
    res.coverage["lsp_sessions_with_diagnostics"] = nd


def main(tier, replay=None):
    res = Result(PROP, tier, level="proof")
    d = rundir(PROP)
    proof_ok = proof_stage(res, PROP, thorough=(tier == "thorough"))
    ok, log, hbin = harness_build("c10")
    if not ok:
        res.violation("harness build failed against the current /repo tree", {"kind": "build", "log": log[-3000:]},
                      no_failing_input=True)
        return res.finish()
    ok, log, mbin = ocaml_build("c10_run")
    if not ok:
        res.violation("extracted model build failed", {"kind": "build", "log": log[-3000:]}, no_failing_input=True)
        return res.finish()

    def stream(tag, mode, n, sample_every):
        cases, impl, model = (os.path.join(d, "%s.%s" % (tag, x)) for x in ("cases", "impl", "model"))
        rc, out = run([hbin, mode, str(seed()), str(n), cases, impl], timeout=3000)
        if rc != 0:
            res.violation("harness c10 crashed in mode %s" % mode, {"kind": "harness", "log": out[-2000:]}, no_failing_input=True)
            return []
        with open(cases) as fin, open(model, "w") as fout:
            p = subprocess.run([mbin], stdin=fin, stdout=fout)
        if p.returncode != 0:
            res.violation("extracted model runner failed", {"kind": "build"}, no_failing_input=True)
            return []
        return compare(res, tag, cases, impl, model, sample_every)

    sampled = []
    if replay and json.load(open(replay)).get("kind") == "lsp-session":
        rp = json.load(open(replay))
        lsp_stage(res, 1, only=(rp["session"], rp["seed"]))
        return res.finish()
    if replay:
        rp = json.load(open(replay))
        path = os.path.join(d, "replay.in")
        open(path, "w").write(rp["case"] + "\n")
        sampled += stream("replay", "file:" + path, 0, 1)
    else:
        corpus = os.path.join(VERIF, "corpus", "C10.cases")
        if os.path.exists(corpus):
            sampled += stream("corpus", "file:" + corpus, 0, 1)
        sampled += stream("exhaustive", "exhaustive4" if tier == "thorough" else "exhaustive3", 0, 3000)
        sampled += stream("random", "random", 1000000 if tier == "thorough" else 30000, 150)
    coq_cross_check(res, sampled[:400])
    if not replay:
        lsp_stage(res, 400 if tier == "thorough" else 48)
    res.coverage["exhaustive"] = False
    res.coverage["rule"] = ("corpus of minimised failures first; exhaustive single ranged changes over documents <= 3 chars "
                            "(thorough: 4) of {a, LF, CR, U+1F600}, replacements <= 2 (3) chars, all ordered position pairs "
                            "line<=3/char<=4; random histories of 1-8 edits over {a,b,TAB,LF,CR,e-acute,euro,U+1F600,space} with "
                            "positions inside, at and beyond line/document ends (incl. 2^32-1) and 1/16 inverted ranges. "
                            "non-trivial = a ranged edit with a multi-line replacement, an out-of-range position or a "
                            "supplementary-plane character; distinct by hash of the case line")
    res.coverage["trusted_base"] = TRUSTED_BASE_COMMON + [
        "characters (Unicode scalars) instead of UTF-8 bytes in the model: bytes 10 and 13 never occur inside a multi-byte sequence",
        "model line numbers are nat: the extracted-model comparison uses lines < 5000; larger values are covered by the plain-string oracle only",
    ]
    res.coverage["partial"] = False
    res.assumptions = ["the reference string is kept normalised after every step and the raw replacement text is spliced in (DESIGN.md 4.0)",
                       "ranges with start > end are outside the claim for text equality (checked only for absence of panics)"]
    return res.finish()
