"""C10 — Document synchronisation equals LSP splice semantics."""
import os
import json
from vlib.common import *

PROP = "C10"


def coq_list(cps):
    return "[" + "; ".join(str(x) for x in cps) + "]"


def parse_case(line):
    doc, edits = line.rstrip("\n").split("|")
    es = []
    for e in edits.split(";"):
        if not e:
            continue
        f = e.split(":")
        if f[0] == "F":
            es.append(("F", [int(x) for x in f[1].split()]))
        else:
            p = [int(x) for x in f[1].split(",")]
            es.append(("R", p, [int(x) for x in f[2].split()]))
    return [int(x) for x in doc.split()], es


def flat(states):
    return ";".join(" ".join(s.replace("/", " ").split()) for s in states.split(";"))


def nontrivial(doc, es):
    nl = doc.count(10) + doc.count(13) + 1
    for e in es:
        if e[0] == "R":
            l1, c1, l2, c2 = e[1]
            if 10 in e[2] or 13 in e[2] or l2 >= nl or l1 >= nl or c1 > 6 or c2 > 6:
                return True
            if any(c >= 65536 for c in e[2]) or any(c >= 65536 for c in doc):
                return True
    return False


def compare(res, tag, cases, impl, model, sample_every):
    """Compares the three result streams; returns list of sampled (case, model_line) for the Coq cross-check."""
    sampled = []
    n = 0
    nviol = 0
    with open(cases) as fc, open(impl) as fi, open(model) as fm:
        for c, i, m in zip(fc, fi, fm):
            n += 1
            c = c.rstrip("\n")
            ist, ior, ifl = i.rstrip("\n").split("|")
            mst, msp, wf = m.rstrip("\n").split("|")
            doc, es = parse_case(c)
            res.count_case(c, nontrivial(doc, es))
            if n % 5000 == 1:
                res.add_sample({"case": c, "impl": ist})
            if sample_every and n % sample_every == 0 and max([0] + [p for e in es if e[0] == "R" for p in e[1]]) < 5000:
                sampled.append((c, mst))
            bad = None
            if "PANIC" in ist:
                bad = "implementation panics in Contents::change"
            elif wf == "1" and flat(ist) != flat(ior):
                bad = "server text differs from the plain-string splice (independent oracle)"
            elif wf == "1" and flat(ist) != msp:
                bad = "server text differs from the extracted Coq specification spec_edits"
            elif "E" in ifl:
                bad = "Contents::end() differs from the end of the reference text"
            if bad:
                nviol += 1
                if nviol <= 10:
                    res.violation(bad, {"kind": "input", "case": c, "impl": ist, "spec": msp, "oracle": ior,
                                        "replay_cmd": "./check C10 --replay <this file>"})
            elif ist != mst:
                # correspondence broken but the property-level oracle is satisfied on this input
                nviol += 1
                if nviol <= 10:
                    res.violation("correspondence broken: line buffer of the implementation differs from the Coq model "
                                  "`change` although the text equals the splice",
                                  {"kind": "correspondence", "correspondence": "Contents::change vs RH.Text.Contents.change",
                                   "case": c, "impl": ist, "model": mst}, no_failing_input=True)
    res.coverage.setdefault("streams", {})[tag] = n
    return sampled


def coq_cross_check(res, sampled):
    """Evaluate the model inside Coq (vm_compute) on the sampled cases and compare with the extracted runner."""
    if not sampled:
        return
    items = []
    for c, mst in sampled:
        doc, es = parse_case(c)
        el = []
        for e in es:
            if e[0] == "F":
                el.append("Full %s" % coq_list(e[1]))
            else:
                l1, c1, l2, c2 = e[1]
                el.append("Ranged (P %d %d) (P %d %d) %s" % (l1, c1, l2, c2, coq_list(e[2])))
        states = [s for s in mst.split(";") if s != ""] if mst.strip(";") != "" else []
        # final state only
        last = mst.split(";")[-2] if mst.endswith(";") and len(mst) > 1 else ""
        if last == "PANIC":
            exp = "None"
        else:
            lines = [[int(x) for x in l.split()] for l in last.split("/")] if last != "" else []
            exp = "Some [" + "; ".join(coq_list(l) for l in lines) + "]"
        items.append("(%s, [%s], %s)" % (coq_list(doc), "; ".join(el), exp))
    pre = ("From Coq Require Import List NArith Bool.\nImport ListNotations.\n"
           "From RH Require Import Text.Contents.\nOpen Scope N_scope.\n"
           "Definition docb (x y : list (list N)) : bool := if list_eq_dec (list_eq_dec N.eq_dec) x y then true else false.\n"
           "Definition optb (x y : option (list (list N))) : bool := match x, y with Some a, Some b => docb a b | None, None => true | _, _ => false end.\n"
           "Definition cases : list (list N * list edit * option (list (list N))) := [\n" + ";\n".join(items) + "].\n")
    body = "forallb (fun c => match c with (d, es, exp) => optb (apply_edits (split_lines d) es) exp end) cases"
    v, log = coq_eval_bool(PROP, "sample", pre, body)
    res.coverage["in_coq_vm_compute_cases"] = len(items)
    if v is not True:
        res.violation("extracted model and in-Coq evaluation (vm_compute) disagree on the sampled cases",
                      {"kind": "correspondence", "correspondence": "extraction vs vm_compute (RH.Text.Contents.apply_edits)",
                       "log": log[-2000:]}, no_failing_input=True)


def main(tier, replay=None):
    res = Result(PROP, tier, level="proof")
    d = rundir(PROP)
    proof_ok = proof_stage(res, PROP, thorough=(tier == "thorough"))
    ok, log, hbin = harness_build("c10")
    if not ok:
        res.violation("harness build failed against the current /repo tree", {"kind": "build", "log": log[-3000:]},
                      no_failing_input=True)
        return res.finish()
    ok, log, mbin = ocaml_build("c10_run")
    if not ok:
        res.violation("extracted model build failed", {"kind": "build", "log": log[-3000:]}, no_failing_input=True)
        return res.finish()

    def stream(tag, mode, n, sample_every):
        cases, impl, model = (os.path.join(d, "%s.%s" % (tag, x)) for x in ("cases", "impl", "model"))
        rc, out = run([hbin, mode, str(seed()), str(n), cases, impl], timeout=3000)
        if rc != 0:
            res.violation("harness c10 crashed in mode %s" % mode, {"kind": "harness", "log": out[-2000:]}, no_failing_input=True)
            return []
        with open(cases) as fin, open(model, "w") as fout:
            p = subprocess.run([mbin], stdin=fin, stdout=fout)
        if p.returncode != 0:
            res.violation("extracted model runner failed", {"kind": "build"}, no_failing_input=True)
            return []
        return compare(res, tag, cases, impl, model, sample_every)

    sampled = []
    if replay:
        rp = json.load(open(replay))
        path = os.path.join(d, "replay.in")
        open(path, "w").write(rp["case"] + "\n")
        sampled += stream("replay", "file:" + path, 0, 1)
    else:
        corpus = os.path.join(VERIF, "corpus", "C10.cases")
        if os.path.exists(corpus):
            sampled += stream("corpus", "file:" + corpus, 0, 1)
        sampled += stream("exhaustive", "exhaustive4" if tier == "thorough" else "exhaustive3", 0, 3000)
        sampled += stream("random", "random", 1000000 if tier == "thorough" else 30000, 150)
    coq_cross_check(res, sampled[:400])
    res.coverage["exhaustive"] = False
    res.coverage["rule"] = ("corpus of minimised failures first; exhaustive single ranged changes over documents <= 3 chars "
                            "(thorough: 4) of {a, LF, CR, U+1F600}, replacements <= 2 (3) chars, all ordered position pairs "
                            "line<=3/char<=4; random histories of 1-8 edits over {a,b,TAB,LF,CR,e-acute,euro,U+1F600,space} with "
                            "positions inside, at and beyond line/document ends (incl. 2^32-1) and 1/16 inverted ranges. "
                            "non-trivial = a ranged edit with a multi-line replacement, an out-of-range position or a "
                            "supplementary-plane character; distinct by hash of the case line")
    res.coverage["trusted_base"] = TRUSTED_BASE_COMMON + [
        "characters (Unicode scalars) instead of UTF-8 bytes in the model: bytes 10 and 13 never occur inside a multi-byte sequence",
        "model line numbers are nat: the extracted-model comparison uses lines < 5000; larger values are covered by the plain-string oracle only",
    ]
    res.coverage["partial"] = False
    res.assumptions = ["the reference string is kept normalised after every step and the raw replacement text is spliced in (DESIGN.md 4.0)",
                       "ranges with start > end are outside the claim for text equality (checked only for absence of panics)"]
    return res.finish()
