"""C10 — Document synchronisation equals LSP splice semantics."""
import os
import json
from vlib.common import *

PROP = "C10"


def coq_list(cps):
    return "[" + "; ".join(str(x) for x in cps) + "]"


def parse_case(line):
    doc, edits = line.rstrip("\n").split("|")
    es = []
    for e in edits.split(";"):
        if not e:
            continue
        f = e.split(":")
        if f[0] == "F":
            es.append(("F", [int(x) for x in f[1].split()]))
        else:
            p = [int(x) for x in f[1].split(",")]
            es.append(("R", p, [int(x) for x in f[2].split()]))
    return [int(x) for x in doc.split()], es


def flat(states):
    return ";".join(" ".join(s.replace("/", " ").split()) for s in states.split(";"))


def nontrivial(doc, es):
    nl = doc.count(10) + doc.count(13) + 1
    for e in es:
        if e[0] == "R":
            l1, c1, l2, c2 = e[1]
            if 10 in e[2] or 13 in e[2] or l2 >= nl or l1 >= nl or c1 > 6 or c2 > 6:
                return True
            if any(c >= 65536 for c in e[2]) or any(c >= 65536 for c in doc):
                return True
    return False


def compare(res, tag, cases, impl, model, sample_every):
    """Compares the three result streams; returns list of sampled (case, model_line) for the Coq cross-check."""
    sampled = []
    n = 0
    nviol = 0
    with open(cases) as fc, open(impl) as fi, open(model) as fm:
        for c, i, m in zip(fc, fi, fm):
            n += 1
            c = c.rstrip("\n")
            ist, ior, ifl, iraw = i.rstrip("\n").split("|")
            mst, msp, wf = m.rstrip("\n").split("|")
            doc, es = parse_case(c)
            res.count_case(c, nontrivial(doc, es))
            if n % 5000 == 1:
                res.add_sample({"case": c, "impl": ist})
            if sample_every and n % sample_every == 0 and max([0] + [p for e in es if e[0] == "R" for p in e[1]]) < 5000:
                sampled.append((c, mst))
            bad = None
            if "PANIC" in ist:
                bad = "implementation panics in Contents::change"
            elif wf == "1" and flat(ist) != flat(ior):
                bad = "server text differs from the plain-string splice (independent oracle)"
            elif wf == "1" and flat(ist) != msp:
                bad = "server text differs from the extracted Coq specification spec_edits"
            elif "E" in ifl:
                bad = "Contents::end() differs from the end of the reference text"
            else:
                # the client's own raw text (theorem C10_raw_history): as long as no CR/LF fusion corner has
                # occurred, the server's text is the normalisation of the client's raw text
                fi = flat(ist).split(";")
                ri = iraw.split(";")
                for k in range(min(len(fi), len(ri))):
                    if ri[k] == "-":
                        res.coverage["raw_client_fusion_corner_cases"] = res.coverage.get("raw_client_fusion_corner_cases", 0) + 1
                        break
                    if ri[k] != fi[k]:
                        bad = "server text differs from the normalisation of the client's own raw text (no CR/LF fusion involved)"
                        break
                else:
                    res.coverage["raw_client_cases_compared"] = res.coverage.get("raw_client_cases_compared", 0) + 1
            if bad:
                nviol += 1
                if nviol <= 10:
                    res.violation(bad, {"kind": "input", "case": c, "impl": ist, "spec": msp, "oracle": ior,
                                        "replay_cmd": "./check C10 --replay <this file>"})
            elif ist != mst:
                # correspondence broken but the property-level oracle is satisfied on this input
                nviol += 1
                if nviol <= 10:
                    res.violation("correspondence broken: line buffer of the implementation differs from the Coq model "
                                  "`change` although the text equals the splice",
                                  {"kind": "correspondence", "correspondence": "Contents::change vs RH.Text.Contents.change",
                                   "case": c, "impl": ist, "model": mst}, no_failing_input=True)
    res.coverage.setdefault("streams", {})[tag] = n
    return sampled


def coq_cross_check(res, sampled):
    """Evaluate the model inside Coq (vm_compute) on the sampled cases and compare with the extracted runner."""
    if not sampled:
        return
    items = []
    for c, mst in sampled:
        doc, es = parse_case(c)
        el = []
        for e in es:
            if e[0] == "F":
                el.append("Full %s" % coq_list(e[1]))
            else:
                l1, c1, l2, c2 = e[1]
                el.append("Ranged (P %d %d) (P %d %d) %s" % (l1, c1, l2, c2, coq_list(e[2])))
        states = [s for s in mst.split(";") if s != ""] if mst.strip(";") != "" else []
        # final state only
        last = mst.split(";")[-2] if mst.endswith(";") and len(mst) > 1 else ""
        if last == "PANIC":
            exp = "None"
        else:
            lines = [[int(x) for x in l.split()] for l in last.split("/")] if last != "" else []
            exp = "Some [" + "; ".join(coq_list(l) for l in lines) + "]"
        items.append("(%s, [%s], %s)" % (coq_list(doc), "; ".join(el), exp))
    pre = ("From Coq Require Import List NArith Bool.\nImport ListNotations.\n"
           "From RH Require Import Text.Contents.\nOpen Scope N_scope.\n"
           "Definition docb (x y : list (list N)) : bool := if list_eq_dec (list_eq_dec N.eq_dec) x y then true else false.\n"
           "Definition optb (x y : option (list (list N))) : bool := match x, y with Some a, Some b => docb a b | None, None => true | _, _ => false end.\n"
           "Definition cases : list (list N * list edit * option (list (list N))) := [\n" + ";\n".join(items) + "].\n")
    body = "forallb (fun c => match c with (d, es, exp) => optb (apply_edits (split_lines d) es) exp end) cases"
    v, log = coq_eval_bool(PROP, "sample", pre, body)
    res.coverage["in_coq_vm_compute_cases"] = len(items)
    if v is not True:
        res.violation("extracted model and in-Coq evaluation (vm_compute) disagree on the sampled cases",
                      {"kind": "correspondence", "correspondence": "extraction vs vm_compute (RH.Text.Contents.apply_edits)",
                       "log": log[-2000:]}, no_failing_input=True)


# ----------------------------------------------------------------------------------------------
# LSP stage: "hence diagnostics after incremental edits equal those of a server that opened the
# final text directly" — ties text_document_did_change_notification (events applied in order,
# then update_source) to the same plain-string reference.
# ----------------------------------------------------------------------------------------------
BASE_TEXT = ("entity e is\nend entity;\n\narchitecture a of e is\n  signal s : bit;\nbegin\n"
             "  s <= '1';\nend architecture;\n")
SNIPPETS = ["x", " ", "\n", ";", "\u00e9", "\U0001F600", "--c\n", "signal t : bit;\n", "\r\n", "\r", "(", "end", "\t", ""]


class PyRng:
    def __init__(self, s):
        self.s = (s * 0x9E3779B97F4A7C15 + 0x1234567) & 0xFFFFFFFFFFFFFFFF

    def next(self):
        self.s = (self.s + 0x9E3779B97F4A7C15) & 0xFFFFFFFFFFFFFFFF
        z = self.s
        z = ((z ^ (z >> 30)) * 0xBF58476D1CE4E5B9) & 0xFFFFFFFFFFFFFFFF
        z = ((z ^ (z >> 27)) * 0x94D049BB133111EB) & 0xFFFFFFFFFFFFFFFF
        return z ^ (z >> 31)

    def below(self, n):
        return self.next() % n if n else 0


def py_normalize(t):
    return t.replace("\r\n", "\n").replace("\r", "\n")


def py_len16(ch):
    return 2 if ord(ch) >= 65536 else 1


def py_offset(s, line, col):
    i = 0
    cur = 0
    while cur < line:
        j = s.find("\n", i)
        if j < 0:
            return len(s)
        i = j + 1
        cur += 1
    acc = 0
    while i < len(s) and s[i] != "\n" and acc < col:
        acc += py_len16(s[i])
        i += 1
    return i


def py_apply(s, change):
    if "range" not in change:
        return py_normalize(change["text"])
    r = change["range"]
    a = py_offset(s, r["start"]["line"], r["start"]["character"])
    b = max(a, py_offset(s, r["end"]["line"], r["end"]["character"]))
    return py_normalize(s[:a] + change["text"] + s[b:])


# characters that text-handling code likes to treat specially but that are ordinary characters of a line for the LSP
SPECIAL_CHARS = ["\ufeff", "\ufffe", "\u2028", "\u2029", "\u0085", "\u0000", "\u000b", "\u000c", "\u200b", "\uffff"]


def with_special(rng, text):
    """1/3: the text STARTS with a special character; 1/8: one somewhere else; else unchanged."""
    r = rng.below(24)
    if r < 8:
        return SPECIAL_CHARS[rng.below(6 if r < 6 else len(SPECIAL_CHARS))] + text
    if r < 11 and text:
        k = rng.below(len(text) + 1)
        return text[:k] + SPECIAL_CHARS[rng.below(len(SPECIAL_CHARS))] + text[k:]
    return text


def gen_line0_change(rng, text):
    """A ranged change at small columns of line 0 (typing, renaming, deleting, a special character at 0:0)."""
    e = py_len16s(text.split("\n")[0])
    a = rng.below(min(e, 12) + 1)
    b = a + (rng.below(4) if rng.below(2) else 0)
    t = ["x", "ent", "", " ", "\ufeff", "\u2028"][rng.below(6)]
    if t in ("\ufeff", "\u2028") and rng.below(2):
        a = b = 0
    if t == "" and a == b:
        t = "y"
    return {"range": {"start": {"line": 0, "character": a}, "end": {"line": 0, "character": b}}, "text": t}


def gen_change(rng, text, base):
    """One random content change against the client's current (normalised) text: 1/10 full text (1/3 of them starting
    with a special character), else a ranged change with positions inside, at and far beyond the line / document ends;
    when line 0 starts with a non-ASCII character, 1/3 of the ranged changes are edits at small columns of line 0."""
    if rng.below(10) == 0:
        return {"text": with_special(rng, base) if rng.below(2) else SNIPPETS[rng.below(len(SNIPPETS))] * 2}
    if text[:1] and (ord(text[0]) >= 127 or ord(text[0]) < 9) and rng.below(3) == 0:
        return gen_line0_change(rng, text)
    if rng.below(40) == 0:
        return gen_line0_change(rng, text)
    nl = text.count("\n") + 1

    def pos():
        line = rng.below(nl + 2) if rng.below(8) else 1000000
        col = rng.below(12) if rng.below(8) else 4294967295
        return (line, col)
    p, q = pos(), pos()
    if q < p:
        p, q = q, p
    if rng.below(3) == 0:
        q = p
    return {"range": {"start": {"line": p[0], "character": p[1]}, "end": {"line": q[0], "character": q[1]}},
            "text": SNIPPETS[rng.below(len(SNIPPETS))]}


def lsp_session(binpath, wsdir, k, sd):
    """One incremental session + one fresh server on the final text. Returns (record, verdict)."""
    from vlib import lsp
    rng = PyRng(sd * 1000003 + k)
    ws = os.path.join(wsdir, "s%d" % k)
    os.makedirs(ws, exist_ok=True)
    with open(os.path.join(ws, "vhdl_ls.toml"), "w") as f:
        f.write("[libraries]\nlib.files = ['a.vhd']\n")
    with open(os.path.join(ws, "a.vhd"), "w") as f:
        f.write(BASE_TEXT)
    uri = lsp.uri(os.path.join(ws, "a.vhd"))
    open_text = with_special(rng, BASE_TEXT)
    text = py_normalize(open_text)
    batches = []
    for _ in range(1 + rng.below(4)):
        batch = []
        for _ in range(1 + rng.below(3)):
            ch = gen_change(rng, text, BASE_TEXT)
            text = py_apply(text, ch)
            batch.append(ch)
        batches.append(batch)
    rec = {"kind": "lsp-session", "session": k, "seed": sd, "open_text": open_text, "batches": batches, "final_text": text}
    ls = lsp.LS(binpath, ws)
    try:
        ls.initialize()
        ls.notify("textDocument/didOpen", {"textDocument": {"uri": uri, "languageId": "vhdl", "version": 0, "text": open_text}})
        view = lsp.publish_map(ls.sync())
        ver = 0
        for batch in batches:
            ver += 1
            ls.notify("textDocument/didChange", {"textDocument": {"uri": uri, "version": ver}, "contentChanges": batch})
            lsp.publish_map(ls.sync(), view)
        inc = lsp.canon_view(view).get(uri, [])
        ls.shutdown()
    except lsp.ServerDied as ex:
        ls.kill()
        return rec, "server died during incremental edits: %s" % str(ex)[:300]
    ls2 = lsp.LS(binpath, ws)
    try:
        ls2.initialize()
        ls2.notify("textDocument/didOpen", {"textDocument": {"uri": uri, "languageId": "vhdl", "version": 0, "text": text}})
        v2 = lsp.publish_map(ls2.sync())
        # the fresh server first analysed the file on disk; take the view after didOpen
        fresh = lsp.canon_view(v2).get(uri, [])
        ls2.shutdown()
    except lsp.ServerDied as ex:
        ls2.kill()
        return rec, "fresh server died on the final text: %s" % str(ex)[:300]
    rec["incremental"] = inc
    rec["fresh"] = fresh
    if inc != fresh:
        return rec, "diagnostics after incremental edits differ from those of a server that opened the final text"
    return rec, None


# ----------------------------------------------------------------------------------------------
# LSP stage, long-lived servers: ONE server per session holds several documents that are opened,
# edited, closed and RE-OPENED (same URI, version numbering restarting / equal / decreasing / with
# gaps), documents interleaved, full-text and ranged changes mixed, multi-change notifications.
# The oracle is the CLIENT's own text (plain-string splice of every change in listed order; didOpen
# replaces the text; version numbers play no role in the property).  What the server holds is
# observed at checkpoints through diagnostics + documentSymbol + semanticTokens/full of every
# open document and compared with a FRESH server that opened the client's texts directly.
# ----------------------------------------------------------------------------------------------
def doc_text(i, variant=0):
    if variant == 1:
        return ("-- Zähler € \U0001F600\nentity e%d is\n  port (clk : in bit);\nend entity;\n\narchitecture a of e%d is\n"
                "  signal s, q : bit;\nbegin\n  p : process (clk)\n  begin\n    q <= s;\n  end process;\nend architecture;\n" % (i, i))
    if variant == 2:
        return "entity e%d is\r\nend entity;\r\n" % i
    if variant == 3:
        return ""
    return ("entity e%d is\nend entity;\n\narchitecture a of e%d is\n  signal s : bit;\nbegin\n"
            "  s <= '1';\nend architecture;\n" % (i, i))


LINE_SNIPPETS = ["  signal t%d : bit;\n", "  -- Zähler %d\n", "  s <= '0'; -- %d\n", "\n", "  -- \U0001F600 c%d €\n",
                 "  constant k%d : natural := 3;\n", "  -- %d\r\n", "  signal \\ä%d\\ : bit;\n", "  signal u%d : bit; -- €\r"]
TAIL_SNIPPETS = [" -- x", "!", " ", "ä", ";", " -- \U0001F600", " s <= s;"]
VERSION_POLICIES = ["restart1", "restart0", "const0", "equal", "decreasing", "gaps", "continue", "below"]


def py_len16s(s):
    return sum(py_len16(c) for c in s)


def gen_struct_change(rng, text, n):
    """A ranged change that mostly keeps the file parseable (so that diagnostics / symbols / tokens keep
    fingerprinting the whole text): insert or delete whole lines, type behind the end of a line."""
    if text[:1] and (ord(text[0]) >= 127 or ord(text[0]) < 9) and rng.below(3) == 0:
        return gen_line0_change(rng, text)
    lines = text.split("\n")
    li = rng.below(len(lines))
    k = rng.below(8)
    if k <= 3:
        t = LINE_SNIPPETS[rng.below(len(LINE_SNIPPETS))]
        if "%d" in t:
            t = t % n
        rg = (li, 0, li, 0)
    elif k == 4:
        t = ""
        rg = (li, 0, li + 1, 0)
    elif k == 5:
        t = TAIL_SNIPPETS[rng.below(len(TAIL_SNIPPETS))]
        e = py_len16s(lines[li])
        rg = (li, e, li, e + (rng.below(3) if rng.below(4) == 0 else 0))
    elif k == 6:
        # replace the tail of a line
        e = py_len16s(lines[li])
        a = rng.below(e + 1)
        t = TAIL_SNIPPETS[rng.below(len(TAIL_SNIPPETS))]
        rg = (li, a, li, e)
    else:
        # join with the next line / split a line
        e = py_len16s(lines[li])
        if rng.below(2):
            t, rg = " ", (li, e, li + 1, 0)
        else:
            a = rng.below(e + 1)
            t, rg = "\n", (li, a, li, a)
    return {"range": {"start": {"line": rg[0], "character": rg[1]}, "end": {"line": rg[2], "character": rg[3]}}, "text": t}


def gen_batch(rng, text, base, n):
    """A list of 1-4 content changes + the client's text after it."""
    batch = []
    k = rng.below(10)
    if k == 0 and text.count("\n") >= 2:
        # multi-cursor edit: the same line inserted at 2-3 lines, listed bottom-up (as editors send it:
        # every range valid for the original text) or top-down (ranges then refer to the intermediate texts)
        nl = text.count("\n") + 1
        ls_ = sorted(set(rng.below(nl) for _ in range(2 + rng.below(2))), reverse=bool(rng.below(2)))
        t = LINE_SNIPPETS[rng.below(3)] % n
        for li in ls_:
            batch.append({"range": {"start": {"line": li, "character": 0}, "end": {"line": li, "character": 0}}, "text": t})
    else:
        for _ in range(1 + rng.below(3) + (rng.below(2) if k == 1 else 0)):
            r = rng.below(12)
            if r == 0:
                batch.append({"text": with_special(rng, doc_text(n % 3, rng.below(4)) if rng.below(3) else base)})
            elif r <= 9:
                batch.append(gen_struct_change(rng, text, n))
            else:
                batch.append(gen_change(rng, text, base))
            text = py_apply(text, batch[-1])
        return batch, text
    for ch in batch:
        text = py_apply(text, ch)
    return batch, text


def long_script(rng, ndocs, nactions, fixed=None):
    """Message script of one long-lived server session (pure function of the generator state)."""
    script = []
    texts = [None] * ndocs            # the client's text of every OPEN document
    saved = [py_normalize(doc_text(i)) for i in range(ndocs)]
    ver = [0] * ndocs
    pol = [None] * ndocs
    maxv = [None] * ndocs             # highest version ever used for the URI
    lowered = [False] * ndocs         # current episode was opened below the earlier maximum
    listed = ["lib%d" % i for i in range(ndocs)]   # library of every document in vhdl_ls.toml (None: in no library)
    unsynced = [0] * ndocs            # m9-style stages: 1 = open text differs from disk and the file left all libraries,
    #                                   2 = a further reload happened since, 3 = edited after that
    st = {"reloads": 0, "reloads_dropping_an_open_document": 0, "reloads_in_a_row": 0, "reload_kinds": {},
          "open_unsaved_document_dropped_then_reloaded_again_then_edited": 0, "non_project_opens": 0,
          "texts_starting_with_special_character": 0, "opens": 0, "reopens": 0, "reopens_after_close": 0, "reopens_below_max": 0, "edits_below_max_after_reopen": 0,
          "closes": 0, "changes": 0, "notifications": 0, "full_changes": 0, "ranged_changes": 0, "multi_change": 0,
          "checks": 0, "policies": {}}
    serial = [0]
    init_listed = [None]

    def mark_init():
        # the listing at server start is whatever it is when the first message is generated
        if init_listed[0] is None:
            init_listed[0] = list(listed)

    def use_version(i, v):
        ver[i] = v
        maxv[i] = v if maxv[i] is None else max(maxv[i], v)

    def do_open(i, policy=None, text=None):
        mark_init()
        policy = policy or VERSION_POLICIES[rng.below(len(VERSION_POLICIES))]
        m = maxv[i]
        if policy == "restart1":
            v = 1
        elif policy in ("restart0", "const0"):
            v = 0
        elif policy == "equal":
            v = m if m is not None else 2
        elif policy == "decreasing":
            v = m - 1 if m is not None else 30
        elif policy == "gaps":
            v = rng.below(8)
        elif policy == "below":
            v = max(0, m - 1 - rng.below(3)) if m else 0
        else:
            v = m + 1 if m is not None else 1
        if text is None:
            r = rng.below(10)
            text = doc_text(i, 0) if r <= 3 else doc_text(i, 1) if r <= 5 else saved[i] if r <= 7 else doc_text(i, 2 + rng.below(2))
            text = with_special(rng, text)
        if text[:1] in SPECIAL_CHARS:
            st["texts_starting_with_special_character"] += 1
        if listed[i] is None:
            st["non_project_opens"] += 1
        st["opens"] += 1
        if m is not None:
            st["reopens"] += 1
            if texts[i] is None:
                st["reopens_after_close"] += 1
            if v < m:
                st["reopens_below_max"] += 1
        lowered[i] = m is not None and v < m
        st["policies"][policy] = st["policies"].get(policy, 0) + 1
        pol[i] = policy
        use_version(i, v)
        texts[i] = py_normalize(text)
        script.append({"op": "open", "doc": i, "version": v, "text": text})

    def do_change(i, batch=None):
        p = pol[i]
        if p in ("const0", "equal"):
            v = ver[i]
        elif p == "decreasing":
            v = ver[i] - 1
        elif p == "gaps":
            v = ver[i] + 1 + rng.below(9)
        else:
            v = ver[i] + 1
        serial[0] += 1
        if batch is None:
            batch, t = gen_batch(rng, texts[i], doc_text(i), serial[0])
        else:
            t = texts[i]
            for ch in batch:
                t = py_apply(t, ch)
        if lowered[i] and v < maxv[i]:
            st["edits_below_max_after_reopen"] += 1
        use_version(i, v)
        texts[i] = t
        if unsynced[i] == 2:
            unsynced[i] = 3
            st["open_unsaved_document_dropped_then_reloaded_again_then_edited"] += 1
        for ch in batch:
            if "range" not in ch and ch["text"][:1] in SPECIAL_CHARS:
                st["texts_starting_with_special_character"] += 1
        st["changes"] += 1
        st["multi_change"] += len(batch) > 1
        for ch in batch:
            st["ranged_changes" if "range" in ch else "full_changes"] += 1
        script.append({"op": "change", "doc": i, "version": v, "changes": batch})

    def do_close(i):
        saved[i] = texts[i]
        texts[i] = None
        st["closes"] += 1
        script.append({"op": "close", "doc": i})

    def do_reload(kind=None, new=None):
        """Rewrite vhdl_ls.toml (documents dropped from / added to / moved between libraries, or unchanged) and
        make the server reload it."""
        mark_init()
        kind = kind or ["watched", "watched", "create", "rename", "delete"][rng.below(5)]
        if new is None:
            new = list(listed)
            for i in range(ndocs):
                r = rng.below(10)
                if r < 4:
                    new[i] = None if new[i] is not None else "lib%d" % i
                elif r == 4 and new[i] is not None:
                    new[i] = "alt%d" % i if new[i].startswith("lib") else "lib%d" % i
        st["reloads"] += 1
        st["reload_kinds"][kind] = st["reload_kinds"].get(kind, 0) + 1
        if script and script[-1]["op"] == "reload":
            st["reloads_in_a_row"] += 1
        for i in range(ndocs):
            if unsynced[i] == 1:
                unsynced[i] = 2
            if texts[i] is not None and listed[i] is not None and new[i] is None:
                st["reloads_dropping_an_open_document"] += 1
            if texts[i] is not None and new[i] is None and unsynced[i] == 0 and texts[i] != py_normalize(doc_text(i)):
                unsynced[i] = 1
            listed[i] = new[i]
        script.append({"op": "reload", "kind": kind, "listed": list(listed)})

    def do_check():
        if script and script[-1]["op"] != "check" and any(texts[i] is not None and listed[i] is not None for i in range(ndocs)):
            st["checks"] += 1
            script.append({"op": "check"})

    def ins(line, t):
        return {"range": {"start": {"line": line, "character": 0}, "end": {"line": line, "character": 0}}, "text": t}

    if fixed == 0:
        # the editor restarts the numbering at 1 with every didOpen
        do_open(0, "restart1", doc_text(0))
        for j in range(6):
            do_change(0, [ins(4, "  signal a%d : bit;\n" % j)])
        do_close(0)
        do_open(0, "restart1", doc_text(0))
        do_change(0, [ins(4, "  signal again : bit;\n")])
        do_check()
        do_change(0, [{"text": doc_text(0, 1)}])
        do_change(0, [ins(0, "-- c\n"), ins(3, "  -- d\n")])
    elif fixed == 1:
        # second didOpen without a didClose, numbering from 0, full-text change first
        do_open(0, "restart0", doc_text(0, 1))
        do_open(1, "const0", doc_text(1))
        for j in range(4):
            do_change(0, [ins(7, "  signal b%d : bit;\n" % j)])
            do_change(1, [ins(4, "  signal c%d : bit;\n" % j)])
        do_open(0, "restart0", doc_text(0))
        do_change(0, [{"text": doc_text(0, 1)}])
        do_change(0, [ins(7, "  signal late : bit;\n")])
        do_check()
        do_close(1)
        do_open(1, "decreasing", doc_text(1))
        do_change(1, [ins(4, "  signal d : bit;\n")])
    elif fixed == 2:
        # unsaved text, the file leaves vhdl_ls.toml, comes back with the next reload
        do_open(0, "restart1", doc_text(0))
        do_open(1, "restart1", doc_text(1))
        for j in range(3):
            do_change(0, [ins(4, "  signal a%d : bit;\n" % j)])
        do_reload("watched", [None, "lib1"])
        do_change(0, [ins(4, "  signal unlisted : bit;\n")])
        do_reload("watched", ["lib0", "lib1"])
        do_change(0, [ins(6, "  signal back : bit;\n")])
        do_check()
        do_reload("watched", [None, "lib1"])
        do_reload("create", [None, "lib1"])
        do_change(0, [ins(0, "-- c\n")])
        do_change(1, [ins(4, "  signal other : bit;\n")])
        do_reload("rename", ["alt0", "lib1"])
        do_change(0, [ins(1, "-- d\n")])
    elif fixed == 3:
        # a non-project file is opened and edited, two reloads in a row, then it becomes a project file
        listed[1] = None
        do_open(1, "restart1", doc_text(1))
        do_open(0, "restart1", "\ufeff" + doc_text(0))
        do_change(0, [{"range": {"start": {"line": 0, "character": 8}, "end": {"line": 0, "character": 10}}, "text": "e0"}])
        for j in range(3):
            do_change(1, [ins(4, "  signal n%d : bit;\n" % j)])
        do_reload("delete", ["lib0", None])
        do_reload("watched", ["lib0", "lib1"])
        do_change(1, [ins(4, "  signal listed : bit;\n")])
        do_check()
        do_reload("watched", ["lib0", None])
        do_reload("create", ["lib0", None])
        do_change(1, [ins(4, "  signal ignored : bit;\n")])
        do_change(0, [{"text": "\ufeff" + doc_text(0, 1)}])
        do_change(0, [{"range": {"start": {"line": 0, "character": 1}, "end": {"line": 0, "character": 4}}, "text": "--x"}])
        do_reload("watched", ["lib0", "lib1"])
    else:
        for i in range(ndocs):
            if rng.below(4) == 0:
                listed[i] = None
        for _ in range(nactions):
            if rng.below(10) == 0:
                do_reload()
                if rng.below(3) == 0:
                    do_reload()
                continue
            i = rng.below(ndocs)
            if texts[i] is None:
                do_open(i)
                continue
            r = rng.below(20)
            if r <= 1:
                do_close(i)
                if rng.below(2):
                    do_open(i)
            elif r == 2:
                do_open(i)
            else:
                do_change(i)
                if st["checks"] < 3 and rng.below(2 if lowered[i] else 12) == 0:
                    do_check()
        if all(t is None for t in texts):
            do_open(0)
            do_change(0)
    if any(texts[i] is not None and listed[i] is None for i in range(ndocs)):
        # every open document back into a library: only then a client can observe what the server holds
        do_reload(None, [listed[i] or "lib%d" % i for i in range(ndocs)])
        for i in range(ndocs):
            if texts[i] is not None and unsynced[i] and rng.below(2):
                do_change(i)
    do_check()
    st["notifications"] = sum(1 for x in script if x["op"] != "check")
    mark_init()
    return [{"op": "init", "listed": init_listed[0]}] + script, st


def canon_json(x):
    return json.dumps(x, sort_keys=True)


def observe_docs(ls, view, uris, open_docs):
    """What a server holds for the open documents, as far as a client can see it."""
    from vlib import lsp
    cv = lsp.canon_view(view)
    obs = {}
    for i in open_docs:
        u = uris[i]
        sym, _ = ls.call("textDocument/documentSymbol", {"textDocument": {"uri": u}})
        tok, _ = ls.call("textDocument/semanticTokens/full", {"textDocument": {"uri": u}})
        syms = sym.get("result") or []
        obs[str(i)] = {"diagnostics": [list(d) for d in cv.get(u, [])],
                       "symbols": sorted(canon_json(x) for x in syms) if isinstance(syms, list) else canon_json(syms),
                       "tokens": (tok.get("result") or {}).get("data") if isinstance(tok.get("result"), dict) else tok.get("result"),
                       "errors": [canon_json(r["error"]) for r in (sym, tok) if "error" in r]}
    return json.loads(json.dumps(obs))


def play_long(binpath, ws, ndocs, script):
    """Replays the script on one server; at every check a fresh server gets the client's texts.
    Returns (verdict or None, details)."""
    from vlib import lsp
    os.makedirs(ws, exist_ok=True)
    toml = os.path.join(ws, "vhdl_ls.toml")

    def write_toml(listing):
        with open(toml, "w") as f:
            f.write("[libraries]\n" + "".join("%s.files = ['d%d.vhd']\n" % (listing[i], i) for i in range(ndocs) if listing[i]))
    listed = ["lib%d" % i for i in range(ndocs)]
    if script and script[0]["op"] == "init":
        listed = list(script[0]["listed"])
    write_toml(listed)
    for i in range(ndocs):
        with open(os.path.join(ws, "d%d.vhd" % i), "w") as f:
            f.write(doc_text(i))
    uris = [lsp.uri(os.path.join(ws, "d%d.vhd" % i)) for i in range(ndocs)]
    texts = [None] * ndocs
    ls = lsp.LS(binpath, ws)
    nchecks = 0
    try:
        _r, others = ls.initialize()
        view = lsp.publish_map(others)
        for n, step in enumerate(script):
            if step["op"] == "open":
                i = step["doc"]
                texts[i] = py_normalize(step["text"])
                ls.notify("textDocument/didOpen", {"textDocument": {"uri": uris[i], "languageId": "vhdl",
                                                                     "version": step["version"], "text": step["text"]}})
            elif step["op"] == "change":
                i = step["doc"]
                for ch in step["changes"]:
                    texts[i] = py_apply(texts[i], ch)
                ls.notify("textDocument/didChange", {"textDocument": {"uri": uris[i], "version": step["version"]},
                                                       "contentChanges": step["changes"]})
            elif step["op"] == "close":
                texts[step["doc"]] = None
                ls.notify("textDocument/didClose", {"textDocument": {"uri": uris[step["doc"]]}})
            elif step["op"] == "init":
                pass
            elif step["op"] == "reload":
                # the server reads vhdl_ls.toml when it handles the notification: everything sent so far first
                lsp.publish_map(ls.sync(), view)
                listed = list(step["listed"])
                write_toml(listed)
                other = lsp.uri(os.path.join(ws, "other.vhd"))
                if step["kind"] == "watched":
                    ls.notify("workspace/didChangeWatchedFiles", {"changes": [{"uri": lsp.uri(toml), "type": 2}]})
                elif step["kind"] == "create":
                    ls.notify("workspace/didCreateFiles", {"files": [{"uri": other}]})
                elif step["kind"] == "rename":
                    ls.notify("workspace/didRenameFiles", {"files": [{"oldUri": other, "newUri": other + "l"}]})
                else:
                    ls.notify("workspace/didDeleteFiles", {"files": [{"uri": other}]})
                lsp.publish_map(ls.sync(), view)
            else:
                lsp.publish_map(ls.sync(), view)
                # a document that is in no library at the moment has no observable diagnostics / symbols
                open_docs = [i for i in range(ndocs) if texts[i] is not None and listed[i]]
                try:
                    inc = observe_docs(ls, view, uris, open_docs)
                except lsp.ServerDied as ex:
                    ls.kill()
                    return "server died answering documentSymbol / semanticTokens after the edits: %s" % str(ex)[:300], {"messages": script[:n + 1]}
                ls2 = lsp.LS(binpath, ws)
                try:
                    _r, o2 = ls2.initialize()
                    v2 = lsp.publish_map(o2)
                    for i in open_docs:
                        ls2.notify("textDocument/didOpen", {"textDocument": {"uri": uris[i], "languageId": "vhdl", "version": 0,
                                                                              "text": texts[i]}})
                    lsp.publish_map(ls2.sync(), v2)
                    fresh = observe_docs(ls2, v2, uris, open_docs)
                    ls2.shutdown()
                except lsp.ServerDied as ex:
                    ls2.kill()
                    ls.kill()
                    return "fresh server died on the client's texts: %s" % str(ex)[:300], {"messages": script[:n + 1]}
                nchecks += 1
                for i in open_docs:
                    a, b = inc[str(i)], fresh[str(i)]
                    if a != b:
                        what = [k for k in ("diagnostics", "symbols", "tokens", "errors") if a[k] != b[k]]
                        ls.shutdown()
                        return ("long-lived server: after open/edit/close/re-open/config-reload histories the server's view (%s) of document d%d "
                                "differs from a fresh server that opened the client's text (plain-string splice of every "
                                "change in listed order)" % (", ".join(what), i),
                                {"messages": script[:n + 1], "document": i, "client_text": texts[i],
                                 "long_lived": a, "fresh": b})
            if step["op"] in ("open", "change", "close") and n % 4 == 3:
                lsp.publish_map(ls.sync(), view)
        ls.shutdown()
    except lsp.ServerDied as ex:
        ls.kill()
        return "long-lived server died during the session: %s" % str(ex)[:300], {"messages": script}
    return None, {"checks": nchecks}


N_FIXED_LONG = 4


def lsp_long_session(binpath, wsdir, k, sd, script=None, ndocs=None):
    rng = PyRng(sd * 7000003 + 104729 * k + 11)
    if script is None:
        if k < N_FIXED_LONG:
            ndocs = 2
            script, st = long_script(rng, ndocs, 0, fixed=k)
        else:
            ndocs = 1 + rng.below(3)
            script, st = long_script(rng, ndocs, 14 + rng.below(12))
    else:
        st = {}
    rec = {"kind": "lsp-long-session", "session": k, "seed": sd, "docs": ndocs, "script": script, "stats": st}
    verdict, det = play_long(binpath, os.path.join(wsdir, "L%d" % k), ndocs, script)
    rec.update(det)
    return rec, verdict


def lsp_stage(res, n, only=None, nlong=0, replay_long=None):
    from concurrent.futures import ThreadPoolExecutor
    ok, log, binpath = vhdl_ls_build()
    if not ok:
        res.violation("vhdl_ls build failed against the current /repo tree", {"kind": "build", "log": log[-3000:]},
                      no_failing_input=True)
        return
    wsdir = os.path.join(rundir(PROP), "ws")
    import shutil
    shutil.rmtree(wsdir, ignore_errors=True)
    os.makedirs(wsdir)
    sd = seed()
    if replay_long is not None:
        jobs = [("long", replay_long["session"], replay_long["seed"], replay_long["script"], replay_long["docs"])]
    elif only is not None:
        jobs = [("short", only[0], only[1])]
    else:
        # the long sessions first: they take longest
        jobs = [("long", k, sd, None, None) for k in range(nlong)] + [("short", k, sd) for k in range(n)]

    def work(j):
        if j[0] == "long":
            return ("long",) + lsp_long_session(binpath, wsdir, j[1], j[2], j[3], j[4])
        return ("short",) + lsp_session(binpath, wsdir, j[1], j[2])
    with ThreadPoolExecutor(max_workers=8) as ex:
        results = list(ex.map(work, jobs))
    nd = 0
    short = [(rec, verdict) for kind, rec, verdict in results if kind == "short"]
    longs = [(rec, verdict) for kind, rec, verdict in results if kind == "long"]
    for rec, verdict in short:
        nontriv = any("range" in c and (c["range"]["end"]["line"] > 8 or c["range"]["end"]["character"] > 11 or "\n" in c["text"])
                      for b in rec["batches"] for c in b)
        res.count_case("lsp:" + json.dumps([rec.get("open_text"), rec["batches"]], sort_keys=True), nontriv)
        if rec.get("incremental"):
            nd += 1
        if verdict:
            res.violation(verdict, rec)
    if short:
        res.add_sample({"lsp_session_batches": short[0][0]["batches"], "final_text": short[0][0]["final_text"]}, limit=8)
        res.coverage["lsp_sessions"] = len(short)
        res.coverage["lsp_sessions_with_diagnostics"] = nd
    if longs:
        tot = {}
        for rec, verdict in longs:
            stt = rec.get("stats") or {}
            # non-trivial: the same URI was opened again below its earlier maximum version and edited afterwards
            res.count_case("lsp-long:" + json.dumps(rec["script"], sort_keys=True), stt.get("edits_below_max_after_reopen", 0) > 0)
            for k, v in stt.items():
                if isinstance(v, dict):
                    d = tot.setdefault(k, {})
                    for kk, vv in v.items():
                        d[kk] = d.get(kk, 0) + vv
                else:
                    tot[k] = tot.get(k, 0) + int(v)
            tot["fresh_server_comparisons"] = tot.get("fresh_server_comparisons", 0) + rec.get("checks", 0)
            if verdict:
                res.violation(verdict, rec)
        res.add_sample({"lsp_long_session_script": longs[-1][0]["script"][:12]}, limit=8)
        res.coverage["lsp_long_sessions"] = len(longs)
        res.coverage["lsp_long_sessions_stats"] = tot


def main(tier, replay=None):
    res = Result(PROP, tier, level="proof")
    d = rundir(PROP)
    proof_ok = proof_stage(res, PROP, thorough=(tier == "thorough"))
    ok, log, hbin = harness_build("c10")
    if not ok:
        res.violation("harness build failed against the current /repo tree", {"kind": "build", "log": log[-3000:]},
                      no_failing_input=True)
        return res.finish()
    ok, log, mbin = ocaml_build("c10_run")
    if not ok:
        res.violation("extracted model build failed", {"kind": "build", "log": log[-3000:]}, no_failing_input=True)
        return res.finish()

    def stream(tag, mode, n, sample_every):
        cases, impl, model = (os.path.join(d, "%s.%s" % (tag, x)) for x in ("cases", "impl", "model"))
        rc, out = run([hbin, mode, str(seed()), str(n), cases, impl], timeout=3000)
        if rc != 0:
            res.violation("harness c10 crashed in mode %s" % mode, {"kind": "harness", "log": out[-2000:]}, no_failing_input=True)
            return []
        with open(cases) as fin, open(model, "w") as fout:
            p = subprocess.run([mbin], stdin=fin, stdout=fout)
        if p.returncode != 0:
            res.violation("extracted model runner failed", {"kind": "build"}, no_failing_input=True)
            return []
        return compare(res, tag, cases, impl, model, sample_every)

    sampled = []
    if replay and json.load(open(replay)).get("kind") == "lsp-session":
        rp = json.load(open(replay))
        lsp_stage(res, 1, only=(rp["session"], rp["seed"]))
        return res.finish()
    if replay and json.load(open(replay)).get("kind") == "lsp-long-session":
        rp = json.load(open(replay))
        if "messages" in rp:
            # the message list up to the failing comparison is the replay
            rp["script"] = rp["messages"] + ([] if rp["messages"][-1]["op"] == "check" else [{"op": "check"}])
        lsp_stage(res, 0, replay_long=rp)
        return res.finish()
    if replay:
        rp = json.load(open(replay))
        path = os.path.join(d, "replay.in")
        open(path, "w").write(rp["case"] + "\n")
        sampled += stream("replay", "file:" + path, 0, 1)
    else:
        corpus = os.path.join(VERIF, "corpus", "C10.cases")
        if os.path.exists(corpus):
            sampled += stream("corpus", "file:" + corpus, 0, 1)
        sampled += stream("exhaustive", "exhaustive4" if tier == "thorough" else "exhaustive3", 0, 3000)
        sampled += stream("random", "random", 1000000 if tier == "thorough" else 30000, 150)
        # histories through an EMPTY document (new file / select-all-delete / full text ""), then a ranged insert of
        # non-ASCII text (2-, 3- and 4-byte characters) and ranged edits behind those characters on their lines
        sampled += stream("emptystart", "emptystart", 200000 if tier == "thorough" else 8000, 100)
        # "special" characters (U+FEFF, U+FFFE, U+2028, U+2029, NEL, NUL, VT, FF, ...) as FIRST character and elsewhere of
        # initial texts (Contents::from_str) and full-text replacements, then ranged edits on the affected line
        sampled += stream("exhaustive-special", "exhaustive-special", 0, 2000)
        sampled += stream("special", "special", 200000 if tier == "thorough" else 8000, 100)
    coq_cross_check(res, sampled[:400])
    if not replay:
        lsp_stage(res, 400 if tier == "thorough" else 48, nlong=100 if tier == "thorough" else 14)
    res.coverage["exhaustive"] = False
    res.coverage["rule"] = ("corpus of minimised failures first; exhaustive single ranged changes over documents <= 3 chars "
                            "(thorough: 4) of {a, LF, CR, U+1F600}, replacements <= 2 (3) chars, all ordered position pairs "
                            "line<=3/char<=4; random histories of 1-8 edits over {a,b,TAB,LF,CR,e-acute,euro,U+1F600,space} with "
                            "positions inside, at and beyond line/document ends (incl. 2^32-1) and 1/16 inverted ranges; "
                            "histories through an EMPTY document (new file, select-all-delete, full text \"\") followed by a ranged "
                            "insert of text with 2-, 3- and 4-byte characters and 1-5 ranged edits at UTF-16 columns behind those "
                            "characters on their lines; 'special' characters (U+FEFF, U+FFFE, U+2028, U+2029, NEL, NUL, VT, FF, NBSP, ZWSP, "
                            "U+FFFD, U+FFFF, U+D7FF, U+E000, U+10000, U+10FFFF) as FIRST character and elsewhere of initial texts "
                            "(Contents::from_str) and full-text replacements followed by ranged edits on the affected line: exhaustive "
                            "for documents <= 3 chars over {a, LF, U+FEFF, U+2028} reaching the buffer as initial text and as full-text "
                            "change (6.6e4 cases) + random histories; the random and empty-start alphabets include them too. "
                            "LSP: 48 one-document sessions (batched didChange, fresh server per session; 1/3 of the opened and "
                            "full-text texts start with a special character, then edits at small columns of line 0) and "
                            "long-lived-server sessions (4 scripted + random: 1-3 documents interleaved, open / edits / close / RE-OPEN of "
                            "the same URI with version numbering restarting at 1 or 0, constant, equal to, below, decreasing from the "
                            "earlier maximum, with gaps or continuing; full-text and ranged changes mixed, multi-change notifications "
                            "listed bottom-up and top-down; CONFIG RELOADS interleaved with the edits: vhdl_ls.toml rewritten so that "
                            "documents with unsaved text leave all libraries / come back / move to another library / stay, non-project "
                            "files opened and edited before they are listed, two and more reloads in a row, reload through "
                            "didChangeWatchedFiles on the toml and through didCreateFiles / didRenameFiles / didDeleteFiles; a document "
                            "in no library is compared once it is listed again) compared at checkpoints (diagnostics + documentSymbol + semanticTokens/full "
                            "of every open document) with a fresh server that opened the client's own texts. "
                            "non-trivial = a ranged edit with a multi-line replacement, an out-of-range position or a "
                            "supplementary-plane character; for a long-lived-server session: a URI re-opened below its earlier "
                            "maximum version and edited afterwards (config-reload coverage is counted in lsp_long_sessions_stats); distinct by hash of the case line / message script")
    res.coverage["trusted_base"] = TRUSTED_BASE_COMMON + [
        "characters (Unicode scalars) instead of UTF-8 bytes in the model: bytes 10 and 13 never occur inside a multi-byte sequence",
        "model line numbers are nat: the extracted-model comparison uses lines < 5000; larger values are covered by the plain-string oracle only",
    ]
    res.coverage["partial"] = False
    res.assumptions = ["the reference string is kept normalised after every step and the raw replacement text is spliced in (DESIGN.md 4.0)",
                       "ranges with start > end are outside the claim for text equality (checked only for absence of panics)"]
    return res.finish()
