"""C18 — The two front ends agree on lexing and accept the same valid code.

Stages: (1) Coq theorems of Props/C18.v (build, lint, Print Assumptions); (2) keyword table of vhdl_lang ==
table of the Coq model; (3) LEXEME AGREEMENT: corpus, exhaustive short strings, random lexeme soups (generous /
minimal / mixed spacing) and mutated library slices through BOTH real lexers (harness `c18 lex`, which also
evaluates the implementation-level ORACLE: clean for both, no directive/pragma => identical lexeme sequences)
and through the two extracted lexer models + the reference splitter (`c18_run`); (4) ACCEPTANCE: every bundled
library file and generated LRM-valid programs (generous and minimal legal spacing) through VHDLParser,
vhdl_syntax::parser::parse and SyntaxNode::validate: zero diagnostics each; (5) a sample re-evaluated inside
Coq with vm_compute."""
import json
import os
import re
import subprocess
from vlib.common import *

PROP = "C18"
PSL_WORDS = (b"assume_guarantee", b"restrict_guarantee")


def case_bytes(line):
    return bytes(int(x) for x in line.split())


def printable(bs):
    return bs.decode("latin-1").encode("unicode_escape").decode("ascii")


def unhex_list(field):
    return [bytes.fromhex(x) for x in field.split(",")] if field else []


def proposed_findings():
    """known_findings.json entries of C18 plus the entries proposed in corpus/C18.findings.json (same id: the
    committed entry wins)."""
    out = {}
    p = os.path.join(VERIF, "corpus", "C18.findings.json")
    if os.path.exists(p):
        for e in json.load(open(p)).get("findings", []):
            if e.get("property") == PROP:
                out[e["id"]] = e
    for e in known_findings(PROP):
        out[e.get("id", "?")] = e
    return [e for e in out.values() if e.get("kind") == "open"]


def classify_bad(raw, ll, sl):
    """Class of the FIRST differing lexeme pair of a clean input (A, B, C, D) or None."""
    i = 0
    while i < len(ll) and i < len(sl) and ll[i] == sl[i]:
        i += 1
    a = ll[i] if i < len(ll) else None
    b = sl[i] if i < len(sl) else None
    if a is None or b is None:
        return None
    # B: vhdl_syntax has a based literal written with ':' where vhdl_lang has its integer part
    if re.match(rb"^[0-9_]+:[0-9A-Za-z]", b) and re.match(rb"^[0-9_]+$", a) and b.startswith(a + b":"):
        return "B"
    # C: vhdl_syntax merged a non-integer abstract literal with a bit string
    if b.startswith(a) and re.match(rb"^[0-9]", a) and not re.match(rb"^[0-9_]+$", a) \
            and re.match(rb'^(?:[boxd]|[us][box])".*"$', b[len(a):], re.I | re.S):
        return "C"
    # A: tick after assume_guarantee / restrict_guarantee
    if len(a) == 3 and a[0:1] == b"'" and a[2:3] == b"'" and b == b"'" and i > 0 and ll[i - 1].lower() in PSL_WORDS:
        return "A"
    # D: CR LF between two ticks
    if a == b"'\n'" and b == b"'" and b"'\r\n'" in raw:
        return "D"
    return None


class Stats:
    def __init__(self):
        self.verdicts = {}
        self.sizes = {}
        self.lexemes = 0
        self.clean_both = 0
        self.clean_lang_only = 0
        self.clean_syn_only = 0
        self.flagged = 0
        self.with_cr = 0
        self.with_latin = 0
        self.spec_checked = 0
        self.known_hits = {}
        self.streams = {}
        self.accept = {}


def compare_lex(res, st, tag, cases, impl, model, sample_every, findings, pending):
    sampled = []
    n = 0
    by_class = {e.get("match", {}).get("class"): e for e in findings}
    with open(cases) as fc, open(impl) as fi, open(model) as fm:
        for c, i, m in zip(fc, fi, fm):
            n += 1
            c = c.rstrip("\n")
            raw = case_bytes(c)
            f = (i.rstrip("\n").split("|") + [""] * 6)[:6]
            g = (m.rstrip("\n").split("|") + [""] * 7)[:7]
            lc, llh, sc, slh, flags, verdict = f
            mlc, mllh, msc, mslh, mflags, spec, mknown = g
            clean = lc == "1" and sc == "1"
            nontrivial = clean and not flags and (len(raw) >= 3)
            res.count_case("lex " + c, nontrivial)
            b = min(len(raw) // 10 * 10, 100)
            st.sizes[b] = st.sizes.get(b, 0) + 1
            vk = verdict.split(":")[0]
            st.verdicts[vk] = st.verdicts.get(vk, 0) + 1
            if clean:
                st.clean_both += 1
                st.lexemes += llh.count(",") + 1 if llh else 0
            elif lc == "1":
                st.clean_lang_only += 1
            elif sc == "1":
                st.clean_syn_only += 1
            if flags:
                st.flagged += 1
            if 13 in raw:
                st.with_cr += 1
            if any(x > 126 for x in raw):
                st.with_latin += 1
            if n % 4000 == 1:
                res.add_sample({"stream": tag, "case": c, "text": printable(raw), "lang_clean": lc, "lang_lexemes":
                                [printable(x) for x in unhex_list(llh)][:30], "syntax_clean": sc, "syntax_lexemes":
                                [printable(x) for x in unhex_list(slh)][:30], "verdict": verdict})
            if sample_every and n % sample_every == 0 and len(raw) <= 80 and mllh != "ABORT" and mslh != "ABORT":
                sampled.append((c, mlc, mllh, msc, mslh))
            base = {"stream": "lex", "case": "L " + c, "text": printable(raw), "lang_clean": lc, "syntax_clean": sc,
                    "lang_lexemes": [printable(x) for x in unhex_list(llh)],
                    "syntax_lexemes": [printable(x) for x in unhex_list(slh)],
                    "replay_cmd": "./check C18 --replay <this file>"}
            if verdict.startswith("PANIC"):
                pending["n_input"] += 1
                if len(pending["input"]) < 6:
                    pending["input"].append(("a lexer panics on this input: " + verdict[:300], dict(base, kind="input", oracle=verdict)))
                continue
            if verdict.startswith("BAD"):
                cls = classify_bad(raw, unhex_list(llh), unhex_list(slh))
                e = by_class.get(cls) if cls else None
                if e is not None:
                    fid = e.get("id", "?")
                    if fid not in st.known_hits:
                        st.known_hits[fid] = 0
                        la, sa = unhex_list(llh), unhex_list(slh)
                        k = 0
                        while k < len(la) and k < len(sa) and la[k] == sa[k]:
                            k += 1
                        res.known_finding("%s class=%s input=%s :: from lexeme %d vhdl_lang %s / vhdl_syntax %s" % (
                            fid, cls, json.dumps(printable(raw)), k, json.dumps([printable(x) for x in la[k:k + 4]]),
                            json.dumps([printable(x) for x in sa[k:k + 4]])))
                    st.known_hits[fid] += 1
                else:
                    pending["n_input"] += 1
                    if len(pending["input"]) < 6:
                        pending["input"].append((
                            "lexeme sequences of vhdl_lang and vhdl_syntax differ on an input that is lexically clean for "
                            "both and has no tool directive/pragma: " + verdict[:200], dict(base, kind="input", oracle=verdict)))
                    continue
            # correspondence: implementation vs the two extracted models
            if (lc, llh, sc, slh, flags) != (mlc, mllh, msc, mslh, mflags):
                pending["n_corr"] += 1
                if len(pending["corr"]) < 4:
                    which = "vhdl_lang Tokenizer/TokenStream vs RH.Lex.LangLexer" if (lc, llh) != (mlc, mllh) else \
                        "vhdl_syntax Tokenizer+merge vs RH.Lex.SynLexer"
                    pending["corr"].append((
                        "correspondence broken: lexemes/cleanliness of the implementation differ from the Coq model (%s)" % which,
                        dict(base, kind="correspondence", correspondence=which, model_lang_clean=mlc, model_syntax_clean=msc,
                             model_lang_lexemes=[printable(x) for x in unhex_list(mllh)],
                             model_syntax_lexemes=[printable(x) for x in unhex_list(mslh)])))
                continue
            # the reference splitter against each model where the (partly proved) step lemmas apply
            if not mflags and spec:
                if 13 in raw and spec.startswith("+"):
                    # a line break inside a lexeme reads as LF (Agree.norm_eol)
                    spec = "+" + ",".join(x.replace(b"\r\n", b"\n").replace(b"\r", b"\n").hex() for x in unhex_list(spec[1:]))
                if mlc == "1" and "D" not in mknown:
                    st.spec_checked += 1
                    if spec != "+" + mllh:
                        pending["n_spec"] += 1
                        if len(pending["spec"]) < 3:
                            pending["spec"].append((
                                "split_spec differs from the vhdl_lang model on a clean input (statement C18_lang_is_spec)",
                                dict(base, kind="theorem", theorem="C18_lang_is_spec", spec=spec)))
                if msc == "1":
                    st.spec_checked += 1
                    if spec != "+" + mslh:
                        pending["n_spec"] += 1
                        if len(pending["spec"]) < 3:
                            pending["spec"].append((
                                "split_spec differs from the vhdl_syntax model on a clean input (statement C18_syn_is_spec)",
                                dict(base, kind="theorem", theorem="C18_syn_is_spec", spec=spec)))
    st.streams[tag] = n
    return sampled


def compare_accept(res, st, tag, cases, impl, findings, pending):
    n = 0
    with open(cases, encoding="latin-1") as fc, open(impl, encoding="latin-1") as fi:
        for c, i in zip(fc, fi):
            n += 1
            c = c.rstrip("\n")
            f = (i.rstrip("\n").split("|", 3) + [""] * 4)[:4]
            nl, ns, nv, detail = f
            kind = c.split(" ", 1)[0]
            if kind == "O":
                text = c[2:]
                label = "optional-parts family"
            elif kind == "G":
                _, style, hx = c.split(" ", 2)
                text = bytes.fromhex(hx).decode("latin-1")
                label = "generated program (%s spacing)" % ("generous" if style == "g" else "minimal")
            elif kind == "F":
                text = None
                label = "file " + c[2:]
            else:
                text = c[2:]
                label = "corpus unit"
            res.count_case("accept " + c[:4000], True)
            key = "%s:%s" % (tag, "ok" if (nl, ns, nv) == ("0", "0", "0") else "rejected")
            st.accept[key] = st.accept.get(key, 0) + 1
            if n % 150 == 1 and text is not None:
                res.add_sample({"stream": "accept/" + tag, "source": text[:400], "lang_diagnostics": nl,
                                "syntax_errors": ns, "validation_findings": nv})
            if (nl, ns, nv) != ("0", "0", "0") and kind == "T":
                hit = None
                for e in findings:
                    if text in e.get("match", {}).get("inputs", []):
                        hit = e
                        break
                if hit is not None:
                    fid = hit.get("id", "?")
                    if fid not in st.known_hits:
                        st.known_hits[fid] = 0
                        res.known_finding("%s acceptance source=%s :: VHDLParser diagnostics=%s vhdl_syntax errors=%s validate=%s :: %s" % (
                            fid, json.dumps(text), nl, ns, nv, detail[:160]))
                    st.known_hits[fid] += 1
                    continue
            if (nl, ns, nv) != ("0", "0", "0"):
                who = []
                if nl != "0":
                    who.append("VHDLParser reports %s diagnostic(s)" % nl if nl != "-1" else "VHDLParser panics")
                if ns != "0":
                    who.append("vhdl_syntax::parser::parse reports %s error(s)" % ns if ns != "-1" else "vhdl_syntax parser panics")
                if nv not in ("0", "-1"):
                    who.append("SyntaxNode::validate reports %s finding(s)" % nv)
                pending["n_input"] += 1
                if len(pending["input"]) < 6:
                    pending["input"].append((
                        "an LRM-valid source (%s) is not accepted: %s :: %s" % (label, "; ".join(who), detail[:300]),
                        {"kind": "input", "stream": "accept", "case": c, "source": text, "lang_diagnostics": nl,
                         "syntax_errors": ns, "validation_findings": nv, "detail": detail,
                         "replay_cmd": "./check C18 --replay <this file>"}))
    st.streams["accept/" + tag] = n


def coq_cross_check(res, sampled):
    if not sampled:
        return

    def ns(bs):
        return "[" + "; ".join(str(x) for x in bs) + "]"

    items = []
    for c, mlc, mllh, msc, mslh in sampled:
        raw = case_bytes(c)
        items.append("(%s, (%s, [%s]), (%s, [%s]))" % (
            ns(raw), "true" if mlc == "1" else "false", "; ".join(ns(x) for x in unhex_list(mllh)),
            "true" if msc == "1" else "false", "; ".join(ns(x) for x in unhex_list(mslh))))
    pre = ("From Coq Require Import List NArith Bool.\nImport ListNotations.\n"
           "From RH Require Import Lex.LexGrammar Lex.Agree.\nOpen Scope N_scope.\n"
           "Definition lsb (x y : list (list N)) : bool := opt_lexemes_eqb (Some x) (Some y).\n"
           "Definition resb (r : option (bool * list (list N))) (e : bool * list (list N)) : bool :=\n"
           "  match r with Some (c, l) => Bool.eqb c (fst e) && lsb l (snd e) | None => false end.\n"
           "Definition cases : list (list N * (bool * list (list N)) * (bool * list (list N))) := [\n"
           + ";\n".join(items) + "].\n")
    body = ("forallb (fun c : list N * (bool * list (list N)) * (bool * list (list N)) => match c with (s, el, es) => "
            "resb (lang_result s) el && resb (syn_result s) es end) cases")
    v, log = coq_eval_bool(PROP, "sample", pre, body)
    res.coverage["in_coq_vm_compute_cases"] = len(items)
    if v is not True:
        res.violation("extracted models and in-Coq evaluation (vm_compute) of lang_result/syn_result disagree on the sampled cases",
                      {"kind": "correspondence", "correspondence": "extraction vs vm_compute (RH.Lex.Agree)",
                       "log": log[-2000:]}, no_failing_input=True)


def main(tier, replay=None):
    res = Result(PROP, tier, level="other")
    d = rundir(PROP)
    thorough = tier == "thorough"
    proof_stage(res, PROP, extra_targets=(["Props/C18Sweep.vo"] if thorough else []), thorough=thorough)
    ok, log, hbin = harness_build("c18")
    if not ok:
        res.violation("harness build failed against the current /repo tree", {"kind": "build", "log": log[-3000:]},
                      no_failing_input=True)
        return res.finish()
    ok, log, mbin = ocaml_build("c18_run")
    if not ok:
        res.violation("extracted model build failed", {"kind": "build", "log": log[-3000:]}, no_failing_input=True)
        return res.finish()

    # keyword table of vhdl_lang vs the Coq model (vhdl_syntax's table is compared by C17)
    rc1, kw_impl = run([hbin, "keywords"], timeout=120)
    rc2, kw_model = run([mbin, "keywords"], timeout=120)
    kw_l = [x[2:] for x in kw_model.split("\n") if x.startswith("L ")]
    kw_s = [x[2:] for x in kw_model.split("\n") if x.startswith("S ")]
    res.coverage["keywords"] = {"vhdl_lang": len(kw_impl.split()), "vhdl_syntax_model": len(kw_s),
                                "only_vhdl_lang": sorted(set(kw_l) - set(kw_s)), "only_vhdl_syntax": sorted(set(kw_s) - set(kw_l))}
    if rc1 != 0 or rc2 != 0 or kw_impl.split() != kw_l or not kw_l:
        res.violation("keyword table of vhdl_lang differs from RH.Lex.LangLexer.keywords_2008",
                      {"kind": "correspondence", "correspondence": "VHDLStandard::keywords vs keywords_2008",
                       "impl": kw_impl.split(), "model": kw_l}, no_failing_input=True)

    findings = proposed_findings()
    pending = {"input": [], "corr": [], "spec": [], "n_input": 0, "n_corr": 0, "n_spec": 0}
    st = Stats()

    def run_harness(args, cases):
        try:
            p = subprocess.run([hbin] + args, stdout=subprocess.PIPE, stderr=subprocess.STDOUT, timeout=6000, env=env_base())
            rc, out = p.returncode, p.stdout.decode("utf-8", "replace")
        except subprocess.TimeoutExpired:
            rc, out = 124, "timeout"
        if rc != 0:
            last = ""
            if os.path.exists(cases):
                with open(cases, encoding="latin-1") as f:
                    for last in f:
                        pass
            last = last.rstrip("\n")
            res.violation("a front end hangs or crashes the process on this input (harness rc=%s)" % rc,
                          {"kind": "input", "stream": args[0], "case": ("L " + last) if args[0] == "lex" else last,
                           "log": out[-1500:], "replay_cmd": "./check C18 --replay <this file>"})
        return rc

    CHUNK = 20000

    def lex_stream(tag, mode, n, sample_every):
        cases, impl, model = (os.path.join(d, "lex_%s.%s" % (tag, x)) for x in ("cases", "impl", "model"))
        for p in (cases, impl, model):
            if os.path.exists(p):
                os.remove(p)
        if mode in ("random", "slices") and n > CHUNK:
            # vhdl_syntax interns every token text in a process-global Vec with a linear lookup
            # (token_interning.rs): a long-running process becomes quadratic.  Generated streams are
            # therefore produced by several harness processes of CHUNK cases each (seed -> seed*1000+i),
            # up to 8 at a time, and concatenated in order.
            import concurrent.futures
            parts = []
            k = 0
            left = n
            while left > 0:
                m = min(CHUNK, left)
                parts.append((k, m, cases + ".%d" % k, impl + ".%d" % k))
                left -= m
                k += 1

            def one(part):
                k, m, pc, pi = part
                return run_harness(["lex", mode, str(seed() * 1000 + k), str(m), pc, pi], pc)
            with concurrent.futures.ThreadPoolExecutor(max_workers=8) as ex:
                list(ex.map(one, parts))
            with open(cases, "wb") as fc, open(impl, "wb") as fi:
                for k, m, pc, pi in parts:
                    for src, dst in ((pc, fc), (pi, fi)):
                        if os.path.exists(src):
                            with open(src, "rb") as f:
                                dst.write(f.read())
                            os.remove(src)
        else:
            run_harness(["lex", mode, str(seed()), str(n), cases, impl], cases)
        if not os.path.exists(cases) or not os.path.exists(impl):
            return []
        with open(cases) as fin, open(model, "w") as fout:
            p = subprocess.run([mbin], stdin=fin, stdout=fout)
        if p.returncode != 0:
            res.violation("extracted model runner failed", {"kind": "build"}, no_failing_input=True)
            return []
        return compare_lex(res, st, tag, cases, impl, model, sample_every, findings, pending)

    def accept_stream(tag, mode, n):
        cases, impl = (os.path.join(d, "accept_%s.%s" % (tag, x)) for x in ("cases", "impl"))
        for p in (cases, impl):
            if os.path.exists(p):
                os.remove(p)
        run_harness(["accept", mode, str(seed()), str(n), cases, impl], cases)
        if os.path.exists(cases) and os.path.exists(impl):
            compare_accept(res, st, tag, cases, impl, findings, pending)

    sampled = []
    corpus = os.path.join(VERIF, "corpus", "C18.cases")
    if replay:
        rp = json.load(open(replay))
        path = os.path.join(d, "replay.in")
        with open(path, "w", encoding="latin-1") as f:
            f.write(rp["case"] + "\n")
        if rp.get("stream") == "accept":
            accept_stream("replay", "file:" + path, 0)
        else:
            sampled += lex_stream("replay", "file:" + path, 0, 1)
    else:
        if os.path.exists(corpus):
            sampled += lex_stream("corpus", "file:" + corpus, 0, 1)
            accept_stream("corpus", "file:" + corpus, 0)
        sampled += lex_stream("exhaustive", "exhaustive4" if thorough else "exhaustive3", 0, 9001 if thorough else 301)
        sampled += lex_stream("random", "random", 1000000 if thorough else 20000, 20011 if thorough else 401)
        sampled += lex_stream("slices", "slices", 100000 if thorough else 4000, 5003 if thorough else 211)
        accept_stream("opt", "opt", 0)
        accept_stream("libs", "libs", 0)
        accept_stream("gen", "gen", 10000 if thorough else 400)

    for what, obj in pending["input"]:
        res.violation(what, obj)
    for what, obj in pending["corr"]:
        res.violation(what, obj, no_failing_input=True)
    for what, obj in pending["spec"]:
        res.violation(what, obj, no_failing_input=True)
    res.coverage["property_violating_inputs"] = pending["n_input"]
    res.coverage["correspondence_differences"] = pending["n_corr"]
    res.coverage["split_spec_differences"] = pending["n_spec"]
    coq_cross_check(res, sampled[:220])

    res.coverage["exhaustive"] = False
    res.coverage["streams"] = st.streams
    res.coverage["oracle_verdicts"] = st.verdicts
    res.coverage["clean_for_both"] = st.clean_both
    res.coverage["clean_for_vhdl_lang_only"] = st.clean_lang_only
    res.coverage["clean_for_vhdl_syntax_only"] = st.clean_syn_only
    res.coverage["with_tool_directive_or_pragma"] = st.flagged
    res.coverage["lexemes_compared_on_clean_inputs"] = st.lexemes
    res.coverage["cases_with_CR"] = st.with_cr
    res.coverage["cases_with_non_ascii_byte"] = st.with_latin
    res.coverage["input_length_histogram"] = {str(k): v for k, v in sorted(st.sizes.items())}
    res.coverage["split_spec_checked_against_models"] = st.spec_checked
    res.coverage["acceptance"] = st.accept
    res.coverage["known_finding_hits"] = st.known_hits
    res.coverage["rule"] = (
        "LEXEMES: corpus of minimised inputs first (F13 witnesses `1:= `, ticks, every delimiter glued, every literal form, "
        "the open differences and the repaired F41 inputs); all byte strings of length <= 3 (thorough: 4) over the 24-symbol alphabet {a b x e 1 _ \" ' "
        "\\ # : . - / * SP LF = < > ? ( ) CR}; random inputs from the seed: lexeme soups over identifiers, all 115 reserved "
        "words in random case, all delimiters incl. ?-operators << >>, decimal/real/based literals (# and :, exponents, "
        "underlines), bit strings (every base specifier, with length, doubled quotes), strings and extended identifiers with "
        "doubled quotes and Latin-1 letters, character literals and tick contexts, junk characters (% ! $ NBSP VT FF); joined "
        "with generous gaps (blanks, tabs, LF/CR/CRLF, line and block comments), with NO gap (minimal spacing) or mixed; random "
        "bytes; mutated windows of the bundled library files.  ACCEPTANCE: all bundled library files (example_project holds no "
        "VHDL file in this tree), the OPTIONAL-PARTS family (for every compound construct — case/case?, if, loops, process, block, all generate forms with alternative and end labels, subprogram bodies incl. operator symbols, packages, bodies, entities, architectures, configurations, contexts, records, protected types, units, components, every assignment/assert/wait/call form — the full cross product of its LRM-valid optional parts: [label :] ... end <kw> [?] [label]; about 5 500 design files, each with single blanks and with minimal spacing), generated programs (package + body, entity, architecture; declarations of every class, "
        "functions, components, processes with every sequential statement, concurrent assignments, instantiations, generate, "
        "block; expressions per type with every operator and literal form, extended identifiers) printed alternately with "
        "generous spacing (comments, CRLF) and minimal legal spacing (`1:=1`).  non-trivial = clean for both lexers, no "
        "directive/pragma and at least 3 bytes (lexemes) / every acceptance case; distinct by hash of the case line")
    res.coverage["trusted_base"] = TRUSTED_BASE_COMMON + [
        "vhdl_lang lexemes are the text between token positions cut by the harness (Latin-1: one column per byte; lines split "
        "at LF/CR/CRLF; a line break inside a lexeme reads as LF); vhdl_syntax lexemes are token texts with CR/CRLF read as LF",
        "the input is given to vhdl_lang as the UTF-8 string of the Latin-1 characters (Source::inline) and to vhdl_syntax as "
        "the Latin-1 bytes; the models work on scalars < 256 resp. bytes",
        "the generator of valid programs (harness/src/bin/c18/progen.rs) is trusted to emit LRM-valid VHDL-2008: a rejected "
        "program is inspected before it is reported as a finding",
        "the shared lexer models RH.Lex.LangLexer (C11) and RH.Lex.SynLexer (C17) and their own correspondence runs",
    ]
    res.coverage["partial"] = True
    res.coverage["explanation"] = (
        "THEOREM half (Props/C18.v, all closed under the global context): the property's first clause — for every "
        "Latin-1 input that is lexically clean for both lexer models, holds no grave accent and no `vhdl_ls`, and lies "
        "outside the one remaining difference of today's code (CR LF between two ticks, F43), the two models split it into the same lexeme sequence — is proved "
        "for ALL inputs (C18_lexemes_agree), through the reference longest-match splitter split_spec (LRM 15 lexeme "
        "grammar, independent of both models) that each model realises when clean (C18_lang_is_spec[_eol] over the reader "
        "model of vhdl_lang, C18_syn_is_spec[_eol] over the tokenizer + merge model of vhdl_syntax, arm by arm; "
        "C18_lexemes_are_spec; C18_split_spec_normalisation for CR / CR LF line breaks); an independent vm_compute "
        "evaluation of both models on ALL byte strings up to length 3 (thorough: 4) over a 24-symbol alphabet "
        "(C18_lexemes_agree_bounded); the refutation: the literal property is still false on today's code in one way "
        "(C18_crlf_character_refuted, reproduced on the real lexers and reported as KNOWN-FINDING F43); the repaired "
        "defects as regression lemmas: the pre-5ee4d03 tokenizer on `1:= ` (C18_clean_mismatch_old_refuted), the "
        "pre-f2c0e80 merge on `1.5x\"0\"` (C18_merge_any_literal_old_refuted), the pre-9360ea7 keyword table on "
        "`assume_guarantee'a'` (C18_psl_reserved_word_old_refuted) and agreement on `16:FF:` since bba3236 "
        "(C18_colon_based_literal_agree).  The models are tied to the code on every run: both real lexers against both "
        "extracted models on all generated inputs (lexemes and cleanliness), and split_spec against both; the "
        "implementation-level oracle is the differential of the two REAL lexers.  EXPLORATION half (second clause): "
        "acceptance by both real parsers + SyntaxNode::validate() on the bundled libraries and on generated valid programs "
        "in generous and minimal legal spacing; there is no model of the parsers, which is why the level is `other` and the "
        "claim is partial.")
    res.coverage["unproved"] = [
        "acceptance (second clause): no parser model; explored on libraries and generated programs only",
    ]
    res.assumptions = [
        "lexically clean = vhdl_lang's TokenStream::new pushes no diagnostic (errors and identifier warnings) AND no token of "
        "vhdl_syntax's merged stream carries a LexErr",
        "sources holding a grave accent (tool directive) or the text `vhdl_ls` (pragma comments) are outside the quantifier",
        "lexemes are compared as texts, letter case preserved; a line break inside a lexeme counts as LF",
        "the open lexing difference F43 is matched by the first differing lexeme pair of an input (F40, F41, F42 are fixed: a "
        "mismatch of their shape is a VIOLATION); the open acceptance findings F45, F47 by the exact text of their corpus "
        "unit (F44, F46, F48, F49 are fixed: their units must be accepted)",
    ]
    return res.finish()
