"""C08 — Definition and reference queries are mutually consistent.

Stages: (1) Coq theorems of Props/C08.v (searchers as folds over event trees; clause 1 unconditional, clause 2
under wf_forest; sort-based checker sound); (2) harness/src/bin/c08: for the bundled libraries, the corpus and
generated valid / mutated projects: event-forest extraction through the public Searcher API, brute-force ORACLE
of the three clauses on Project::item_at_cursor / find_all_references; (3) the extracted Coq model
(ocaml/c08_run.ml) answers the same cursor and reference queries on the extracted forest and evaluates the
checker; (4) comparison; (5) a sample is re-evaluated inside Coq with vm_compute."""
import json
import os
import subprocess
from concurrent.futures import ThreadPoolExecutor
from vlib.common import *

PROP = "C08"
DKIND_END = {"Type", "Component", "Subprogram", "Package", "PackageBody", "Configuration", "Entity", "Architecture", "Context", "View"}


def split_projects(path):
    """cases.txt -> list of (idx, name, text)"""
    out = []
    cur = None
    with open(path, encoding="utf-8") as f:
        for line in f:
            if line.startswith("P "):
                if cur:
                    out.append(cur)
                _, idx, name = line.rstrip("\n").split(" ", 2)
                cur = [int(idx), name, [line]]
            elif cur:
                cur[2].append(line)
    if cur:
        out.append(cur)
    return [(i, n, "".join(t)) for i, n, t in out]


def run_model(mbin, projs, d):
    """Runs the extracted model over the projects in parallel chunks; returns {idx: [output lines]}."""
    chunks = []
    cur, size = [], 0
    for p in projs:
        cur.append(p)
        size += len(p[2])
        if size > 600000:
            chunks.append(cur)
            cur, size = [], 0
    if cur:
        chunks.append(cur)

    def one(k_chunk):
        k, chunk = k_chunk
        inp = os.path.join(d, "chunk%d.in" % k)
        with open(inp, "w", encoding="utf-8") as f:
            for _, _, t in chunk:
                f.write(t)
        with open(inp) as fin:
            p = subprocess.run([mbin], stdin=fin, stdout=subprocess.PIPE, stderr=subprocess.PIPE)
        os.unlink(inp)
        return p.returncode, p.stdout.decode("utf-8", "replace"), p.stderr.decode("utf-8", "replace")[-500:]

    res = {}
    with ThreadPoolExecutor(max_workers=8) as ex:
        outs = list(ex.map(one, enumerate(chunks)))
    for chunk, (rc, out, err) in zip(chunks, outs):
        if rc != 0:
            return None, "model runner exit %d: %s" % (rc, err)
        lines = out.split("\n")
        pos = 0
        for idx, _, _ in chunk:
            mine = []
            while pos < len(lines):
                ln = lines[pos]
                pos += 1
                mine.append(ln)
                if ln == "E":
                    break
            res[idx] = mine
    return res, None


def coq_pos(f, a, b, c, d):
    return "(mkSrcPos %s (mkPos %s %s) (mkPos %s %s))" % (f, a, b, c, d)


def coq_forest(text):
    """cases text of one project -> (Coq definitions of the entities, Coq term of the forest)"""
    table = {}
    units = []
    stack = []
    top = None

    def ent(i, depth=4):
        if i == "-":
            return "None"
        return "(Some %s)" % ent_term(i, depth)

    def ent_term(i, depth=4):
        k, t = table.get(i, ("0", "0"))
        if depth == 0 or k == "0":
            return "(Ent %s RelNone)" % i
        return "(Ent %s (%s %s))" % (i, {"1": "ImplicitOf", "2": "InstanceOf", "3": "DeclaredBy", "4": "DerivedFrom"}[k], ent_term(t, depth - 1))

    def push(x):
        (stack[-1][1] if stack else top).append(x)

    for ln in text.split("\n"):
        w = ln.split(" ")
        if w[0] == "T":
            table[w[1]] = (w[2], w[3])
        elif w[0] == "U":
            while stack:
                mk, items = stack.pop()
                push(mk % "[" + "; ".join(items) + "]")
            top = []
            units.append((w[1], top))
        elif w[0] == "w":
            push("WithPos %s []" % coq_pos(*w[1:6]))
        elif w[0] == "W":
            stack.append(("WithPos " + coq_pos(*w[1:6]) + " %s", []))
        elif w[0] == "r":
            push("Ref %s %s []" % (coq_pos(*w[1:6]), ent(w[6])))
        elif w[0] == "R":
            stack.append(("Ref " + coq_pos(*w[1:6]) + " " + ent(w[6]) + " %s", []))
        elif w[0] == ")":
            mk, items = stack.pop()
            push("(" + mk % ("[" + "; ".join(items) + "]") + ")")
        elif w[0] == "D":
            semi = w.index(";")
            dp, ep = w[3:semi], w[semi + 1:]
            push("Decl %s %s %s %s" % (ent(w[1]), "None" if dp == ["-"] else "(Some %s)" % coq_pos(*dp),
                                       "None" if ep == ["-"] else "(Some %s)" % coq_pos(*ep), w[2]))
    while stack:
        mk, items = stack.pop()
        push("(" + mk % ("[" + "; ".join(items) + "]") + ")")
    fo = "[" + ";\n ".join("(%s, [%s])" % (f, ";\n   ".join(x if x.startswith("(") else "(" + x + ")" for x in evs)) for f, evs in units) + "]"
    return fo, ent_term


def coq_cross_check(res, projs, model):
    """vm_compute inside Coq on small projects: the extracted runner's answers must be reproduced."""
    small = [p for p in projs if 2000 < len(p[2]) < 120000 and p[0] in model][:3]
    n = 0
    for idx, name, text in small:
        fo, ent_term = coq_forest(text)
        qs = [l for l in text.split("\n") if l.startswith("Q ") or l == "K"]
        outs = [l for l in model[idx] if l and l != "E"]
        checks = []
        step = max(1, len(qs) // 60)
        for k in list(range(0, len(qs), step)) + [len(qs) - 1]:
            q, o = qs[k].split(" "), outs[k].split(" ")
            if q[:2] == ["Q", "C"]:
                exp = "None" if o[0] == "N" else "(Some (%s, %s))" % (coq_pos(*o[1:6]), o[6])
                checks.append("(optb (item_at_cursor fo %s (mkPos %s %s)) %s)" % (q[2], q[3], q[4], exp))
            elif q[:2] == ["Q", "A"]:
                exp = "[" + "; ".join(coq_pos(*x.split(":")) for x in o[1:]) + "]"
                checks.append("(listb (find_all_references fo %s) %s)" % (ent_term(q[2]), exp))
            elif q[0] == "K":
                checks.append("(Bool.eqb (wf_forest_fast fo) %s)" % ("true" if o[1] == "1" else "false"))
                if o[2] != "-":
                    checks.append("(Bool.eqb (wf_forest fo) %s)" % ("true" if o[2] == "1" else "false"))
        pre = ("From Coq Require Import List NArith Bool.\nImport ListNotations.\n"
               "From RH Require Import Search.Events Search.Searchers Search.WfFast.\nOpen Scope N_scope.\n"
               "Definition optb (x : option (srcpos * ent)) (y : option (srcpos * N)) : bool :=\n"
               "  match x, y with Some (p, e), Some (q, i) => srcpos_eqb p q && (ent_id e =? i) | None, None => true | _, _ => false end.\n"
               "Fixpoint listb (x y : list srcpos) : bool := match x, y with [] , [] => true | a :: r, b :: s => srcpos_eqb a b && listb r s | _, _ => false end.\n"
               "Definition fo : forest :=\n" + fo + ".\n")
        v, log = coq_eval_bool(PROP, "sample%d" % n, pre, " && ".join(checks) if checks else "true")
        n += 1
        res.coverage["in_coq_vm_compute_checks"] = res.coverage.get("in_coq_vm_compute_checks", 0) + len(checks)
        if v is not True:
            res.violation("extracted model and in-Coq evaluation (vm_compute) disagree on project %s" % name,
                          {"kind": "correspondence", "correspondence": "extraction vs vm_compute (RH.Search.Searchers)",
                           "log": log[-2000:]}, no_failing_input=True)


def main(tier, replay=None):
    res = Result(PROP, tier, level="proof")
    d = rundir(PROP)
    proof_stage(res, PROP, thorough=(tier == "thorough"))
    ok, log, hbin = harness_build("c08")
    if not ok:
        res.violation("harness build failed against the current /repo tree", {"kind": "build", "log": log[-3000:]},
                      no_failing_input=True)
        return res.finish()
    ok, log, mbin = ocaml_build("c08_run")
    if not ok:
        res.violation("extracted model build failed", {"kind": "build", "log": log[-3000:]}, no_failing_input=True)
        return res.finish()
    out = os.path.join(d, "replay" if replay else tier)
    n = 480 if tier == "thorough" else 110
    cmd = [hbin, "run", str(seed()), str(n), out, tier, os.path.join(VERIF, "corpus", "C08.cases")]
    if replay:
        cmd += ["--replay", replay]
    rc, hout = run(cmd, timeout=3000)
    if rc != 0:
        res.violation("harness c08 crashed", {"kind": "harness", "log": hout[-2000:]}, no_failing_input=True)
        return res.finish()
    projects = [json.loads(l) for l in open(os.path.join(out, "projects.jsonl"), encoding="utf-8")]
    oracle = [json.loads(l) for l in open(os.path.join(out, "oracle.jsonl"), encoding="utf-8")]
    projs = split_projects(os.path.join(out, "cases.txt"))
    impl_lines = open(os.path.join(out, "impl.txt"), encoding="utf-8").read().split("\n")
    model, err = run_model(mbin, projs, d)
    if model is None:
        res.violation("extracted model runner failed", {"kind": "build", "log": err}, no_failing_input=True)
        return res.finish()
    by_idx = {o["idx"]: o for o in oracle}
    proj_by_idx = {o["idx"]: p for o, p in zip(oracle, projects)}
    known = known_findings(PROP)

    def is_known(o, sample):
        """A violation sample is a known finding iff an entry of known_findings.json (property C08, kind open) matches it:
        every key of `match` equals the sample's value (`file_libraries_min`: the sample's file is mapped to at least that
        many libraries)."""
        for k in known:
            if k.get("kind") != "open":
                continue
            m = k.get("match", {})
            ok = bool(m)
            for a, b in m.items():
                if a == "file_libraries_min":
                    ok = ok and int(sample.get("file_libraries", 1)) >= int(b)
                else:
                    ok = ok and sample.get(a) == b
            if ok:
                return k
        return None

    stats = {"projects": 0, "valid": 0, "erroneous": 0, "empty": 0, "events": 0, "cursor_queries": 0, "reference_queries": 0,
             "reference_positions": 0, "inside_cursors": 0, "with_guards": 0, "ref_guards": 0, "unresolved_refs": 0,
             "end_identifiers": 0, "wf_true": 0, "wf_false": 0, "extraction_runs": 0, "kinds": {}, "decl_kinds": {}}
    nviol = 0
    known_projects = set()
    # ---- oracle verdicts ----
    for o in oracle:
        stats["projects"] += 1
        kind = o["kind"].split(":")[0]
        stats["kinds"][kind] = stats["kinds"].get(kind, 0) + 1
        if "panic" in o:
            # a panic while a project is analysed or queried is property C03's business (totality), not a C08 verdict
            stats["panicked_projects"] = stats.get("panicked_projects", 0) + 1
            stats.setdefault("panic_messages", [])
            if len(stats["panic_messages"]) < 5:
                stats["panic_messages"].append("%s (%s): %s" % (o["name"], o["kind"], str(o.get("panic"))[:200]))
            continue
        if "extract_error" in o:
            # the Searcher protocol no longer has the shape the model assumes
            nviol += 1
            if nviol <= 8:
                res.violation("event extraction through the Searcher API failed in project %s: %s" % (o["name"], o.get("extract_error")),
                              {"kind": "correspondence", "correspondence": "Searcher protocol (guard ranges of Finished(NotFound) answers) vs RH.Search.Events",
                               "project": proj_by_idx[o["idx"]], "replay_cmd": "./check C08 --replay <this file>"}, no_failing_input=True)
            continue
        for k in ("events", "reference_positions", "inside_cursors", "with_guards", "ref_guards", "unresolved_refs", "end_identifiers", "extraction_runs"):
            stats[k] += o.get(k, 0)
        for k, v in o.get("decl_kinds", {}).items():
            stats["decl_kinds"][k] = stats["decl_kinds"].get(k, 0) + v
        stats["valid" if o["diagnostics"] == 0 else "erroneous"] += 1
        if o["events"] == 0:
            stats["empty"] += 1
        nontrivial = o["events"] > 0 and o["reference_positions"] > 0
        res.count_case("%s|%s|%s" % (o["name"], o["kind"], json.dumps(proj_by_idx[o["idx"]], sort_keys=True)), nontrivial)
        if len(res.samples) < 4 and o["events"] > 0:
            res.add_sample({k: o[k] for k in ("name", "kind", "diagnostics", "events", "cursors", "cursor_hits", "entities_queried", "reference_positions", "inside_cursors")})
        v = o["violations"]
        if o.get("fresh_comparison"):
            fc = stats.setdefault("fresh_comparisons", {})
            fc[o["fresh_comparison"]] = fc.get(o["fresh_comparison"], 0) + 1
        if "+history" in o["kind"]:
            stats["history_states"] = stats.get("history_states", 0) + 1
        if o.get("fresh_difference"):
            nviol += 1
            if nviol <= 8:
                res.violation("project %s (%s): after the edit history (update_source + analyse) the cursor / reference queries differ from a freshly "
                              "loaded project with the same texts and no duplicate design units: %s" % (o["name"], o["kind"], o["fresh_difference"][:500]),
                              {"kind": "input", "project": proj_by_idx[o["idx"]], "difference": o["fresh_difference"],
                               "replay_cmd": "./check C08 --replay <this file>"})
        if sum(v.values()) > 0:
            unknown = []
            kf = None
            for s in o["violation_samples"]:
                k = is_known(o, s)
                if k:
                    kf = kf or (k, s)
                else:
                    unknown.append(s)
            # all violations beyond the homonym-copy ones must be reported even if the samples list is short
            n_unknown = sum(v.values()) - (o.get("clause2_homonym_copies", 0) if kf else 0)
            if kf:
                k, s = kf
                known_projects.add(o["idx"])
                stats["known_finding_projects"] = stats.get("known_finding_projects", 0) + 1
                res.known_finding("%s clause 2: project %s (%s), file %s mapped to %s libraries, find_all_references(%s) returns position %s "
                                  "but the cursor %s resolves to the other library's copy `%s` (%d such cursors)" % (
                                      k.get("id"), o["name"], o["kind"], s["file"], s.get("file_libraries"), s["entity"], s["pos"], s["cursor"],
                                      s["cursor_resolves_to"], o.get("clause2_homonym_copies", 0)))
            if unknown or n_unknown > 0:
                nviol += 1
                if nviol <= 8:
                    s = unknown[0] if unknown else o["violation_samples"][0]
                    res.violation("clause %d violated by the implementation in project %s (%s): %s [file %s, position %s, %s]" % (
                        s["clause"], o["name"], o["kind"], s["text"], s["file"], s["pos"],
                        ", ".join("%s=%s" % (a, s[a]) for a in ("cursor", "position_file", "entity", "cursor_resolves_to", "declaration", "identifier", "text_under_position", "file_libraries") if a in s)),
                        {"kind": "input", "project": proj_by_idx[o["idx"]], "violations": o["violations"], "samples": unknown or o["violation_samples"],
                         "replay_cmd": "./check C08 --replay <this file>"})
    # ---- correspondence: model vs implementation ----
    ipos = 0
    for idx, name, text in projs:
        o = by_idx[idx]
        qs = [l for l in text.split("\n") if l.startswith("Q ") or l in ("K", "E")]
        mine = impl_lines[ipos:ipos + len(qs)]
        ipos += len(qs)
        mod = model.get(idx, [])
        gap = o.get("extraction_gap") or o.get("unknown_entities", 0) > 0
        if gap:
            stats.setdefault("projects_with_extraction_gap", 0)
            stats["projects_with_extraction_gap"] += 1
        first = None
        for k, q in enumerate(qs):
            a = mine[k] if k < len(mine) else "<missing>"
            b = mod[k] if k < len(mod) else "<missing>"
            if q.startswith("Q C"):
                stats["cursor_queries"] += 1
            elif q.startswith("Q A"):
                stats["reference_queries"] += 1
            if q == "K":
                wf_fast, wf_slow = (b.split(" ") + ["-", "-"])[1:3]
                stats["wf_true" if wf_fast == "1" else "wf_false"] += 1
                if wf_slow not in ("-", wf_fast):
                    stats.setdefault("wf_fast_incomplete", 0)
                    stats["wf_fast_incomplete"] += 1      # fast=0 while the quadratic definition holds: allowed (sound, not complete)
                    if wf_fast == "1":
                        first = first or (q, a, b + "  (wf_forest_fast true but wf_forest false: contradicts the theorem)")
                if (a == "K 1") != (wf_fast == "1") and not gap:
                    first = first or (q, a, b)
                continue
            if a != b and not gap and first is None:
                first = (q, a, b)
        if first:
            nviol += 1
            if nviol <= 8:
                q, a, b = first
                files = o.get("files", {})
                w = q.split(" ")
                where = ""
                if w[:2] == ["Q", "C"]:
                    where = "item_at_cursor(file %s, line %s, character %s)" % (files.get(w[2], w[2]), w[3], w[4])
                elif w[:2] == ["Q", "A"]:
                    where = "find_all_references(entity id %s)" % w[2]
                elif w[:2] == ["Q", "D"]:
                    where = "AnyEnt::declaration() of entity id %s" % w[2]
                else:
                    where = "well-formedness of the event forest"
                res.violation("correspondence broken in project %s (%s): %s: implementation `%s`, Coq model on the extracted event forest `%s`" % (
                    name, o["kind"], where, a[:300], b[:300]),
                    {"kind": "correspondence", "correspondence": "Project::item_at_cursor / find_all_references vs RH.Search.Searchers on the extracted forest",
                     "project": proj_by_idx[idx], "query": q, "impl": a, "model": b, "files": files,
                     "replay_cmd": "./check C08 --replay <this file>"}, no_failing_input=True)
        # wf false without a concrete failing cursor: the checker theorem does not cover this project
        kline = [m for m in mod if m.startswith("K ")]
        if kline and kline[0].split(" ")[1] == "0" and o["violations"]["clause2"] == 0 and not first and idx not in known_projects:
            nviol += 1
            if nviol <= 8:
                res.violation("the event forest of project %s (%s) is not well formed (%s): positions reported by the Search implementation "
                              "overlap or leave their search_with_pos span, so cursor queries may miss references; no failing cursor among the explored ones" % (
                                  name, o["kind"], o.get("rust_wf")),
                              {"kind": "correspondence", "correspondence": "wf_forest (pruning invariant) on the extracted forest",
                               "project": proj_by_idx[idx], "rust_wf": o.get("rust_wf"), "replay_cmd": "./check C08 --replay <this file>"},
                              no_failing_input=True)
    if not replay:
        coq_cross_check(res, projs, model)
    if not os.environ.get("C08_KEEP"):
        # the replay files carry the projects; drop the bulky intermediate files (disk is limited)
        import shutil
        shutil.rmtree(os.path.join(out, "proj"), ignore_errors=True)
        for fn in ("cases.txt", "impl.txt"):
            try:
                os.unlink(os.path.join(out, fn))
            except OSError:
                pass
    res.coverage.update(stats)
    res.coverage["exhaustive"] = False
    res.coverage["rule"] = (
        "projects: the bundled libraries std+ieee (37 files, sampled cursors/entities), corpus/C08.cases, generated projects "
        "(package+body with deferred constant, enum/record/physical/incomplete/protected types, attribute, subprogram decl+body, "
        "operator overload, aliases, component, generic package + instances, entities/architectures with entity/component/"
        "configuration instantiation, block, for/if generate, process, configuration, context; 1-2 libraries, 1-5 files, random "
        "letter case, extended identifiers, Latin-1 and supplementary-plane comments) and 1-3 text mutations of each (token "
        "deletion/insertion/swap, truncation, unknown/other identifier, renamed declaration site, duplicated/deleted line). "
        "duplicate-unit projects: entity+architecture+package+body in counter.vhd, a whole or partial copy with another layout in "
        "backup_counter.vhd (same library = duplicate design units, or another library), a user file, and an edit history of 2-5 "
        "steps (shift lines/columns, empty, restore either file) applied with Source::change + update_source + analyse; every state is "
        "evaluated like a project, states without duplicate units are also compared with a freshly loaded project. "
        "Oracle clauses: 0 = the position answered for (file, cursor) is in that file and contains the cursor; 1-3 = the property; "
        "4 = find_all_references returns no position twice. "
        "Per project: every cursor (line, character 0..len+1) of every own file (sampled above 14000), every cursor strictly "
        "inside every returned reference position; every entity mentioned by an event. non-trivial = project with events and "
        "reference positions; distinct by hash of the project text")
    res.coverage["trusted_base"] = TRUSTED_BASE_COMMON + [
        "event forest = what the public Searcher API shows (callbacks + which callbacks a Finished(NotFound) answer skips); "
        "that every `impl Search` arm reports positions satisfying wf_forest is observed per run (checker evaluated on each extracted forest), not proved",
        "entity records (id, related) are read from EntRef values obtained through find_all_entity_references / document_symbols / item_at_cursor",
        "the end-identifier table of the harness (AST nodes with an end_ident_pos field) states which declarations report `end ... name`",
        "clause 3 (text under a position) is checked on the implementation only",
    ]
    res.coverage["partial"] = True
    res.coverage["partial_note"] = ("the relation between the two searchers is proved for all forests; wf_forest of the forests produced by "
                                    "the 1600 lines of `impl Search` is checked on every explored project, not proved")
    res.assumptions = ["'strictly inside' = start < cursor < end in (line, character) order; positions of operator symbols and character literals are outside clause 3",
                       "'definition or instance counterpart' = Related::DeclaredBy / Related::InstanceOf in either direction (one step)"]
    return res.finish()
