"""C19 — Unused-declaration lint is exact where usage is known.

Three views of every generated unit group are compared on every run:
  impl    : `Unused` diagnostics of Project::analyse (linter on, libraries `lib` and third-party `tp`)
  oracle  : the generator's construction (markers in the text: declarations with an eligibility verdict by
            syntactic category, reference sites)                              -> property-level verdict
  model   : the extracted Coq model (RH.Lint.DeadCode.lint_history / find_unused_declarations) run
            (a) on the abstract event list of the construction and
            (b) on the event list recorded from the real Search traversal with the real entity attributes
Correspondence (i): the construction and the real traversal agree declaration by declaration (kind class,
parent, DeclaredBy) and reference by reference (every generated reference site is visited and resolves to the
intended declaration or its other half) -- this detects an `impl Search` arm that stops visiting a position.
"""
import collections
import json
import os
from vlib.common import *

PROP = "C19"
GSTRIDE = 100000
LIBNUM = {"lib": 1, "tp": 2, "lib2": 3}


# ---------------------------------------------------------------------------------------------------
# view of one project step
# ---------------------------------------------------------------------------------------------------
class GroupView:
    """Marks (construction) of one group for the version in effect at a step."""

    def __init__(self, gidx, gm, version_files):
        self.gidx = gidx
        self.gid = gm["gid"]
        self.lib = gm["lib"]
        self.files = sorted(version_files.keys())
        self.decls = {}       # local id -> dict
        self.refs = []        # dicts with file
        self.by_pos = {}      # (file, line, col) -> local id
        for f, m in version_files.items():
            for d in m["decls"]:
                d = dict(d)
                d["file"] = f
                self.decls[d["id"]] = d
                self.by_pos[(f, d["line"], d["col"])] = d["id"]
            for r in m["refs"]:
                r = dict(r)
                r["file"] = f
                self.refs.append(r)

    def num(self, local):
        return self.gidx * GSTRIDE + local + 1

    def root(self, local):
        d = self.decls[local]
        return d["declby"] if d["declby"] is not None else local

    def oracle(self):
        """(expected unused local ids, sites per root)"""
        sites = collections.defaultdict(list)
        for r in self.refs:
            if r["id"] in self.decls:
                sites[self.root(r["id"])].append(r["site"])
        exp = set()
        for i, d in self.decls.items():
            if d["elig"] and not sites.get(self.root(i)):
                exp.add(i)
        return exp, sites


def versions_at(marks, edited):
    """files (with marks) of every group in effect at the step"""
    res = []
    for gidx, gm in enumerate(marks):
        files = dict(gm["v0"])
        if edited and "v1" in gm:
            files.update(gm["v1"])
        res.append(GroupView(gidx, gm, files))
    return res


KINDS_EQUIV = {"unknown": "other"}


def build_case_a(gv, analyzed):
    """model input from the construction: entities in id order, one primary + one secondary unit by file order"""
    ents = []
    for i in sorted(gv.decls):
        d = gv.decls[i]
        par = "-" if d["parent"] is None or d["parent"] not in gv.decls else str(gv.num(d["parent"]))
        rel, relto = ("D", str(gv.num(d["declby"]))) if d["declby"] is not None else ("N", "-")
        ents.append("%d:%s:%s:%s:%s:%d" % (gv.num(i), d["kind"], par, rel, relto, gv.num(i)))
    # events in text order per file; the file holding the primary design unit first
    per_file = collections.defaultdict(list)
    for i, d in gv.decls.items():
        per_file[d["file"]].append((d["line"], d["col"], "D%d" % gv.num(i)))
    for r in gv.refs:
        if r["id"] in gv.decls:
            per_file[r["file"]].append((r["line"], r["col"], "R%d" % gv.num(r["id"])))
    units = []
    for f in gv.files:
        evs = [e[2] for e in sorted(per_file.get(f, []))]
        if evs:
            units.append(" ".join(evs))
    hasprim = 1 if units else 0
    return "%d,%d,%d,%d/%s/%s" % (LIBNUM[gv.lib], gv.gid, 1 if analyzed else 0, hasprim, " ".join(ents), ",".join(units))


def real_groups(real, gviews):
    """Splits the real units over the groups (by the file of the design unit). Returns per group:
    dict(units=[(ditem, events)], ents=table restricted...)"""
    file_to_g = {}
    for gv in gviews:
        for f in gv.files:
            file_to_g[f] = gv.gidx
    per = collections.defaultdict(list)
    for u in real["units"]:
        f = u["design"][0]
        if f in file_to_g:
            per[file_to_g[f]].append(u)
    return per


def build_case_b(gv, units, ents, analyzed, problems):
    """model input from the real traversal; real entity ids renumbered; positions = number of the matching mark"""
    nums = {}

    def num_of(raw):
        raw = str(raw)
        if raw not in nums:
            e = ents.get(raw)
            n = None
            if e and e["pos"] is not None:
                key = (e["pos"][0], e["pos"][1], e["pos"][2])
                loc = gv.by_pos.get(key)
                # implicit entities share the position of the type they belong to: only explicit ones match marks
                if loc is not None and e["rel"] != "O" and key not in used_pos:
                    n = gv.num(loc)
                    used_pos[key] = raw
            if n is None:
                n = gv.gidx * GSTRIDE + 50000 + len(nums)
            nums[raw] = n
        return nums[raw]

    used_pos = {}
    prim = [u for u in units if u["ditem"] in ("Entity", "Package", "Configuration", "Context", "PackageInstance")]
    sec = [u for u in units if u not in prim]
    if len(prim) > 1:
        problems.append("group %d: more than one primary unit in the real traversal" % gv.gid)
    ulist = prim[:1] + sec
    # first number the declared entities (so that a declaration gets the mark's number even if an implicit
    # entity with the same position is referenced earlier)
    for u in ulist:
        for ev in u["events"]:
            if ev["t"] == "D" and ev["id"] is not None:
                num_of(ev["id"])
    ustr = []
    for u in ulist:
        evs = []
        for ev in u["events"]:
            if ev["id"] is None:
                evs.append(ev["t"] + "-")
            else:
                evs.append("%s%d" % (ev["t"], num_of(ev["id"])))
        ustr.append(" ".join(evs))
    # entity table: closure
    todo = list(nums.keys())
    lines = {}
    while todo:
        raw = todo.pop()
        if raw in lines:
            continue
        e = ents.get(raw) or {"kind": "unknown", "parent": None, "rel": "N", "relto": None, "pos": None}
        n = num_of(raw)
        par = "-"
        if e["parent"] is not None:
            par = str(num_of(e["parent"]))
            todo.append(str(e["parent"]))
        relto = "-"
        if e["rel"] == "D" and e["relto"] is not None:
            relto = str(num_of(e["relto"]))
            todo.append(str(e["relto"]))
        pos = "-" if e["pos"] is None else str(n)
        lines[raw] = "%d:%s:%s:%s:%s:%s" % (n, KINDS_EQUIV.get(e["kind"], e["kind"]), par, e["rel"], relto, pos)
    hasprim = 1 if prim else 0
    return "%d,%d,%d,%d/%s/%s" % (LIBNUM[gv.lib], gv.gid, 1 if analyzed else 0, hasprim,
                                   " ".join(lines[k] for k in sorted(lines, key=lambda x: nums[x])), ",".join(ustr)), nums


def structure_check(gv, units, ents, open_sites):
    """Correspondence (i)/(ii): construction vs real traversal.  Returns list of (severity, text); severity
    'ref' = a generated reference is not visited / resolves elsewhere, 'decl' = declaration mismatch,
    'harness' = the generator does not describe the text completely."""
    out = []
    real_decl = {}      # pos -> raw id
    for u in units:
        for ev in u["events"]:
            if ev["t"] == "D" and ev["id"] is not None:
                e = ents.get(str(ev["id"]))
                if e and e["pos"] is not None:
                    real_decl[tuple(e["pos"])] = str(ev["id"])
    raw_to_local = {}
    for pos, raw in real_decl.items():
        loc = gv.by_pos.get(pos)
        if loc is None:
            if pos[0] in gv.files:
                out.append(("harness", "declaration event at %s:%d:%d (%s) is not a generated declaration" % (
                    os.path.basename(pos[0]), pos[1], pos[2], ents[raw].get("desc"))))
        else:
            raw_to_local[raw] = loc
    for loc, d in gv.decls.items():
        pos = (d["file"], d["line"], d["col"])
        raw = real_decl.get(pos)
        if raw is None:
            out.append(("decl", "declaration %s (%s) at %s:%d:%d gets no search_decl event" % (
                d["name"], d["kind"], os.path.basename(d["file"]), d["line"], d["col"])))
            continue
        e = ents[raw]
        if KINDS_EQUIV.get(e["kind"], e["kind"]) != d["kind"]:
            out.append(("decl", "declaration %s: kind class %s in the implementation, %s by construction" % (d["name"], e["kind"], d["kind"])))
        if d["parent"] is not None and d["parent"] in gv.decls:
            pd = gv.decls[d["parent"]]
            pe = ents.get(str(e["parent"])) if e["parent"] is not None else None
            ppos = tuple(pe["pos"]) if pe and pe["pos"] is not None else None
            if ppos != (pd["file"], pd["line"], pd["col"]):
                out.append(("decl", "declaration %s: parent differs (implementation %s, construction %s)" % (
                    d["name"], pe.get("desc") if pe else None, pd["name"])))
        want = d["declby"]
        got = None
        if e["rel"] == "D" and e["relto"] is not None:
            oe = ents.get(str(e["relto"]))
            if oe and oe["pos"] is not None:
                got = gv.by_pos.get(tuple(oe["pos"]))
                if got is None:
                    got = -1
        if want != got:
            out.append(("decl", "declaration %s: DeclaredBy differs (implementation %s, construction %s)" % (d["name"], got, want)))
    # references
    real_refs = collections.defaultdict(list)     # pos -> [raw target]
    for u in units:
        for ev in u["events"]:
            if ev["t"] == "R":
                real_refs[(ev["file"], ev["line"], ev["col"])].append(None if ev["id"] is None else str(ev["id"]))
    marked = set()
    half = collections.Counter()
    for r in gv.refs:
        pos = (r["file"], r["line"], r["col"])
        marked.add(pos)
        if r["id"] not in gv.decls:
            continue
        tg = real_refs.get(pos)
        name = gv.decls[r["id"]]["name"]
        if not tg:
            if r["site"] not in open_sites:
                out.append(("ref", "reference site `%s` to %s at %s:%d:%d is not visited by the Search traversal" % (
                    r["site"], name, os.path.basename(r["file"]), r["line"], r["col"])))
            continue
        ok = False
        for raw in tg:
            loc = raw_to_local.get(raw) if raw is not None else None
            if loc is not None and gv.root(loc) == gv.root(r["id"]):
                ok = True
                half["exact" if loc == r["id"] else "other_half"] += 1
        if not ok:
            descs = [ents.get(x, {}).get("desc") if x else None for x in tg]
            out.append(("ref", "reference site `%s` to %s at %s:%d:%d resolves to %s" % (
                r["site"], name, os.path.basename(r["file"]), r["line"], r["col"], descs)))
    # real references to eligible generated declarations at positions the generator does not know
    for pos, tg in real_refs.items():
        if pos in marked:
            continue
        for raw in tg:
            loc = raw_to_local.get(raw) if raw is not None else None
            if loc is not None and gv.decls[loc]["elig"]:
                out.append(("harness", "the traversal reports a reference to %s at %s:%d:%d that the generator does not know" % (
                    gv.decls[loc]["name"], os.path.basename(pos[0]), pos[1], pos[2])))
    return out, half


COQ_KIND = {"pkg": "KDesignPackage", "upkg": "KDesignUninstPackage", "design": "KDesignOther", "conc": "KConcurrent",
            "seq": "KSequential", "loop": "KLoopParameter", "elem": "KElementDeclaration", "enum": "KEnumLiteral",
            "isub": "KInterfaceSubprogram", "sdecl": "KSubprogramDecl", "over": "KOverloadedOther", "obj": "(KObject false)",
            "iobj": "(KObject true)", "comp": "KComponent", "prot": "KTypeProtected", "type": "KTypeOther", "other": "KOther"}


def coq_cross_check(res, sample):
    """Evaluates find_unused_declarations inside Coq (vm_compute) on sampled constructed groups and compares with the
    oracle (which the extracted runner has been compared with already)."""
    if not sample:
        return
    defs, cases = [], []
    for n, (gv, exp) in enumerate(sample):
        order, seen = [], set()

        def visit(i):
            if i in seen or i not in gv.decls:
                return
            seen.add(i)
            d = gv.decls[i]
            if d["parent"] is not None:
                visit(d["parent"])
            if d["declby"] is not None:
                visit(d["declby"])
            order.append(i)
        for i in sorted(gv.decls):
            visit(i)
        nm = lambda i: "e%d_%d" % (n, i)
        for i in order:
            d = gv.decls[i]
            par = "(Some %s)" % nm(d["parent"]) if d["parent"] is not None and d["parent"] in gv.decls else "None"
            rel = "(DeclaredBy %s)" % nm(d["declby"]) if d["declby"] is not None else "RelNone"
            defs.append("Definition %s := Ent %d %s %s %s (Some %d)." % (nm(i), gv.num(i), COQ_KIND[d["kind"]], par, rel, gv.num(i)))
        per_file = collections.defaultdict(list)
        for i, d in gv.decls.items():
            per_file[d["file"]].append((d["line"], d["col"], "EvDecl (Some %s)" % nm(i)))
        for r in gv.refs:
            if r["id"] in gv.decls:
                per_file[r["file"]].append((r["line"], r["col"], "EvRef (Some %s)" % nm(r["id"])))
        units = ["[" + "; ".join(e[2] for e in sorted(per_file[f])) + "]" for f in gv.files if per_file.get(f)]
        if not units:
            continue
        cases.append("({| primary := Some %s; secondaries := [%s] |}, [%s])" % (units[0], "; ".join(units[1:]), "; ".join(str(x) for x in exp)))
    pre = ("From Coq Require Import List NArith Bool.\nImport ListNotations.\nFrom RH Require Import Lint.DeadCode.\nOpen Scope N_scope.\n"
           + "\n".join(defs) + "\n"
           "Definition subset (a b : list N) : bool := forallb (fun x => existsb (N.eqb x) b) a.\n"
           "Definition cases : list (group * list N) := [\n" + ";\n".join(cases) + "].\n")
    body = ("forallb (fun c => let got := map eid (find_unused_declarations (fst c)) in "
            "subset got (snd c) && subset (snd c) got && wf_events_b (group_events (fst c))) cases")
    v, log = coq_eval_bool(PROP, "sample", pre, body)
    res.coverage["in_coq_vm_compute_cases"] = len(cases)
    if v is not True:
        res.violation("in-Coq evaluation (vm_compute) of find_unused_declarations on sampled constructed groups differs from the oracle / extracted runner",
                      {"kind": "correspondence", "correspondence": "extraction vs vm_compute (RH.Lint.DeadCode.find_unused_declarations)",
                       "log": log[-2000:]}, no_failing_input=True)


def parse_model_line(line):
    tag, rest = line.rstrip("\n").split("|", 1)
    steps = []
    for st in rest.split("#"):
        outpart, gpart = st.split("/", 1)
        out = collections.Counter(int(x.split(".")[0]) for x in outpart[4:].split())
        groups = {}
        for g in gpart.split(";"):
            if not g:
                continue
            key, wf, ids = g.split(":")
            groups[tuple(int(x) for x in key.split(","))] = (wf == "1", set(int(x) for x in ids.split()))
        steps.append((out, groups))
    return tag, steps


class Capped:
    """Result proxy: at most `n` violations are recorded per run (each one is a replay file)."""

    def __init__(self, res, n=12):
        self._res, self._n = res, n

    def __getattr__(self, name):
        return getattr(self._res, name)

    def violation(self, *a, **k):
        if len(self._res.violations) < self._n:
            self._res.violation(*a, **k)
        else:
            self._res.coverage["violations_not_recorded"] = self._res.coverage.get("violations_not_recorded", 0) + 1


def single_group_project(pj, gidx):
    g = pj["groups"][gidx]
    # a group is replayed together with its same-named twin of the other library
    gs = [x for x in pj["groups"] if x["gid"] == g["gid"]]
    r = {"id": "r%s" % g["gid"], "groups": gs, "flip": bool(pj.get("flip")), "layered": bool(pj.get("layered"))}
    if pj.get("libnames"):
        r["libnames"] = pj["libnames"]
    return r


# ---------------------------------------------------------------------------------------------------
def evaluate(res0, tag, projects_path, out_path, mbin, d, stats, open_kf):
    res = Capped(res0)
    open_sites = set(open_kf.keys())
    projs = [json.loads(l) for l in open(projects_path) if l.strip()]
    outs = [json.loads(l) for l in open(out_path) if l.strip()]
    cases_path = os.path.join(d, tag + ".model_in")
    meta = []
    with open(cases_path, "w") as fc:
        for pj, o in zip(projs, outs):
            if o.get("panic"):
                res.violation("the implementation panicked while analysing a generated project",
                              {"kind": "input", "case": pj, "replay_cmd": "./check C19 --replay <this file>"})
                continue
            step_views = []
            la, lb = [], []
            prev_sig = {}
            for st in o["steps"]:
                gviews = versions_at(o["marks"], st.get("edited", st["what"] != "initial"))
                per = real_groups(st["real"], gviews)
                ents = st["real"]["ents"]
                tp = st["tp"]
                tp.setdefault("lib2", False)
                last = ",".join("1" if tp[l] else "0" for l in ("lib", "tp", "lib2"))
                first = ",".join("0" if tp[l] else "1" for l in ("lib", "tp", "lib2"))
                cfg = first + "+" + last if o.get("layered") else last
                ga, gb, nums_b, problems = [], [], {}, []
                for gv in gviews:
                    sig = json.dumps([gv.files, sorted(gv.by_pos.items()), sorted((r["file"], r["line"], r["col"], r["id"]) for r in gv.refs)], sort_keys=True, default=str)
                    analyzed = st["what"] in ("initial", "flip") or prev_sig.get(gv.gidx) != sig
                    prev_sig[gv.gidx] = sig
                    ga.append(build_case_a(gv, analyzed))
                    cb, nums = build_case_b(gv, per.get(gv.gidx, []), ents, analyzed, problems)
                    gb.append(cb)
                    nums_b[gv.gidx] = nums
                la.append(cfg + ":" + ";".join(ga))
                lb.append(cfg + ":" + ";".join(gb))
                step_views.append((st, gviews, per, ents, problems))
            fc.write("%s.a|%s\n" % (pj["id"], "#".join(la)))
            fc.write("%s.b|%s\n" % (pj["id"], "#".join(lb)))
            meta.append((pj, o, step_views))
    model_path = os.path.join(d, tag + ".model_out")
    with open(cases_path) as fin, open(model_path, "w") as fout:
        p = subprocess.run([mbin], stdin=fin, stdout=fout)
    if p.returncode != 0:
        res.violation("extracted model runner failed", {"kind": "build"}, no_failing_input=True)
        return
    model = {}
    for line in open(model_path):
        t, steps = parse_model_line(line)
        model[t] = steps

    for pj, o, step_views in meta:
        ma = model.get(pj["id"] + ".a")
        mb = model.get(pj["id"] + ".b")
        if ma is None or mb is None:
            res.violation("model output missing for project " + pj["id"], {"kind": "harness"}, no_failing_input=True)
            continue
        for si, (st, gviews, per, ents, problems) in enumerate(step_views):
            tpmap = st["tp"]
            # implementation diagnostics per group
            impl = collections.defaultdict(collections.Counter)   # gidx -> Counter(local id)
            invalid = collections.defaultdict(list)
            stray = []
            file_to_g = {}
            for gv in gviews:
                for f in gv.files:
                    file_to_g[f] = gv
            # files of the initial version that vanished keep their group
            for dg in st["diags"]:
                gv = file_to_g.get(dg["file"])
                if gv is None:
                    stray.append(dg)
                    continue
                if dg["code"] != "Unused":
                    invalid[gv.gidx].append(dg)
                    continue
                loc = gv.by_pos.get((dg["file"], dg["l1"], dg["c1"]))
                if loc is None:
                    stray.append(dg)
                else:
                    impl[gv.gidx][loc] += 1
            nstray = 0
            for dg in stray:
                stats["stray"] += 1
                if dg["code"] != "Unused":
                    stats["other_diagnostics_outside_groups"] += 1
                    continue
                nstray += 1
                if nstray > 2:
                    continue
                gvs = file_to_g.get(dg["file"])
                if gvs is None:
                    res.violation("an `Unused declaration` diagnostic is reported for a file that belongs to none of the project's own libraries "
                                  "(third-party / standard library?): %s %d:%d %s" % (dg["file"], dg["l1"], dg["c1"], dg["msg"]),
                                  {"kind": "input", "case": pj, "step": st["what"], "diag": dg, "replay_cmd": "./check C19 --replay <this file>"})
                else:
                    res.violation("an `Unused declaration` diagnostic is anchored at a position that is no declaration of the unit (%s %d:%d %s)"
                                  % (os.path.basename(dg["file"]), dg["l1"], dg["c1"], dg["msg"]),
                                  {"kind": "input", "case": single_group_project(pj, gvs.gidx), "step": st["what"], "diag": dg,
                                   "replay_cmd": "./check C19 --replay <this file>"})
            out_a, groups_a = ma[si]
            out_b, groups_b = mb[si]
            exp_out = collections.Counter()
            impl_out = collections.Counter()
            for gv in gviews:
                stats["groups"] += 1
                if invalid.get(gv.gidx):
                    stats["invalid_groups"] += 1
                    stats["invalid_code:" + invalid[gv.gidx][0]["code"]] += 1
                    if len(stats["invalid_examples"]) < 5:
                        x = invalid[gv.gidx][0]
                        stats["invalid_examples"].append("%s %d:%d %s %s" % (os.path.basename(x["file"]), x["l1"], x["c1"], x["code"], x["msg"][:80]))
                    continue
                third = tpmap[gv.lib]
                exp, sites = gv.oracle()
                got = impl.get(gv.gidx, collections.Counter())
                case_obj = single_group_project(pj, gv.gidx)
                canon = json.dumps([pj["groups"][gv.gidx]["files"], st["what"], third, bool(o.get("layered"))])
                verdicts = {"reported": len(exp), "used": sum(1 for i, dd in gv.decls.items() if dd["elig"] and i not in exp),
                            "ineligible": sum(1 for dd in gv.decls.values() if not dd["elig"])}
                res.count_case(canon, verdicts["reported"] > 0 and verdicts["used"] > 0 and verdicts["ineligible"] > 0)
                for k, v in verdicts.items():
                    stats["verdict_" + k] += v
                stats["step_" + st["what"]] += 1
                stats["third_party_groups" if third else "ordinary_groups"] += 1
                if sum(1 for dd in gv.decls.values() if dd["kind"] == "design") > 2:
                    stats["groups_with_several_secondary_units"] += 1
                if o.get("layered"):
                    stats["groups_under_layered_config"] += 1
                if pj.get("libnames") and pj["libnames"][gv.lib] != pj["libnames"][gv.lib].lower():
                    stats["groups_in_library_with_upper_case_name"] += 1
                if o["marks"][gv.gidx].get("lib") == "lib2" or any(m["gid"] == gv.gid and m["lib"] == "lib2" for m in o["marks"]):
                    stats["groups_with_same_named_twin_in_other_library"] += 1
                if len(res.samples) < 4 and gv.decls:
                    res.add_sample({"group": gv.gid, "lib": gv.lib, "step": st["what"], "third_party": third,
                                    "declarations": len(gv.decls), "expected_unused": sorted(gv.decls[i]["name"] for i in exp)[:12]})
                for root_, ss_ in sites.items():
                    if len(ss_) == 1 and gv.decls[root_]["elig"]:
                        stats["sole:" + ss_[0]] += 1
                if len(stats["coq_sample"]) < 60 and 0 < len(gv.decls) <= 90 and (stats["groups"] % 7 == 0 or len(gv.decls) < 25):
                    stats["coq_sample"].append((gv, sorted(gv.num(i) for i in exp)))
                # -- property-level oracle -------------------------------------------------------------
                want = set() if third else exp
                extra = [i for i in got if i not in want]
                missing = [i for i in want if i not in got]
                dup = [i for i, c in got.items() if c > 1]
                replay = {"kind": "input", "case": case_obj, "step": st["what"], "third_party": third,
                          "replay_cmd": "./check C19 --replay <this file>"}
                bad = False
                if third and got:
                    bad = True
                    names = sorted(gv.decls[i]["name"] for i in got)
                    res.violation("diagnostics for a third-party library: %s reported in library %s (is_third_party = true)" % (names[:6], gv.lib),
                                  dict(replay, reported=names))
                elif extra or missing or dup:
                    # known findings: every reference of the falsely reported declaration is at an open-finding site
                    kf_hits = []
                    unexplained_extra = []
                    for i in extra:
                        ss = sites.get(gv.root(i), []) if gv.decls[i]["elig"] else []
                        if ss and all(s in open_sites for s in ss):
                            kf_hits.append((i, sorted(set(ss))))
                        else:
                            unexplained_extra.append(i)
                    for i, ss in kf_hits:
                        for s in ss:
                            stats["known_finding:" + s] += 1
                            open_kf[s]["hits"] += 1
                            if open_kf[s].get("example") is None:
                                open_kf[s]["example"] = "%s (group %s)" % (gv.decls[i]["name"], gv.gid)
                    if unexplained_extra or missing or dup:
                        bad = True
                        desc = []
                        for i in unexplained_extra:
                            dd = gv.decls[i]
                            why = "ineligible by construction (%s)" % dd["kind"] if not dd["elig"] else "referenced at sites %s" % sorted(set(sites.get(gv.root(i), [])))
                            desc.append("false report: %s at %s:%d:%d is %s" % (dd["name"], os.path.basename(dd["file"]), dd["line"], dd["col"], why))
                        for i in missing:
                            dd = gv.decls[i]
                            desc.append("missing report: %s (%s) at %s:%d:%d is eligible and unreferenced" % (dd["name"], dd["kind"], os.path.basename(dd["file"]), dd["line"], dd["col"]))
                        for i in dup:
                            desc.append("reported %d times: %s" % (got[i], gv.decls[i]["name"]))
                        res.violation("unused-declaration lint differs from the use relation known by construction (step %s): %s" % (st["what"], "; ".join(desc[:4])),
                                      dict(replay, differences=desc))
                # -- correspondence --------------------------------------------------------------------
                sc, half = structure_check(gv, per.get(gv.gidx, []), ents, open_sites)
                for k, v in half.items():
                    stats["ref_resolves_" + k] += v
                wf_a, un_a = groups_a.get((LIBNUM[gv.lib], gv.gid), (False, set()))
                wf_b, un_b = groups_b.get((LIBNUM[gv.lib], gv.gid), (False, set()))
                exp_nums = set(gv.num(i) for i in exp)
                got_nums = set(gv.num(i) for i in got)
                corr = []
                if not wf_a or not wf_b:
                    corr.append("well-formedness hypothesis wf_events fails on the %s event list" % ("constructed" if not wf_a else "real"))
                if un_a != exp_nums:
                    corr.append("model on the constructed events %s differs from the oracle %s" % (sorted(un_a ^ exp_nums)[:6], "(symmetric difference)"))
                pos_b = set(n for n in un_b if n % GSTRIDE < 50000)
                if not third and pos_b != got_nums:
                    # declarations without a position in the unit's files (none expected) are not diagnostics
                    corr.append("model on the real events differs from the implementation's diagnostics: model-only %s, impl-only %s" % (
                        sorted(pos_b - got_nums)[:6], sorted(got_nums - pos_b)[:6]))
                for sev, text in sc:
                    stats["structure_" + sev] += 1
                    corr.append(text)
                if corr and not bad:
                    res.violation("correspondence broken for group %s (step %s) although the reported set matches the construction: %s" % (gv.gid, st["what"], "; ".join(corr[:4])),
                                  {"kind": "correspondence", "correspondence": "construction / real Search events / RH.Lint.DeadCode model",
                                   "case": case_obj, "step": st["what"], "details": corr[:40], "replay_cmd": "./check C19 --replay <this file>"},
                                  no_failing_input=True)
                if not third:
                    for i in exp:
                        exp_out[gv.num(i)] += 1
                for i, c in got.items():
                    impl_out[gv.num(i)] += c
            # -- linter level (cache + third-party filter over the history) ---------------------------
            if not any(invalid.values()):
                stats["history_steps"] += 1
                out_b_pos = collections.Counter({k: v for k, v in out_b.items() if k % GSTRIDE < 50000})
                if out_b_pos != impl_out:
                    diff = sorted((out_b_pos - impl_out).keys())[:6], sorted((impl_out - out_b_pos).keys())[:6]
                    res.violation("linter model (cache, pruning, third-party filter) over the history differs from analyse() at step %s of project %s: model-only %s impl-only %s"
                                  % (st["what"], pj["id"], diff[0], diff[1]),
                                  {"kind": "correspondence", "correspondence": "UnusedDeclarationsLinter::lint vs RH.Lint.DeadCode.lint_history",
                                   "case": pj, "step": st["what"]}, no_failing_input=True)
            for pr in problems:
                res.violation("harness: " + pr, {"kind": "harness", "case": pj}, no_failing_input=True)


def main(tier, replay=None):
    res = Result(PROP, tier, level="proof")
    d = rundir(PROP)
    for f in os.listdir(replaydir()):
        if f.startswith("%s-%s-" % (PROP, tier)):
            os.remove(os.path.join(replaydir(), f))
    proof_stage(res, PROP, thorough=(tier == "thorough"))
    ok, log, hbin = harness_build("c19")
    if not ok:
        res.violation("harness build failed against the current /repo tree", {"kind": "build", "log": log[-3000:]}, no_failing_input=True)
        return res.finish()
    ok, log, mbin = ocaml_build("c19_run")
    if not ok:
        res.violation("extracted model build failed", {"kind": "build", "log": log[-3000:]}, no_failing_input=True)
        return res.finish()

    open_kf = {}
    for e in known_findings(PROP):
        if e.get("kind") == "open" and "site_kind" in e.get("match", {}):
            open_kf[e["match"]["site_kind"]] = {"entry": e, "hits": 0, "example": None}
    stats = collections.Counter()
    stats["invalid_examples"] = []
    stats["coq_sample"] = []
    work = os.path.join(d, "work")

    def stream(tag, projects_path):
        out_path = os.path.join(d, tag + ".out.jsonl")
        rc, out = run([hbin, "run", projects_path, work, out_path, "-"], timeout=3000)
        if rc != 0:
            res.violation("harness c19 run failed (%s)" % tag, {"kind": "harness", "log": out[-2000:]}, no_failing_input=True)
            return
        evaluate(res, tag, projects_path, out_path, mbin, d, stats, open_kf)

    if replay:
        rp = json.load(open(replay))
        path = os.path.join(d, "replay.jsonl")
        with open(path, "w") as f:
            f.write(json.dumps(rp["case"]) + "\n")
        stream("replay", path)
    else:
        corpus = os.path.join(VERIF, "corpus", "C19.cases")
        if os.path.exists(corpus):
            stream("corpus", corpus)
        chunks, per_chunk, gpp = (1, 12, 24) if tier == "quick" else (20, 14, 24)
        site_counts = collections.Counter()
        for ch in range(chunks):
            gen_path = os.path.join(d, "gen.jsonl")
            rc, out = run([hbin, "gen", str(seed()), str(ch * per_chunk), str(per_chunk), str(gpp), gen_path], timeout=600)
            if rc != 0:
                res.violation("harness c19 gen failed", {"kind": "harness", "log": out[-2000:]}, no_failing_input=True)
                break
            stream("gen", gen_path)
            for l in open(gen_path):
                for g in json.loads(l)["groups"]:
                    site_counts.update(g.get("sites", []))
            if len(res.violations) >= 12:
                break
        res.coverage["reference_site_kinds"] = dict(sorted(site_counts.items()))
    # known findings
    for s, info in open_kf.items():
        if info["hits"]:
            e = info["entry"]
            res.known_finding("%s id=%s site_kind=%s reproduced %d times, e.g. %s" % (
                e.get("open", "open: property=C19"), e.get("id"), s, info["hits"], info["example"]))
    coq_cross_check(res, stats.pop("coq_sample"))
    invalid_examples = stats.pop("invalid_examples")
    groups = max(1, stats["groups"])
    if stats["invalid_groups"] * 50 > groups:
        res.violation("%d of %d generated unit groups do not analyse without errors (e.g. %s): the family is defined over valid units"
                      % (stats["invalid_groups"], groups, invalid_examples[:3]), {"kind": "harness", "examples": invalid_examples},
                      no_failing_input=True)
    if not replay:
        for v in ("verdict_reported", "verdict_used", "verdict_ineligible", "third_party_groups", "ordinary_groups"):
            if stats[v] == 0:
                res.violation("non-triviality: no case with %s" % v, {"kind": "harness"}, no_failing_input=True)
    res.coverage["distribution"] = {k: v for k, v in sorted(stats.items()) if not k.startswith("sole:")}
    res.coverage["site_kinds_exercised_as_sole_reference"] = {k[5:]: v for k, v in sorted(stats.items()) if k.startswith("sole:")}
    res.coverage["invalid_examples"] = invalid_examples
    res.coverage["exhaustive"] = False
    res.coverage["rule"] = (
        "corpus (hand-marked units: sites repaired by 953f00e, the F3 history, open findings) first; then generated "
        "projects of 24 unit groups (entity+architecture or package+body, 1 or 2 files) in libraries lib and tp "
        "(is_third_party), one analyse() per project, a second one after editing/emptying files of 1/6 of the groups, "
        "a third one after flipping is_third_party by update_config for every third project.  One case = one group at "
        "one step; non-trivial = the group has at least one declaration of each verdict (reported, used, ineligible); "
        "distinct by hash of the group's marked text, step and third-party flag")
    res.coverage["trusted_base"] = TRUSTED_BASE_COMMON + [
        "the event list (search_pos_with_ref / search_decl callbacks) abstracts the 1600 lines of `impl Search`: it is recorded from "
        "the real traversal on every case (recording Searcher through Project::search) and compared with the construction",
        "entity attributes (kind class, parent, DeclaredBy, decl_pos) are read from the real AnyEnt records through the public API",
        "DesignRoot::analyze's list of analysed units is not observable: the model is run with the keys of the changed groups "
        "(theorem C19_lint_step shows the output does not depend on additional analysed keys)",
        "markers of the generator: every occurrence of a generated name is printed through Gen::d / Gen::r; the check reports any "
        "real reference to an eligible generated declaration at an unmarked position",
    ]
    res.coverage["partial"] = False
    res.assumptions = [
        "package-header items: declarations of the package declarative part and members of protected types declared there; interface "
        "objects and interface subprograms of the generic clause of an uninstantiated package are eligible (DESIGN.md C19), interface "
        "types/packages are header items",
        "a body / full declaration (DeclaredBy) inherits the ineligibility of its declaration",
        "units of the family analyse without diagnostics other than `unused`; groups with other diagnostics are skipped and counted",
    ]
    return res.finish()
