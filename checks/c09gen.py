"""Generator of error-free VHDL projects for C09 (rename), with an independent occurrence map.

Every identifier the generator writes is written through `P.d(ent)` (declaring occurrence), `P.r(ent)` (reference)
or `P.e(ent)` (`end <name>` identifier), so that for every logical entity the exact set of its occurrences
(file, line, UTF-16 column range, spelling) is known WITHOUT asking the implementation: this is the reference
occurrence set (the "Mini/Rename" side of DESIGN.md C09) the edits of the server are compared with.

A logical entity: a subprogram declaration together with its body, and a deferred constant together with its full
declaration, are ONE entity each.  The formal parameters of a subprogram declaration and those of its body are
SEPARATE entities (the implementation's entity model; a named association in a call belongs to the declaration
side), see `split_decl_body_param`.
Names are shared between entities on purpose (overloaded subprograms and enumeration literals, record elements of
different records, hiding of an outer name by an inner one, components named like entities, ports of a component
named like the ports of the entity, names that are prefixes of other names) and every spelling varies in letter case.
Occurrences carry a `site` tag; sites other than "" are constructs in which the implementation is known (or
suspected) not to resolve names; they are only generated in the "finding families" (see FAMILIES).
"""
import random

SP = object()      # random white space / comment
NL = "\n"

# site tags of the finding families (documented in checks/c09.py: FINDING_SITES)
FAMILIES = ["config_spec", "block_config", "block_map_formal", "resolution_function", "two_libraries"]
# (the block_config family also instantiates the configuration: site config_inst_formal)


class Ent:
    def __init__(self, eid, name, kind, renameable=True, extended=False):
        self.id = eid
        self.name = name
        self.kind = kind
        self.renameable = renameable
        self.extended = extended
        self.finding = None      # entity-level finding family (two_libraries)
        self.ovl = False         # parameter of an overloaded subprogram called with named association
        self.focus = False       # alias / item named in a by-item use clause (sampled in every quick run)
        self.cross = False       # entity-declarative-part item referenced from other files (always sampled)
        self.occs = []

    def __repr__(self):
        return "Ent(%d,%s,%s)" % (self.id, self.name, self.kind)


class Occ:
    def __init__(self, ent, role, site=""):
        self.ent = ent
        self.role = role     # d / r / e
        self.site = site
        self.file = None
        self.line = self.c0 = self.c1 = None
        self.text = None


class Mark:
    """a non-identifier position of interest: operator symbol or character literal (for prepareRename refusal)"""
    def __init__(self, kind, text):
        self.kind = kind     # "op_use" "op_decl" "char_use" "char_decl" "keyword"
        self.text = text
        self.file = None
        self.line = self.c0 = self.c1 = None


def len16(s):
    return sum(2 if ord(c) >= 0x10000 else 1 for c in s)


class Proj:
    def __init__(self, rng, unicode_ok=False):
        self.R = rng
        self.ents = []
        self.files = {}          # name -> list of parts
        self.order = []          # file names in creation order
        self.libs = {}           # lib -> [file names]
        self.used = set()
        self.marks = []
        self.unicode_files = set()
        self.cur = None
        self.counter = 0

    # ---- names
    def fresh_name(self, stem):
        R = self.R
        while True:
            self.counter += 1
            style = R.randrange(5)
            n = R.randrange(1, 99)
            if style == 0:
                name = "%s%d" % (stem, n)
            elif style == 1:
                name = "%s_%s%d" % (stem, R.choice("abcxyz"), n)
            elif style == 2:
                name = "%s_%d_%s" % (stem.capitalize(), n, R.choice(["Val", "X", "q"]))
            elif style == 3:
                name = "%s%s" % (stem.upper(), R.choice(["_A", "_B2", "9", "_i"]))
            else:
                name = "%s_%s" % (stem, R.choice(["reg", "nxt", "Tmp", "o", "z1"]))
            if name.lower() not in self.used and not name.endswith("_") and "__" not in name:
                self.used.add(name.lower())
                return name

    def ent(self, stem, kind, name=None, **kw):
        if name is None:
            name = self.fresh_name(stem)
        e = Ent(len(self.ents), name, kind, **kw)
        self.ents.append(e)
        return e

    # ---- occurrences
    def _occ(self, ent, role, site):
        o = Occ(ent, role, site)
        ent.occs.append(o)
        return o

    def d(self, ent, site=""):
        return self._occ(ent, "d", site)

    def r(self, ent, site=""):
        return self._occ(ent, "r", site)

    def e(self, ent, site=""):
        return self._occ(ent, "e", site)

    def mark(self, kind, text):
        m = Mark(kind, text)
        self.marks.append(m)
        return m

    def spell(self, ent):
        if ent.extended:
            return ent.name
        k = self.R.random()
        n = ent.name
        if k < 0.55:
            return n
        if k < 0.70:
            return n.upper()
        if k < 0.85:
            return n.lower()
        return "".join(c.upper() if self.R.random() < 0.5 else c.lower() for c in n)

    # ---- files
    def file(self, name, lib):
        self.files[name] = []
        self.order.append(name)
        self.libs.setdefault(lib, []).append(name)
        self.cur = self.files[name]
        self.curname = name

    def w(self, *parts):
        self.cur.extend(parts)

    def ln(self, *parts):
        self.cur.extend(parts)
        self.cur.append(NL)

    def comment(self, ents):
        """a comment line mentioning names (must never be touched by a rename)"""
        names = " ".join(self.R.choice([e.name, e.name.upper()]) for e in ents)
        self.ln("  -- ", names, " \"", names, "\" ", self.R.choice(["", "'", "--", "/*"]))

    def white(self, fname):
        R = self.R
        k = R.random()
        if k < 0.80:
            return " "
        if k < 0.88:
            return "  "
        if k < 0.93:
            return "\n      "
        if k < 0.97:
            if fname in self.unicode_files:
                return " /* " + R.choice(["été", "\U0001F600", "x \U0001F600\U0001F680 y", "€"]) + " */ "
            return " /* " + R.choice(["été", "c", "a--b"]) + " */ "
        return "\t"

    def render(self):
        """-> {file: text}; fills positions of all occurrences and marks"""
        out = {}
        for fname in self.order:
            line = 0
            col = 0
            buf = []
            for p in self.files[fname]:
                if p is SP:
                    p = self.white(fname)
                if isinstance(p, Occ):
                    t = self.spell(p.ent)
                    p.file, p.line, p.c0, p.c1, p.text = fname, line, col, col + len16(t), t
                    buf.append(t)
                    col += len16(t)
                    continue
                if isinstance(p, Mark):
                    t = p.text
                    p.file, p.line, p.c0, p.c1 = fname, line, col, col + len16(t)
                    buf.append(t)
                    col += len16(t)
                    continue
                buf.append(p)
                if "\n" in p:
                    line += p.count("\n")
                    col = len16(p[p.rfind("\n") + 1:])
                else:
                    col += len16(p)
            out[fname] = "".join(buf)
        return out


def gen_project(seed, idx, family=None):
    """family: None (sound constructs only) or one of FAMILIES."""
    R = random.Random("c09:%d:%d:%s" % (seed, idx, family))
    P = Proj(R)
    d, r, e, ln, w = P.d, P.r, P.e, P.ln, P.w
    L1 = R.choice(["lib1", "work_lib", "Mylib"])
    L2 = R.choice(["lib2", "util"])
    two_libs = R.random() < 0.5 or family == "two_libraries"
    with_top = R.random() < 0.75 or family in ("block_config", "config_spec")
    with_cfg = with_top and (family == "block_config")
    use_all = R.random() < 0.6          # `use lib.pkg.all` vs selected names
    with_res = R.random() < 0.6 or family == "resolution_function"      # resolution indications, reject times
    with_rec_res = family == "resolution_function"                        # record resolution `(elem f) rec` (open finding site)
    with_blkmap = R.random() < 0.6 or family == "block_map_formal"        # block header generic/port clauses and maps
    lib1_ent = P.ent("lib", "library", name=L1, renameable=False)
    lib2_ent = P.ent("lib", "library", name=L2, renameable=False)
    P.used.update([L1.lower(), L2.lower(), "work"])

    def libref(ent):
        # a reference to library lib1 from inside lib1: `work` or its name
        return "work" if R.random() < 0.5 else ent.name

    # ------------------------------------------------------------------ lib2: utility package
    UPK = P.ent("upk", "package")
    u_c = P.ent("uc", "constant")
    u_lvl = P.ent("lvl_t", "type")
    u_f = P.ent("ufn", "function")
    u_fa = P.ent("a", "parameter")
    if two_libs:
        P.file("util_pk.vhd", L2)
        P.comment([UPK, u_c])
        ln("package ", d(UPK), " is")
        ln("  constant ", d(u_c), " : integer := ", str(R.randrange(2, 9)), ";")
        ln("  type ", d(u_lvl), " is (", P.mark("char_decl", "'0'"), ", ", P.mark("char_decl", "'1'"), ", 'Z');")
        ln("  function ", d(u_f), " (", d(u_fa), " : ", r(u_lvl), ") return ", r(u_lvl), ";")
        ln("end package ", e(UPK), ";")
        if R.random() < 0.5:
            P.file("util_pk_body.vhd", L2)
        ln("package body ", r(UPK), " is")
        ln("  function ", d(u_f), " (", d(u_fa), " : ", r(u_lvl), ") return ",
           r(u_lvl), " is")
        ln("  begin")
        ln("    case ", r(u_fa), " is")
        ln("      when ", P.mark("char_use", "'0'"), " => return '1';")
        ln("      when '1' => return '0';")
        ln("      when others => return ", r(u_fa), ";")
        ln("    end case;")
        ln("  end function ", e(u_f), ";")
        ln("end package body ", e(UPK), ";")

    # ------------------------------------------------------------------ lib1: types package
    PK = P.ent("pkg", "package")
    col_t = P.ent("color_t", "type")
    st_t = P.ent("state_t", "type")
    shared_lit = P.fresh_name("lit")            # literal name overloaded between the two enumeration types
    lit_c = [P.ent("lit", "enum_literal") for _ in range(3)]
    lit_c.append(P.ent("lit", "enum_literal", name=shared_lit))
    lit_s = [P.ent("lit", "enum_literal", name=shared_lit)] + [P.ent("sl", "enum_literal") for _ in range(2)]
    R.shuffle(lit_c)
    rec_t = P.ent("rec_t", "type")
    rec2_t = P.ent("rec2_t", "type")
    shared_el = P.fresh_name("el")
    el_a = P.ent("el", "record_element")
    el_b = P.ent("el", "record_element", name=shared_el)
    el2_a = P.ent("el", "record_element", name=shared_el)
    el2_r = P.ent("el", "record_element")
    small_t = P.ent("small_t", "subtype")
    arr_t = P.ent("arr_t", "type")
    c_w = P.ent("c_w", "constant")
    # a name that is a prefix of another one
    c_w2 = P.ent("c", "constant", name=c_w.name + "_2")
    P.used.add(c_w2.name.lower())
    c_def = P.ent("c_def", "constant")         # deferred constant (declaration + full declaration)
    fname = P.fresh_name("fn")
    f_int = P.ent("fn", "function", name=fname)
    f_bit = P.ent("fn", "function", name=fname)
    f_col = P.ent("fn", "function", name=fname)
    # parameters: written through one Ent here, split into declaration-side / body-side entities below
    pname = P.fresh_name("x")
    fp_int = P.ent("x", "parameter", name=pname)
    fp_bit = P.ent("x", "parameter", name=pname)
    fp_col = P.ent("x", "parameter", name=pname)
    pr1 = P.ent("proc", "procedure")
    pr_s = P.ent("ps", "parameter")
    pr_v = P.ent("pv", "parameter")
    comp = P.ent("comp", "component")
    cg = P.ent("cgen", "generic")
    cpa = P.ent("cpa", "port")
    cpb = P.ent("cpb", "port")
    attr = P.ent("mark", "attribute")
    f_tmp = P.ent("tmp", "variable")
    res_f = P.ent("resolve", "function")
    res_p = P.ent("rv", "parameter")
    f_one = P.ent("fone", "function")
    f1p = P.ent("y", "parameter")
    pk_sig = P.ent("pk_sig", "signal")
    pa_c = P.ent("pal_c", "alias")
    pa_f = P.ent("pal_f", "alias")
    pa_t = P.ent("pal_t", "alias")
    pa_lit = P.ent("pal_lit", "alias")
    pa_aa = P.ent("pal_aa", "alias")
    uniq_lit = [x for x in lit_c if x.name != shared_lit][0]
    for x_ in (pa_c, pa_f, pa_t, pa_lit, pa_aa, f_one, pk_sig):
        x_.focus = True
    res_st = P.ent("rbit_t", "subtype")
    res_bv = P.ent("rbv_t", "subtype")
    res_rec = P.ent("rrec_t", "subtype")
    ext_c = P.ent("ext", "constant", name="\\Ext " + R.choice(["Id", "a-b", "x y"]) + "\\", extended=True) \
        if R.random() < 0.3 else None

    P.file("types_pk.vhd", L1)
    if R.random() < 0.4:
        P.unicode_files.add("types_pk.vhd")
    if two_libs:
        ln("library ", r(lib2_ent), ";")
        if use_all:
            ln("use ", r(lib2_ent), ".", r(UPK), ".all;")
    P.comment([PK, col_t, c_w])
    ln("package", SP, d(PK), SP, "is")
    ln("  type ", d(col_t), " is (", *sum([[d(x), ", "] for x in lit_c[:-1]], []), d(lit_c[-1]), ");")
    ln("  type ", d(st_t), " is (", *sum([[d(x), ", "] for x in lit_s[:-1]], []), d(lit_s[-1]), ");")
    ln("  type ", d(rec_t), " is record")
    ln("    ", d(el_a), " : integer;")
    ln("    ", d(el_b), SP, ":", SP, r(col_t), ";")
    ln("  end record", *([" ", e(rec_t)] if R.random() < 0.7 else []), ";")
    ln("  type ", d(rec2_t), " is record ", d(el2_a), " : bit; ", d(el2_r), " : ", r(rec_t), "; end record;")
    ln("  subtype ", d(small_t), " is integer range 0 to 15;")
    ln("  type ", d(arr_t), " is array (natural range <>) of ", r(small_t), ";")
    ln("  constant ", d(c_w), " : integer := 8;")
    ln("  constant ", d(c_w2), " : integer := ", r(c_w), " + 1;")
    ln("  constant ", d(c_def), " : ", r(rec_t), ";")
    if ext_c:
        ln("  constant ", d(ext_c), " : integer := 3;")
    # subprogram declarations: parameters written through the same logical entity as in the body
    ln("  function ", d(f_int), " (", d(fp_int), " : integer) return integer;")
    ln("  function ", d(f_bit), " (", d(fp_bit), " : bit) return integer;")
    ln("  function ", d(f_col), SP, "(", d(fp_col), " : ", r(col_t), ") return ", r(col_t), ";")
    ln("  procedure ", d(pr1), " (signal ", d(pr_s), " : out bit; ", d(pr_v), " : in integer);")
    ln("  function ", P.mark("op_decl", "\"+\""), " (l, r : ", r(col_t), ") return ", r(col_t), ";")
    if with_res:
        ln("  function ", d(res_f), " (", d(res_p), " : bit_vector) return bit;")
        ln("  subtype ", d(res_st), " is ", r(res_f, "resolution_function"), " bit;")
        ln("  subtype ", d(res_bv), " is (", r(res_f, "resolution_function"), ") bit_vector(0 to 3);")
        if with_rec_res:
            ln("  subtype ", d(res_rec), " is (", r(el2_a, "record_resolution_element"), " ", r(res_f, "resolution_function"),
               ") ", r(rec2_t), ";")
    ln("  component ", d(comp), " is")
    ln("    generic (", d(cg), " : integer := 4);")
    ln("    port (", d(cpa), " : in bit; ", d(cpb), " : out bit);")
    ln("  end component", *([" ", e(comp)] if R.random() < 0.7 else []), ";")
    ln("  attribute ", d(attr), " : integer;")
    ln("  function ", d(f_one), " (", d(f1p), " : integer) return integer;")
    ln("  signal ", d(pk_sig), " : bit;")
    # aliases of every kind declared in a package (named by `use pkg.alias` elsewhere)
    ln("  alias ", d(pa_c), " is ", r(c_w), ";")
    ln("  alias ", d(pa_f), " is ", r(f_one), " [integer return integer];")
    ln("  alias ", d(pa_t), " is ", r(small_t), ";")
    ln("  alias ", d(pa_lit), " is ", r(uniq_lit), " [return ", r(col_t), "];")
    ln("  alias ", d(pa_aa), " is ", r(pa_c), ";")
    ln("end package ", e(PK), ";")
    ln()
    if R.random() < 0.6:
        P.file("types_pk_body.vhd", L1)
        if R.random() < 0.3:
            P.unicode_files.add("types_pk_body.vhd")
    ln("package body ", r(PK), " is")
    ln("  constant ", d(c_def), " : ", r(rec_t), " := (", r(el_a), " => ", r(c_w), ", ", r(el_b), " => ", r(lit_c[0]), ");")
    ln("  function ", d(f_one), " (", d(f1p), " : integer) return integer is")
    ln("  begin")
    ln("    return ", r(f1p), " + ", r(pa_aa), ";")
    ln("  end function ", e(f_one), ";")
    ln("  function ", d(f_int), " (", d(fp_int), " : integer) return integer is")
    ln("    variable ", d(f_tmp), " : integer;")
    ln("  begin")
    P.comment([f_tmp, fp_int])
    ln("    ", r(f_tmp), " := ", r(fp_int), SP, "+", SP, r(c_w), ";")
    ln("    return ", r(f_tmp), " + ", r(c_w2), ";")
    ln("  end function ", e(f_int), ";")
    ln("  function ", d(f_bit), " (", d(fp_bit), " : bit) return integer is")
    ln("  begin")
    ln("    if ", r(fp_bit), " = '1' then return 1; end if;")
    ln("    return 0;")
    ln("  end function", *([" ", e(f_bit)] if R.random() < 0.7 else []), ";")
    ln("  function ", d(f_col), " (", d(fp_col), " : ", r(col_t), ") return ", r(col_t), " is")
    ln("  begin")
    ln("    return ", r(fp_col), " ", P.mark("op_use", "+"), " ", r(lit_c[1]), ";")
    ln("  end function ", e(f_col), ";")
    ln("  procedure ", d(pr1), " (signal ", d(pr_s), " : out bit; ", d(pr_v), " : in integer) is")
    ln("  begin")
    ln("    if ", r(pr_v), " > 0 then ", r(pr_s), " <= '1'; else ", r(pr_s), " <= '0'; end if;")
    ln("  end procedure ", e(pr1), ";")
    ln("  function \"+\" (l, r : ", r(col_t), ") return ", r(col_t), " is")
    ln("  begin")
    ln("    if l = r then return l; end if;")
    ln("    return ", r(col_t), "'val((", r(col_t), "'pos(l) + ", r(col_t), "'pos(r)) mod 4);")
    ln("  end function \"+\";")
    if with_res:
        ln("  function ", d(res_f), " (", d(res_p), " : bit_vector) return bit is")
        ln("  begin")
        ln("    return ", r(res_p), "(", r(res_p), "'low);")
        ln("  end function ", e(res_f), ";")
    ln("end package body ", e(PK), ";")
    decl_side = {}
    for pe in (fp_int, fp_bit, fp_col, pr_s, pr_v, u_fa, res_p, f1p):
        decl_side[pe] = split_decl_body_param(P, pe)

    # ------------------------------------------------------------------ lib1: core entity + architecture
    E = P.ent("core", "entity")
    A = P.ent("rtl", "architecture")
    g_w = P.ent("gw", "generic")
    g_n = P.ent("gn", "generic")
    p_clk = P.ent("clk", "port")
    p_a = P.ent("din", "port")
    p_b = P.ent("dout", "port")
    p_c = P.ent("cnt_o", "port")
    e_c = P.ent("ec", "constant")
    s1 = P.ent("sig", "signal")
    s2 = P.ent("sig", "signal", name=s1.name + "_2")       # s1's name is a prefix of s2's
    P.used.add(s2.name.lower())
    cnt = P.ent("cnt", "signal")
    colsig = P.ent("col", "signal")
    st = P.ent("st", "signal")
    r1 = P.ent("r", "signal")
    r2 = P.ent("rr", "signal")
    av = P.ent("av", "signal")
    lv = P.ent("lv", "signal")
    rb = P.ent("rb", "signal")
    rbv = P.ent("rbv", "signal")
    rrs = P.ent("rrs", "signal")
    rj_c = P.ent("rjc", "signal")
    rj_s = P.ent("rjs", "signal")
    t_rej = P.ent("t_rej", "constant")
    locf = P.ent("loc", "function")
    # overload families called with NAMED association (body-only subprograms): the formal in `f(arg => x)` belongs to
    # the parameter of the overload the call resolves to
    ov_n, ov2_n, ov3_n = P.fresh_name("conv"), P.fresh_name("sel"), P.fresh_name("mix")
    ovp_n, ov2p_n, ov3p_n, ov3r_n = P.fresh_name("arg"), P.fresh_name("opnd"), P.fresh_name("q"), P.fresh_name("r")
    ov_i = P.ent("conv", "function", name=ov_n)          # differ by return type only, identical parameter name
    ov_b = P.ent("conv", "function", name=ov_n)
    ov_ip = P.ent("arg", "parameter", name=ovp_n)
    ov_bp = P.ent("arg", "parameter", name=ovp_n)
    ov2_i = P.ent("sel", "function", name=ov2_n)         # differ by one parameter type
    ov2_b = P.ent("sel", "function", name=ov2_n)
    ov2_ip = P.ent("opnd", "parameter", name=ov2p_n)
    ov2_bp = P.ent("opnd", "parameter", name=ov2p_n)
    ov3_a = P.ent("mix", "function", name=ov3_n)         # arity with a default / second parameter type
    ov3_b = P.ent("mix", "function", name=ov3_n)
    ov3_aq = P.ent("q", "parameter", name=ov3p_n)
    ov3_ar = P.ent("r", "parameter", name=ov3r_n)
    ov3_bq = P.ent("q", "parameter", name=ov3p_n)
    ov3_br = P.ent("r", "parameter", name=ov3r_n)
    ov_si = P.ent("ovi", "signal")
    ov_sb = P.ent("ovb", "signal")
    p_ov = P.ent("p_ov", "label")
    for x_ in (ov_ip, ov_bp, ov2_ip, ov2_bp, ov3_aq, ov3_ar, ov3_bq, ov3_br):
        x_.ovl = True
    bus8 = P.ent("bus", "signal")
    a_lo = P.ent("a_lo", "alias")
    a_b0 = P.ent("a_b0", "alias")
    a_al = P.ent("a_al", "alias")
    a_t = P.ent("a_ty", "alias")
    a_f = P.ent("a_fn", "alias")
    a_lit = P.ent("a_lit", "alias")
    a_tv = P.ent("a_tv", "signal")
    pal = P.ent("p_al", "label")
    c_inst2 = P.ent("u_c2", "label")
    for x_ in (a_lo, a_b0, a_al, a_t, a_f, a_lit, bus8):
        x_.focus = True
    locp = P.ent("a", "parameter")
    proc = P.ent("p_main", "label")
    v1 = P.ent("v", "variable")
    vc = P.ent("vc", "variable")
    # a process-local variable hiding the architecture-level signal name `cnt`
    hid = P.ent("cnt", "variable", name=cnt.name)
    proc2 = P.ent("p_aux", "label")
    loop_l = P.ent("lp", "label")
    loop_i = P.ent("i", "loop_parameter")
    case_l = P.ent("cs", "label")
    if_l = P.ent("if_l", "label")
    blk = P.ent("b_blk", "label")
    bs = P.ent("bs", "signal")
    bgen = P.ent("bg", "generic")
    bport = P.ent("bp", "port")
    gen_l = P.ent("g_gen", "label")
    gen_i = P.ent("gi", "loop_parameter")
    gs = P.ent("gs", "signal")
    al = P.ent("al", "alias")
    unused_s = P.ent("unused", "signal")
    c_inst = P.ent("u_c", "label")
    cs_inst = P.ent("u_cs", "label")

    T = P.ent("top", "entity")
    S = P.ent("str", "architecture")
    CFG = P.ent("cfg", "configuration")
    t_clk = P.ent("clk", "port", name=p_clk.name)          # same port name as the core's
    t_x = P.ent("x_in", "port")
    t_y = P.ent("y_out", "port")
    t_z = P.ent("z_out", "port")
    n1 = P.ent("n", "signal")
    lcomp = P.ent("core", "component", name=E.name)        # component named like the entity
    lg_w = P.ent("gw", "generic", name=g_w.name)
    lp_clk = P.ent("clk", "port", name=p_clk.name)
    lp_a = P.ent("din", "port", name=p_a.name)
    lp_b = P.ent("dout", "port", name=p_b.name)
    lp_c = P.ent("cnt_o", "port", name=p_c.name)
    u1 = P.ent("u_ent", "label")
    u2 = P.ent("u_cmp", "label")
    u3 = P.ent("u_cfg", "label")
    e_st = P.ent("e_st", "subtype")
    e_ty = P.ent("e_ty", "type")
    e_sig = P.ent("e_sig", "signal")
    e_at = P.ent("e_at", "attribute")
    e_al = P.ent("e_al", "alias")
    e_fn = P.ent("e_fn", "function")
    e_fnp = P.ent("ea", "parameter")
    e_pr = P.ent("e_pr", "procedure")
    e_pro = P.ent("eo", "parameter")
    e_prv = P.ent("ev", "parameter")
    A2 = P.ent("alt", "architecture")
    x2 = P.ent("x2", "signal")
    y2 = P.ent("y2", "signal")
    z2 = P.ent("z2", "signal")
    es_loc = P.ent("es", "signal")
    ey_loc = P.ent("ey", "signal")
    for x_ in (e_c, e_st, e_ty, e_sig, e_at, e_al, e_fn, e_pr):
        x_.cross = True          # declared in an entity declarative part, used from architectures in other files
    P.file("core.vhd", L1)
    if R.random() < 0.4:
        P.unicode_files.add("core.vhd")
    if two_libs:
        ln("library ", r(lib2_ent), ";")
        if use_all:
            ln("use ", r(lib2_ent), ".", r(UPK), ".all;")
    if R.random() < 0.5:
        ln("library ", r(lib1_ent), ";")
        ln("use ", r(lib1_ent), ".", r(PK), ".all;")
    else:
        ln("use work.", r(PK), ".all;")
    ln("entity", SP, d(E), SP, "is")
    ln("  generic (", d(g_w), " : integer := 4; ", d(g_n), " : natural := 2);")
    ln("  port (", d(p_clk), " : in bit; ", d(p_a), " : in bit;", SP, d(p_b), " : out bit; ", d(p_c), " : out integer);")
    ln("  constant ", d(e_c), " : integer := ", r(g_w), " + 1;")
    # items declared in the ENTITY declarative part, used from the architectures (usually in other files)
    ln("  subtype ", d(e_st), " is integer range 0 to 255;")
    ln("  type ", d(e_ty), " is array (0 to 1) of bit;")
    ln("  signal ", d(e_sig), " : bit;")
    ln("  attribute ", d(e_at), " : integer;")
    ln("  attribute ", r(e_at), " of ", r(e_sig), " : signal is 2;")
    ln("  alias ", d(e_al), " is ", r(p_a), ";")
    ln("  function ", d(e_fn), " (", d(e_fnp), " : integer) return integer is")
    ln("  begin")
    ln("    return ", r(e_fnp), " + ", r(e_c), ";")
    ln("  end function ", e(e_fn), ";")
    ln("  procedure ", d(e_pr), " (signal ", d(e_pro), " : out bit; ", d(e_prv), " : in ", r(e_st), ") is")
    ln("  begin")
    ln("    if ", r(e_prv), " > 0 then ", r(e_pro), " <= '1'; else ", r(e_pro), " <= '0'; end if;")
    ln("  end procedure ", e(e_pr), ";")
    ln("end entity", *([" ", e(E)] if R.random() < 0.8 else []), ";")
    ln()
    if R.random() < 0.6:
        # a second architecture of the same entity, in a third file
        P.file("core_alt.vhd", L1)
        ln("architecture ", d(A2), " of ", r(E), " is")
        ln("  signal ", d(x2), " : ", r(e_st), ";")
        ln("  signal ", d(y2), " : ", r(e_ty), ";")
        ln("  signal ", d(z2), " : bit;")
        ln("begin")
        ln("  ", r(x2), " <= ", r(e_fn), "(", r(e_c), ") + ", r(g_w), " when ", r(p_clk), " = '1' else 0;")
        ln("  ", r(y2), "(0) <= ", r(e_al), ";")
        ln("  ", r(e_pr), "(", r(z2), ", ", r(x2), ");")
        ln("  ", r(e_sig), " <= ", r(z2), " and ", r(y2), "(0);")
        ln("  ", r(p_b), " <= ", r(e_sig), ";")
        ln("  ", r(p_c), " <= ", r(e_sig), "'", r(e_at), " + ", r(x2), ";")
        ln("end architecture ", e(A2), ";")
    if R.random() < 0.7:
        P.file("core_rtl.vhd", L1)
        if R.random() < 0.4:
            P.unicode_files.add("core_rtl.vhd")
    P.comment([E, A, s1, s2])
    ln("architecture ", d(A), SP, "of", SP, r(E), " is")
    ln("  signal ", d(es_loc), " : ", r(e_st), ";")
    ln("  signal ", d(ey_loc), " : ", r(e_ty), ";")
    ln("  signal ", d(s1), ", ", d(s2), " : bit;")
    ln("  signal ", d(cnt), " : ", r(small_t), ";")
    ln("  signal ", d(colsig), " : ", r(col_t), " := ", r(lit_c[0]), ";")
    ln("  signal ", d(st), " : ", r(st_t), " := ", r(lit_s[1]), ";")
    ln("  signal ", d(r1), " : ", r(rec_t), " := ", r(c_def), ";")
    ln("  signal ", d(r2), " : ", r(rec2_t), ";")
    ln("  signal ", d(av), " : ", r(arr_t), "(0 to ", r(g_n), ");")
    ln("  signal ", d(unused_s), " : bit;")
    if two_libs:
        ln("  signal ", d(lv), " : ", *([] if use_all and False else [r(lib2_ent), ".", r(UPK), "."]), r(u_lvl), " := '0';")
    if with_res:
        ln("  signal ", d(rb), " : ", r(res_st), ";")
        ln("  signal ", d(rbv), " : ", r(res_bv), ";")
        ln("  signal ", d(rj_c), ", ", d(rj_s), " : bit;")
        ln("  constant ", d(t_rej), " : time := 1 ns;")
        if with_rec_res:
            ln("  signal ", d(rrs), " : ", r(res_rec), ";")
    ln("  attribute ", r(attr), " of ", r(s1), " : signal is 1;")
    ln("  alias ", d(al), " is ", r(s2), ";")
    ln("  function ", d(locf), " (", d(locp), " : integer) return integer is")
    ln("  begin")
    ln("    return ", r(locp), " + ", r(e_c), ";")
    ln("  end function ", e(locf), ";")
    ln("  function ", d(ov_i), " (", d(ov_ip), " : integer) return integer is")
    ln("  begin")
    ln("    return ", r(ov_ip), " + 1;")
    ln("  end function ", e(ov_i), ";")
    ln("  function ", d(ov_b), " (", d(ov_bp), " : integer) return bit is")
    ln("  begin")
    ln("    if ", r(ov_bp), " > 0 then return '1'; end if;")
    ln("    return '0';")
    ln("  end function ", e(ov_b), ";")
    ln("  function ", d(ov2_i), " (", d(ov2_ip), " : integer) return integer is")
    ln("  begin")
    ln("    return ", r(ov2_ip), ";")
    ln("  end function ", e(ov2_i), ";")
    ln("  function ", d(ov2_b), " (", d(ov2_bp), " : bit) return integer is")
    ln("  begin")
    ln("    if ", r(ov2_bp), " = '1' then return 1; end if;")
    ln("    return 0;")
    ln("  end function ", e(ov2_b), ";")
    ln("  function ", d(ov3_a), " (", d(ov3_aq), " : integer; ", d(ov3_ar), " : bit := '0') return integer is")
    ln("  begin")
    ln("    if ", r(ov3_ar), " = '1' then return ", r(ov3_aq), "; end if;")
    ln("    return 0;")
    ln("  end function ", e(ov3_a), ";")
    ln("  function ", d(ov3_b), " (", d(ov3_bq), " : integer; ", d(ov3_br), " : integer) return integer is")
    ln("  begin")
    ln("    return ", r(ov3_bq), " + ", r(ov3_br), ";")
    ln("  end function ", e(ov3_b), ";")
    ln("  signal ", d(ov_si), " : integer;")
    ln("  signal ", d(ov_sb), " : bit;")
    # aliases of every kind and attribute specifications that NAME an alias
    ln("  signal ", d(bus8), " : bit_vector(7 downto 0);")
    ln("  alias ", d(a_lo), " : bit_vector(3 downto 0) is ", r(bus8), "(3 downto 0);")
    ln("  alias ", d(a_b0), " is ", r(bus8), "(0);")
    ln("  alias ", d(a_al), " is ", r(al), ";")
    ln("  alias ", d(a_t), " is ", r(small_t), ";")
    ln("  alias ", d(a_f), " is ", r(locf), " [integer return integer];")
    ln("  alias ", d(a_lit), " is ", r(uniq_lit), " [return ", r(col_t), "];")
    ln("  attribute ", r(attr), " of ", r(a_lo, "attr_spec_alias"), " : signal is 5;")
    ln("  attribute ", r(attr), " of ", r(al, "attr_spec_alias"), " : signal is 6;")
    ln("  attribute ", r(attr), " of ", r(a_f, "attr_spec_alias"), *([" [integer return integer]"] if R.random() < 0.5 else []),
       " : function is 7;")
    ln("  signal ", d(a_tv), " : ", r(a_t), ";")
    if family == "config_spec":
        ln("  for ", r(c_inst, "config_spec"), " : ", r(comp, "config_spec"), " use entity work.", r(T, "config_spec"),
           "(", r(S, "config_spec"), ");")
    ln("begin")
    ln("  ", d(proc), " : process (", r(p_clk), ") is")
    ln("    variable ", d(v1), " : integer := 0;")
    ln("    variable ", d(vc), " : ", r(col_t), ";")
    ln("  begin")
    ln("    if ", r(p_clk), "'event and ", r(p_clk), " = '1' then")
    ln("      ", r(v1), " := ", r(f_int), "(", r(v1), ") + ", r(f_bit), "(", r(p_a), ") + ", r(locf), "(", r(c_w), ") + ", r(g_w), ";")
    ln("      ", r(vc), " := ", r(f_col), "(", r(colsig), ");")
    if R.random() < 0.7:
        # named association: the formal belongs to the declaration-side parameter
        ln("      ", r(v1), " := ", r(f_int), "(", r(decl_side[fp_int]), " => ", r(v1), ") + ", r(f_bit), "(", r(decl_side[fp_bit]),
           SP, "=>", SP, r(p_a), ");")
    ln("      ", r(vc), " := ", r(vc), " + ", r(lit_c[2]), ";")
    ln("      ", r(colsig), " <= ", r(vc), ";")
    ln("      ", r(r1), ".", r(el_a), " <= ", r(v1), ";")
    ln("      ", r(r1), ".", r(el_b), " <= ", libref(lib1_ent) if False else "work", ".", r(PK), ".", r(lit_c[1]), ";")
    ln("      ", r(r2), ".", r(el2_r), ".", r(el_a), " <= ", r(r1), ".", r(el_a), ";")
    ln("      ", r(r2), ".", r(el2_a), " <= ", r(al), ";")
    ln("      ", r(r2), " <= (", r(el2_a), " => '0', ", r(el2_r), " => (", r(el_a), " => 1, ", r(el_b), " => ", r(lit_c[3]), "));")
    ln("      ", r(cnt), " <= ", r(av), "(0);")
    ln("      ", r(av), "(1) <= ", r(cnt), ";")
    if two_libs:
        ln("      ", r(lv), " <= ", r(lib2_ent), ".", r(UPK), ".", r(u_f), "(", r(lv), ");")
        ln("      ", r(v1), " := ", r(v1), " + ", *([r(u_c)] if use_all else [r(lib2_ent), ".", r(UPK), ".", r(u_c)]), ";")
    ln("      if ", r(st), " = ", r(lit_s[1]), " then ", r(st), " <= ", r(lit_s[2]), "; elsif ", r(st), " = ", r(lit_s[0]),
       " then ", r(st), " <= ", r(lit_s[1]), "; end if;")
    ln("      if ", r(colsig), " = ", r(col_t), "'(", r([x for x in lit_c if x.name == shared_lit][0]), ") then null; end if;")
    ln("      ", r(p_c), " <= ", r(r1), ".", r(el_a), " + ", r(arr_t), "'length + ", r(av), "'length + ", r(s1), "'", r(attr),
       *([" + ", r(ext_c)] if ext_c else []), ";")
    ln("    end if;")
    ln("  end process", *([" ", e(proc)] if R.random() < 0.8 else []), ";")
    ln("  ", d(proc2), " : process is")
    ln("    variable ", d(hid), " : integer := 3;")
    ln("  begin")
    ln("    ", d(loop_l), " : for ", d(loop_i), " in 0 to 3 loop")
    ln("      next ", r(loop_l), " when ", r(loop_i), " = 1;")
    ln("      ", r(hid), " := ", r(hid), " + ", r(loop_i), ";")
    ln("      exit ", r(loop_l), " when ", r(hid), " > 9;")
    ln("    end loop ", e(loop_l), ";")
    ln("    ", d(case_l), " : case ", r(st), " is")
    ln("      when ", r(lit_s[0]), " => null;")
    ln("      when ", r(lit_s[1]), " | ", r(lit_s[2]), " => ", r(hid), " := 0;")
    ln("    end case ", e(case_l), ";")
    ln("    ", d(if_l), " : if ", r(s1), " = '1' then")
    ln("      null;")
    ln("    end if ", e(if_l), ";")
    if with_res:
        ln("    ", r(rj_s), " <= reject ", r(t_rej, "delay_reject"), " inertial ", r(s2), " after 3 ns;")
    ln("    wait on ", r(s1), ", ", r(s2), " until ", r(s2), " = '1';")
    ln("  end process ", e(proc2), ";")
    ln("  ", r(pr1), "(", r(s1), ", 3);")
    ln("  ", r(es_loc), " <= ", r(e_fn), "(", r(e_c), ") when ", r(e_sig), " = '1' else ", r(e_sig), "'", r(e_at), ";")
    ln("  ", r(ey_loc), "(1) <= ", r(e_al), ";")
    ln("  ", r(e_pr), "(", r(ey_loc), "(0), ", r(es_loc), ");")
    ln("  ", r(s2), " <= ", r(s1), " and ", r(p_a), ";")
    ln("  ", r(p_b), " <= ", r(s2), ";")
    ln("  ", d(pal), " : process (", r(a_lo), ", ", r(a_al), ", ", r(colsig), ") is")
    ln("  begin")
    ln("    ", r(a_b0), " <= ", r(a_lo), "(1) and ", r(a_al), ";")
    ln("    ", r(a_tv), " <= ", r(a_f), "(1) + ", r(a_lo), "'", r(attr), " + ", r(al), "'", r(attr), " + ", r(pa_c), " + ", r(pa_aa),
       " + ", r(pa_f), "(2) + ", r(f_one), "(3);")
    ln("    if ", r(colsig), " = ", r(pa_lit), " or ", r(colsig), " = ", r(a_lit), " then null; end if;")
    ln("  end process ", e(pal), ";")
    ln("  ", d(p_ov), " : process (", r(s1), ") is")
    ln("    variable vi : integer;")
    ln("    variable vb : bit;")
    ln("  begin")
    ln("    vi := ", r(ov_i), "(", r(ov_ip), " => 1);")                       # selected by the expected type
    ln("    vb := ", r(ov_b), "(", r(ov_bp), SP, "=>", SP, "2);")
    ln("    ", r(ov_si), " <= ", r(ov_i), "(", r(ov_ip), " => vi) + ", r(ov2_i), "(", r(ov2_ip), " => 3) + ", r(ov2_b), "(",
       r(ov2_bp), " => ", r(s1), ");")                                          # selected by the actual types
    ln("    ", r(ov_sb), " <= ", r(ov_b), "(", r(ov_bp), " => vi) or vb;")
    ln("    vi := ", r(ov3_a), "(", r(ov3_aq), " => 1) + ", r(ov3_b), "(", r(ov3_bq), " => 1, ", r(ov3_br), " => 2) + ",
       r(ov3_a), "(", r(ov3_aq), " => 2, ", r(ov3_ar), " => '1') + ", r(ov3_a), "(", r(ov3_ar), " => ", r(s1), ", ", r(ov3_aq), " => 4);")
    ln("  end process ", e(p_ov), ";")
    ln("  ", d(c_inst2), " : ", r(comp), " port map (", r(cpa), " => ", r(a_al), ", ", r(cpb), " => open);")
    ln("  ", d(blk), " : block is")
    if with_blkmap:
        ln("    generic (", d(bgen), " : integer := 1);")
        ln("    generic map (", r(bgen, "block_map_formal"), " => ", r(g_w), ");")
        ln("    port (", d(bport), " : in bit);")
        ln("    port map (", r(bport, "block_map_formal"), " => ", r(s1), ");")
    ln("    signal ", d(bs), " : bit;")
    ln("  begin")
    if with_blkmap:
        ln("    ", r(bs), " <= ", r(bport), " when ", r(bgen), " > 0 else '0';")
    else:
        ln("    ", r(bs), " <= ", r(s1), ";")
    ln("  end block ", e(blk), ";")
    ln("  ", d(gen_l), " : for ", d(gen_i), " in 0 to ", r(g_n), " generate")
    ln("    signal ", d(gs), " : bit;")
    ln("  begin")
    ln("    ", r(gs), " <= ", r(s2), " when ", r(gen_i), " > 0 else '0';")
    ln("  end generate ", e(gen_l), ";")
    ln("  ", d(c_inst), " : ", r(comp))
    ln("    generic map (", r(cg), " => 2)")
    ln("    port map (", r(cpa), " => ", r(s1), ", ", r(cpb), " => open);")
    if with_res:
        ln("  ", r(rb), " <= ", r(s1), ";")
        ln("  ", r(rbv), "(0) <= ", r(s1), ";")
        ln("  ", r(rj_c), " <= reject ", r(t_rej, "delay_reject"), " inertial ", r(s1), " after 2 ns;")
        if with_rec_res:
            ln("  ", r(rrs), ".", r(el2_a), " <= ", r(s1), ";")
    ln("end architecture ", e(A), ";")

    # ------------------------------------------------------------------ lib1: top
    if with_top:
        P.file("top.vhd", L1)
        if R.random() < 0.3:
            P.unicode_files.add("top.vhd")
        ln("library ", r(lib1_ent), ";")
        ln("use ", r(lib1_ent), ".", r(PK), ".all;")
        ln("entity ", d(T), " is")
        ln("  port (", d(t_clk), " : in bit; ", d(t_x), " : in bit; ", d(t_y), " : out bit; ", d(t_z), " : out bit);")
        ln("end entity ", e(T), ";")
        if R.random() < 0.5:
            P.file("top_str.vhd", L1)
        ln("architecture ", d(S), " of ", r(T), " is")
        ln("  signal ", d(n1), " : integer;")
        ln("  component ", d(lcomp), " is")
        ln("    generic (", d(lg_w), " : integer := 4);")
        ln("    port (", d(lp_clk), " : in bit; ", d(lp_a), " : in bit; ", d(lp_b), " : out bit; ", d(lp_c), " : out integer);")
        ln("  end component ", e(lcomp), ";")
        ln("begin")
        P.comment([E, A, lcomp, g_w])
        ln("  ", d(u1), " : entity ", r(lib1_ent), ".", r(E), "(", r(A), ")")
        ln("    generic map (", r(g_w), " => ", r(c_w), ", ", r(g_n), " => 1)")
        ln("    port map (", r(p_clk), " => ", r(t_clk), ", ", r(p_a), SP, "=>", SP, r(t_x), ", ", r(p_b), " => ", r(t_y), ", ",
           r(p_c), " => ", r(n1), ");")
        ln("  ", d(u2), " : ", "component " if R.random() < 0.5 else "", r(lcomp))
        ln("    generic map (", r(lg_w), " => 2)")
        ln("    port map (", r(lp_clk), " => ", r(t_clk), ", ", r(lp_a), " => ", r(t_x), ", ", r(lp_b), " => ", r(t_z), ", ",
           r(lp_c), " => open);")
        ln("end architecture ", e(S), ";")
        if with_cfg:
            if R.random() < 0.7:
                P.file("top_cfg.vhd", L1)
            if R.random() < 0.5:
                ln("library ", r(lib1_ent), ";")
            ln("use work.", r(PK), ".", r(c_w, "use_item"), ";")
            ln("configuration ", d(CFG), " of ", r(T), " is")
            ln("  for ", r(S, "block_config"))
            ln("    for ", r(u2, "block_config"), " : ", r(lcomp, "block_config"))
            ln("      use entity work.", r(E, "block_config"), "(", r(A, "block_config"), ");")
            ln("    end for;")
            ln("  end for;")
            ln("end configuration ", e(CFG), ";")

    TB = P.ent("tb", "entity")
    SIM = P.ent("sim", "architecture")
    tb_sigs = [P.ent("tb_s", "signal") for _ in range(4)]
    dut = P.ent("dut", "label")
    if with_top and (with_cfg or R.random() < 0.5):
        P.file("tb.vhd", L1)
        ln("entity ", d(TB), " is")
        ln("end entity ", e(TB), ";")
        if R.random() < 0.4:
            P.file("tb_sim.vhd", L1)
        ln("architecture ", d(SIM), " of ", r(TB), " is")
        ln("  signal ", *sum([[d(x), ", "] for x in tb_sigs[:-1]], []), d(tb_sigs[-1]), " : bit;")
        ln("begin")
        ln("  ", d(dut), " : entity work.", r(T), "(", r(S), ")")
        ln("    port map (", r(t_clk), " => ", r(tb_sigs[0]), ", ", r(t_x), " => ", r(tb_sigs[1]), ", ", r(t_y), " => ",
           r(tb_sigs[2]), ", ", r(t_z), " => ", r(tb_sigs[3]), ");")
        if with_cfg:
            ln("  ", d(u3), " : configuration work.", r(CFG))
            ci = "config_inst_formal"
            ln("    port map (", r(t_clk, ci), " => ", r(tb_sigs[0]), ", ", r(t_x, ci), " => ", r(tb_sigs[1]), ", ", r(t_y, ci),
               " => open, ", r(t_z, ci), " => open);")
        ln("end architecture ", e(SIM), ";")

    # ------------------------------------------------------------------ a file mapped to two libraries
    SH = P.ent("shared_pk", "package")
    sh_c = P.ent("sc", "constant")
    USR = P.ent("usr", "entity")
    UA = P.ent("ua", "architecture")
    k1 = P.ent("k", "constant")
    if family == "two_libraries":
        SH.finding = sh_c.finding = "two_libraries"
        P.file("shared_pk.vhd", L1)
        P.libs[L2].append("shared_pk.vhd")
        ln("package ", d(SH), " is")
        ln("  constant ", d(sh_c), " : integer := 1;")
        ln("end package ", e(SH), ";")
        P.file("user.vhd", L1)
        ln("library ", r(lib2_ent), ";")
        ln("entity ", d(USR), " is")
        ln("end entity ", e(USR), ";")
        ln("architecture ", d(UA), " of ", r(USR), " is")
        ln("  constant ", d(k1), " : integer := work.", r(SH), ".", r(sh_c), " + ", r(lib2_ent), ".",
           r(SH, "two_libraries"), ".", r(sh_c, "two_libraries"), ";")
        ln("begin")
        ln("end architecture ", e(UA), ";")

    # ------------------------------------------------------------------ generic package, instance, uses through it
    GP = P.ent("gpk", "package")
    g_t = P.ent("gt", "generic")
    g_c = P.ent("gdc", "constant")            # deferred constant of the generic package
    g_f = P.ent("gfn", "function")
    g_fp = P.ent("gx", "parameter")
    g_p = P.ent("gproc", "procedure")
    g_po = P.ent("go", "parameter")
    g_pv = P.ent("gv", "parameter")
    PI = P.ent("pinst", "package")
    GI = P.ent("gi", "package_instance")
    GU = P.ent("gusr", "entity")
    GUA = P.ent("gua", "architecture")
    g_k = P.ent("gk", "constant")
    g_s = P.ent("gsig", "signal")
    if R.random() < 0.45:
        ir = "pkg_instance_ref"
        P.file("gen_pk.vhd", L1)
        ln("package ", d(GP), " is")
        ln("  generic (", d(g_t), " : integer := 1);")
        ln("  constant ", d(g_c), " : integer;")
        ln("  function ", d(g_f), " (", d(g_fp), " : integer) return integer;")
        ln("  procedure ", d(g_p), " (signal ", d(g_po), " : out bit; ", d(g_pv), " : in integer);")
        ln("end package ", e(GP), ";")
        if R.random() < 0.7:
            P.file("gen_pk_body.vhd", L1)
        ln("package body ", r(GP), " is")
        ln("  constant ", d(g_c), " : integer := ", r(g_t), " + 1;")
        ln("  function ", d(g_f), " (", d(g_fp), " : integer) return integer is")
        ln("  begin")
        ln("    return ", r(g_fp), " + ", r(g_c), ";")
        ln("  end function ", e(g_f), ";")
        ln("  procedure ", d(g_p), " (signal ", d(g_po), " : out bit; ", d(g_pv), " : in integer) is")
        ln("  begin")
        ln("    if ", r(g_f), "(", r(g_pv), ") > 0 then ", r(g_po), " <= '1'; else ", r(g_po), " <= '0'; end if;")
        ln("  end procedure ", e(g_p), ";")
        ln("end package body ", e(GP), ";")
        for pe in (g_fp, g_po, g_pv):
            split_decl_body_param(P, pe)
        P.file("gen_inst.vhd", L1)
        ln("package ", d(PI), " is")
        ln("  package ", d(GI), " is new work.", r(GP), " generic map (", r(g_t), " => 3);")
        ln("end package ", e(PI), ";")
        if R.random() < 0.6:
            P.file("gen_user.vhd", L1)
        ln("use work.", r(PI), ".all;")
        ln("entity ", d(GU), " is")
        ln("end entity ", e(GU), ";")
        ln("architecture ", d(GUA), " of ", r(GU), " is")
        ln("  constant ", d(g_k), " : integer := ", r(GI), ".", r(g_c, ir), " + ", r(GI), ".", r(g_f, ir), "(1) + work.", r(PI), ".",
           r(GI), ".", r(g_f, ir), "(2);")
        ln("  signal ", d(g_s), " : bit;")
        ln("begin")
        ln("  ", r(GI), ".", r(g_p, ir), "(", r(g_s), ", ", r(g_k), ");")
        ln("end architecture ", e(GUA), ";")

    # ------------------------------------------------------------------ by-item use clauses `use lib.pkg.item;`
    IPK = P.ent("ipk", "package")
    i_k = P.ent("ik", "constant")
    i_l = P.ent("il", "constant")
    i_st = P.ent("ist", "subtype")
    i_f = P.ent("ifn", "function")
    i_fp = P.ent("ix", "parameter")
    IE = P.ent("ient", "entity")
    IA = P.ent("iarch", "architecture")
    i_p = P.ent("ip", "port")
    i_sg = P.ent("isg", "signal")
    i_b = P.ent("ib", "signal")
    i_u = P.ent("iu", "label")
    i_pr = P.ent("ipr", "label")
    i_v = P.ent("iv", "variable")
    have_gp = "gen_inst.vhd" in P.files
    ui = "use_item"
    if R.random() < 0.7:
        P.file("items.vhd", L1)
        lw = lambda: [r(lib1_ent)] if lib_clause else ["work"]
        lib_clause = R.random() < 0.5
        if lib_clause:
            ln("library ", r(lib1_ent), ";")
        ln("use ", *lw(), ".", r(PK), ".", r(c_w, ui), ";")
        ln("use ", *lw(), ".", r(PK), ".", r(small_t, ui), ", work.", r(PK), ".", r(f_one, ui), ";")
        ln("use work.", r(PK), ".", r(col_t, ui), ";")
        ln("use work.", r(PK), ".", r(uniq_lit, ui), ";")
        ln("use work.", r(PK), ".", P.mark("op_use", "\"+\""), ";")
        ln("use work.", r(PK), ".", r(pa_c, ui), ";")
        ln("use work.", r(PK), ".", r(pa_f, ui), ", work.", r(PK), ".", r(pa_t, ui), ";")
        ln("use work.", r(PK), ".", r(pa_lit, ui), ";")
        ln("use work.", r(PK), ".", r(pa_aa, ui), ";")
        if have_gp:
            ln("use work.", r(PI), ".", r(GI, ui), ";")
            ln("use work.", r(PI), ".", r(GI), ".", r(g_c, ui), ";")
        if two_libs:
            ln("library ", r(lib2_ent), ";")
            ln("use ", r(lib2_ent), ".", r(UPK), ".", r(u_c, ui), ";")
            ln("use ", r(lib2_ent), ".", r(UPK), ".", P.mark("char_use", "'1'"), ";")
        ln("package ", d(IPK), " is")
        ln("  constant ", d(i_k), " : ", r(small_t), " := ", r(c_w), " + ", r(pa_c), " + ", r(pa_aa), " + ", r(f_one), "(1) + ",
           r(pa_f), "(2)", *([" + ", r(g_c), " + ", r(GI), ".", r(g_c, "pkg_instance_ref")] if have_gp else []),
           *([" + ", r(u_c)] if two_libs else []), ";")
        ln("  constant ", d(i_l), " : ", r(col_t), " := ", r(pa_lit), " + ", r(uniq_lit), ";")
        ln("  subtype ", d(i_st), " is ", r(pa_t), ";")
        ln("  function ", d(i_f), " (", d(i_fp), " : ", r(i_st), ") return integer;")
        ln("end package ", e(IPK), ";")
        ln("use work.", r(PK), ".", r(f_one, ui), ";")
        ln("package body ", r(IPK), " is")
        ln("  function ", d(i_f), " (", d(i_fp), " : ", r(i_st), ") return integer is")
        ln("  begin")
        ln("    return ", r(f_one), "(", r(i_fp), ");")
        ln("  end function ", e(i_f), ";")
        ln("end package body ", e(IPK), ";")
        split_decl_body_param(P, i_fp)
        ln("use work.", r(PK), ".", r(pr1, ui), ";")
        ln("use work.", r(PK), ".", r(pk_sig, ui), ", work.", r(PK), ".", r(comp, ui), ";")
        ln("use work.", r(PK), ".", r(attr, ui), ";")
        ln("entity ", d(IE), " is")
        ln("  port (", d(i_p), " : in bit);")
        ln("end entity ", e(IE), ";")
        ln("use work.", r(PK), ".", r(c_w, ui), ";")
        ln("architecture ", d(IA), " of ", r(IE), " is")
        ln("  use work.", r(PK), ".", r(small_t, ui), ";")
        ln("  signal ", d(i_sg), " : ", r(small_t), " := ", r(c_w), ";")
        ln("  signal ", d(i_b), " : bit;")
        ln("  attribute ", r(attr), " of ", r(i_b), " : signal is 1;")
        ln("begin")
        ln("  ", r(pr1), "(", r(pk_sig), ", ", r(i_sg), ");")
        ln("  ", d(i_u), " : ", r(comp), " port map (", r(cpa), " => ", r(i_p), ", ", r(cpb), " => open);")
        ln("  ", d(i_pr), " : process (", r(i_p), ") is")
        ln("    use work.", r(PK), ".", r(f_one, ui), ";")
        ln("    variable ", d(i_v), " : integer;")
        ln("  begin")
        ln("    ", r(i_v), " := ", r(f_one), "(", r(i_sg), ") + ", r(i_b), "'", r(attr), ";")
        ln("    ", r(i_b), " <= ", r(i_p), ";")
        ln("  end process ", e(i_pr), ";")
        ln("end architecture ", e(IA), ";")

    gen_sig_section(P, L1, seed, idx, family)

    texts = P.render()
    # drop entities that were never written
    ents = [x for x in P.ents if x.occs and all(o.file is not None for o in x.occs)]
    for x in P.ents:
        x.occs = [o for o in x.occs if o.file is not None]
    ents = [x for x in P.ents if x.occs]
    return {"texts": texts, "libs": P.libs, "order": P.order, "ents": ents, "marks": [m for m in P.marks if m.file],
            "open": sorted(P.unicode_files & set(P.order)), "family": family}


def split_decl_body_param(P, pe):
    """The declaration-side and the body-side formal parameter of a subprogram are two entities (as in the
    implementation's entity model); occurrences written before the second declaring occurrence (the declaration
    itself and named associations written in between) stay with the declaration side."""
    if len([o for o in pe.occs if o.role == "d"]) < 2:
        return pe
    first = pe.occs[0]
    twin = Ent(len(P.ents), pe.name, pe.kind)
    P.ents.append(twin)
    pe.occs.remove(first)
    first.ent = twin
    twin.occs.append(first)
    return twin


# ---------------------------------------------------------------------- names selected by a SIGNATURE
SIG_F = [("(x : integer)", "integer", "integer return integer", "vi", "vi", "x + 1"),
         ("(x : bit)", "integer", "bit return integer", "vt", "vi", "bit'pos(x)"),
         ("(x : boolean)", "boolean", "boolean return boolean", "vb", "vb", "not x")]
SIG_P = [("(x : integer)", "integer", "vi"),
         ("(x : bit)", "bit", "vt"),
         ("(x : integer; y : bit)", "integer, bit", "vi, vt")]


def gen_sig_section(P, L1, seed, idx, family):
    """Last file(s) of every project: subprograms and enumeration literals with 1, 2 or 3 overloads in scope, named
    with a signature in attribute specifications (`attribute a of f[integer return integer] : function is 1;`,
    `attribute a of lit[return t] : literal is 2;`) and in alias declarations (`alias g is f[bit return integer];`, `alias l is lit[return t];`),
    in a package (declaration + body), an architecture declarative part, a process declarative part and a subprogram
    declarative part.  Own random stream and written after every other file, so that the rest of the project is what
    it was before this section existed."""
    R = random.Random("c09sig:%s:%s:%s" % (seed, idx, family))
    first_ent = len(P.ents)
    save_r = P.R
    P.R = R
    d, r, e, ln = P.d, P.r, P.e, P.ln
    kcount = [0]

    def sig(text):
        return R.choice(["", " "]) + "[" + text + "]"

    def sub_body(ind, x, kind, v):
        if kind == "function":
            ln(ind, "function ", d(x), " ", v[0], " return ", v[1], " is")
            ln(ind, "begin")
            ln(ind, "  return ", v[5], ";")
        else:
            ln(ind, "procedure ", d(x), " ", v[0], " is")
            ln(ind, "begin")
            ln(ind, "  null;")
        ln(ind, "end ", kind, *([" ", e(x)] if R.random() < 0.8 else []), ";")

    def family_decls(ind, attr, split):
        nf, npr, nl = R.randrange(1, 4), R.randrange(1, 4), R.randrange(1, 4)
        fn, pn, lnm = P.fresh_name("sgf"), P.fresh_name("sgp"), P.fresh_name("sgl")
        fs = [(P.ent("sgf", "function", name=fn), SIG_F[k]) for k in R.sample(range(3), nf)]
        ps = [(P.ent("sgp", "procedure", name=pn), SIG_P[k]) for k in R.sample(range(3), npr)]
        tys = [P.ent("sgt", "type") for _ in range(nl)]
        lits = [P.ent("sgl", "enum_literal", name=lnm) for _ in range(nl)]
        ulits = [P.ent("sgu", "enum_literal") for _ in range(nl)]
        fam = {"fs": fs, "ps": ps, "fal": [], "pal": [], "split": split}
        for t, l, u in zip(tys, lits, ulits):
            a, b = (l, u) if R.random() < 0.5 else (u, l)
            ln(ind, "type ", d(t), " is (", d(a), ", ", d(b), ");")
        for x, v in fs:
            if split:
                ln(ind, "function ", d(x), " ", v[0], " return ", v[1], ";")
            else:
                sub_body(ind, x, "function", v)
        for x, v in ps:
            if split:
                ln(ind, "procedure ", d(x), " ", v[0], ";")
            else:
                sub_body(ind, x, "procedure", v)
        # attribute specifications: entity designator with a signature (optional when there is one overload only)
        specs = [(x, v[2], "function") for x, v in fs] + [(x, v[1], "procedure") for x, v in ps]
        R.shuffle(specs)
        n = 0
        for x, sg, cls in specs:
            n += 1
            many = len(fs if cls == "function" else ps) > 1
            ln(ind, "attribute ", r(attr), " of ", r(x, "attr_spec_sig"), *([sig(sg)] if many or R.random() < 0.7 else []),
               " : ", cls, " is ", str(n), ";")
        # ... of class literal: `attribute a of lit[return t] : literal is n;`, a literal that is not overloaded also
        # without the signature
        lspecs = list(zip(lits, tys)) + [(u, t) for u, t in zip(ulits, tys) if R.random() < 0.4]
        R.shuffle(lspecs)
        for l, t in lspecs:
            n += 1
            if (l in lits and nl > 1) or R.random() < 0.6:
                ln(ind, "attribute ", r(attr), " of ", r(l, "attr_spec_sig"), R.choice(["", " "]), "[return ", r(t), "] : literal is ",
                   str(n), ";")
            else:
                ln(ind, "attribute ", r(attr), " of ", r(l, "attr_spec_sig"), " : literal is ", str(n), ";")
        # alias declarations with a signature
        for x, v in fs:
            if R.random() < 0.7:
                a = P.ent("sga", "alias")
                ln(ind, "alias ", d(a), " is ", r(x), sig(v[2]), ";")
                fam["fal"].append((a, v))
        for x, v in ps:
            if R.random() < 0.7:
                a = P.ent("sga", "alias")
                ln(ind, "alias ", d(a), " is ", r(x), sig(v[1]), ";")
                fam["pal"].append((a, v))
        for t, l in zip(tys, lits):
            kcount[0] += 1
            ln(ind, "constant sgk", str(kcount[0]), " : ", r(t), " := ", r(l), ";")
            if R.random() < 0.7:
                a = P.ent("sga", "alias")
                ln(ind, "alias ", d(a), " is ", r(l), R.choice(["", " "]), "[return ", r(t), "];")
                kcount[0] += 1
                ln(ind, "constant sgk", str(kcount[0]), " : ", r(t), " := ", r(a), ";")
        for x_ in [x for x, _ in fs + ps] + lits + [a for a, _ in fam["fal"] + fam["pal"]]:
            x_.sigfam = True
        return fam

    def variables(ind):
        ln(ind, "variable vi : integer := 0;")
        ln(ind, "variable vt : bit := '0';")
        ln(ind, "variable vb : boolean := false;")

    def calls(ind, fam):
        for x, v in fam["fs"] + fam["fal"]:
            ln(ind, v[4], " := ", r(x), R.choice(["", " "]), "(", v[3], ");")
        for x, v in fam["ps"] + fam["pal"]:
            ln(ind, r(x), R.choice(["", " "]), "(", v[2], ");")

    SPK = P.ent("sgpk", "package")
    at1 = P.ent("sgat", "attribute")
    at2 = P.ent("sgat", "attribute")
    drv = P.ent("sgdrv", "procedure")
    SE = P.ent("sgent", "entity")
    SA = P.ent("sgarch", "architecture")
    outer = P.ent("sgouter", "procedure")
    pl = P.ent("sgproc", "label")
    P.file("sig_pk.vhd", L1)
    ln("package ", d(SPK), " is")
    ln("  attribute ", d(at1), " : integer;")
    fk = family_decls("  ", at1, True)
    ln("end package ", e(SPK), ";")
    if R.random() < 0.4:
        P.file("sig_pk_body.vhd", L1)
    ln("package body ", r(SPK), " is")
    for x, v in fk["fs"]:
        sub_body("  ", x, "function", v)
    for x, v in fk["ps"]:
        sub_body("  ", x, "procedure", v)
    ln("  procedure ", d(drv), " is")
    variables("    ")
    ln("  begin")
    calls("    ", fk)
    ln("  end procedure ", e(drv), ";")
    ln("end package body ", e(SPK), ";")
    if R.random() < 0.5:
        P.file("sig_ent.vhd", L1)
    ln("entity ", d(SE), " is")
    ln("end entity ", e(SE), ";")
    ln("architecture ", d(SA), " of ", r(SE), " is")
    ln("  attribute ", d(at2), " : integer;")
    fa = family_decls("  ", at2, False)
    ln("  procedure ", d(outer), " is")
    fsub = family_decls("    ", at2, False)
    variables("    ")
    ln("  begin")
    calls("    ", fsub)
    ln("  end procedure ", e(outer), ";")
    ln("begin")
    ln("  ", d(pl), " : process is")
    fpr = family_decls("    ", at2, False)
    variables("    ")
    ln("  begin")
    calls("    ", fpr)
    calls("    ", fa)
    ln("    ", r(outer), ";")
    ln("    wait;")
    ln("  end process ", e(pl), ";")
    ln("end architecture ", e(SA), ";")
    P.R = save_r
    for x_ in P.ents[first_ent:]:
        x_.sigsec = True
