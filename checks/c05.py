"""C05 — Valid programs produce no error diagnostics.

(The machinery of this module — extracted generator/printer/rewrites/faults runner, harness invocation, bundle
parsing, in-Coq re-validation — is shared with checks/c06.py.)

Pipeline: choice lists (from VERIF_SEED) -> extracted Coq generator `Gen.gen_program` (typed by construction,
accepted by the reference `Sem.check_program`) -> extracted printer -> files -> `Project::analyse()` of the real
implementation (harness/src/bin/c05.rs) -> error-severity diagnostics.  Oracle: none, for (i) the bundled
libraries, (ii) every generated program, (iii) every rewritten variant (compositions of the validity-preserving
rewrites of Mini/Rewrites.v, depth <= 3).  Before a violation is raised the program is re-validated inside Coq
(`vm_compute` of the decidable `valid_b`), to rule out a generator/extraction problem.
"""
import json
import os
import random
import subprocess
import time
from collections import Counter, defaultdict

from vlib.common import *

PROP = "C05"
CH_LEN = 2500
RUNNER = "c05_run"
HBIN = "c05"


# ----------------------------------------------------------------------------------------------
# requests
# ----------------------------------------------------------------------------------------------
def choices_for(seed, i):
    r = random.Random(seed * 1000003 + i * 7919 + 17)
    return [r.randrange(0, 1000) for _ in range(CH_LEN)]


def request_line(pid, tag, nrew, depth, nfaults, rseed, fwant, cs):
    return "case %s %d %d %d %d %d %s | %s" % (pid, tag, nrew, depth, nfaults, rseed, fwant, " ".join(map(str, cs)))


def parse_request(line):
    hd, cs = line.split("|")
    f = hd.split()
    return {"pid": f[1], "tag": int(f[2]), "nrew": int(f[3]), "depth": int(f[4]), "nfaults": int(f[5]),
            "rseed": int(f[6]), "fwant": f[7], "choices": [int(x) for x in cs.split()]}


def gen_requests(seed, n, nrew, depth, nfaults, fwant="any", first_tag=0, prefix="g"):
    reqs = []
    for i in range(n):
        r = random.Random(seed * 7 + i)
        reqs.append(request_line("%s%d" % (prefix, i), first_tag + i, nrew, depth, nfaults,
                                 r.randrange(1, 10 ** 6), fwant, choices_for(seed, i)))
    return reqs


def read_corpus(name):
    path = os.path.join(VERIF, "corpus", name)
    if not os.path.exists(path):
        return []
    return [l.rstrip("\n") for l in open(path) if l.startswith("case ")]


# ----------------------------------------------------------------------------------------------
# runner (extracted model) and harness (implementation)
# ----------------------------------------------------------------------------------------------
def run_runner(mbin, reqs, out_path, procs=12):
    """Runs the extracted runner on the requests (split over several processes), concatenates the outputs."""
    d = os.path.dirname(out_path)
    chunks = [reqs[i::procs] for i in range(procs)]
    ps = []
    for k, ch in enumerate(chunks):
        if not ch:
            continue
        inp = os.path.join(d, "req_%d.txt" % k)
        outp = os.path.join(d, "bundle_%d.txt" % k)
        open(inp, "w").write("\n".join(ch) + "\n")
        ps.append((subprocess.Popen([mbin], stdin=open(inp), stdout=open(outp, "w")), outp))
    ok = True
    with open(out_path, "w") as fo:
        for p, outp in ps:
            p.wait()
            ok = ok and p.returncode == 0
            fo.write(open(outp).read())
            os.remove(outp)
    return ok


class Bundle:
    def __init__(self, path):
        self.meta = defaultdict(dict)
        self.files = {}
        self.units = defaultdict(dict)
        self.sites = defaultdict(list)
        self.by_pid = defaultdict(dict)
        self.order = []
        L = open(path).read().split("\n")
        i = 0
        cur = None
        while i < len(L):
            l = L[i]
            if l.startswith("M "):
                f = l.split(" ", 3)
                self.meta[f[1]][f[2]] = f[3] if len(f) > 3 else ""
            elif l.startswith("P "):
                cur = l[2:]
                self.order.append(cur)
            elif l.startswith("U "):
                f = l.split()
                self.units[f[1]][f[2]] = (f[3], f[5:])
            elif l.startswith("S "):
                f = l.split()
                self.sites[f[1]].append((int(f[2]), f[3], int(f[4]), int(f[5]), int(f[6])))
            elif l.startswith("F "):
                _, lib, name, n = l.split()
                n = int(n)
                self.files[(cur, name)] = L[i + 1:i + 1 + n]
                self.by_pid[cur][name] = self.files[(cur, name)]
                i += n
            i += 1

    def text_of(self, pid):
        return {name: "\n".join(t) for name, t in self.by_pid[pid].items()}

    def nlines(self):
        return sum(len(t) for t in self.files.values())


def run_harness(hbin, bundle_path, out_path, workdir, threads=16, batch=24, timeout=3000, standard=None):
    rc, out = run([hbin, "run", bundle_path, out_path, workdir, str(threads), str(batch)] + ([standard] if standard else []),
                  timeout=timeout)
    if rc != 0:
        return None, out
    res = {}
    libs_errors = []
    for l in open(out_path):
        o = json.loads(l)
        if o["pid"] == "@libs":
            libs_errors += o["diags"]
        else:
            res[o["pid"]] = o
    return (res, libs_errors), out


def errors_of(o):
    return [d for d in o["diags"] if d["sev"] == "error"]


# ----------------------------------------------------------------------------------------------
# in-Coq evaluation (vm_compute) of the reference on a generated program
# ----------------------------------------------------------------------------------------------
COQ_PRE = ("From Coq Require Import List NArith Bool String Ascii.\nImport ListNotations.\n"
           "From RH Require Import Mini.Syntax Mini.Sem Mini.Gen Mini.Walk Mini.Faults Mini.Rewrites Mini.Print.\n"
           "Open Scope N_scope.\n")


def coq_rewrite(desc):
    f = desc.split(":")
    k = f[0]
    if k == "swap":
        return "RSwap %s" % f[1]
    if k == "named":
        return "RNamed %s" % f[1]
    if k == "positional":
        return "RPositional %s" % f[1]
    if k == "selected":
        return "RSelected %s %s" % (f[1], f[2])
    if k == "useitems":
        return "RUseItems %s" % f[1]
    if k == "wrap":
        return "RWrap %s %s" % (f[1], f[2])
    if k == "adddecl":
        return "RAddDecl %s %s %s" % (f[1], f[2], f[3])
    if k == "addlocal":
        return "RAddLocal %s %s %s %s" % (f[1], f[2], f[3], f[4])
    raise ValueError(desc)


def coq_choices(cs):
    return "[" + "; ".join(str(c) for c in cs) + "]"


def coq_valid_of_variant(tag, cs, rewrites):
    """True iff inside Coq the (rewritten) generated program is Valid and every rewrite step was applicable."""
    rs = "[" + "; ".join(coq_rewrite(r) for r in rewrites) + "]"
    pre = COQ_PRE + "Definition ch : list N := %s.\nDefinition rs : list rewrite := %s.\n" % (coq_choices(cs), rs)
    body = "applicable_all rs (gen_program ch) && valid_b (apply_rewrites rs (gen_program ch))"
    return coq_eval_bool(PROP, tag, pre, body, timeout=900)


def text_checksum(s):
    acc = 7
    for ch in s.encode("latin-1"):
        acc = (acc * 31 + ch) % 4294967291
    return acc


def coq_text_checksum_body(tagnum, expected):
    """bool term: the printer evaluated inside Coq yields texts with the expected checksums (file order)."""
    return ("(fix cmp (l : list N) (m : list N) : bool := match l, m with [] , [] => true | a :: l', b :: m' => (a =? b) && cmp l' m' | _, _ => false end) "
            "(map (fun f => cks (fst (layout (snd f))) 7) (print_program %d prog)) %s" % (tagnum, coq_choices(expected)))


COQ_CKS = ("Fixpoint cks (s : string) (acc : N) : N := match s with EmptyString => acc "
           "| String c r => cks r ((acc * 31 + N_of_ascii c) mod 4294967291) end.\n")


# ----------------------------------------------------------------------------------------------
# the check
# ----------------------------------------------------------------------------------------------
def build_all(res):
    ok, log, hbin = harness_build(HBIN)
    if not ok:
        res.violation("harness build failed against the current /repo tree", {"kind": "build", "log": log[-3000:]},
                      no_failing_input=True)
        return None, None
    ok, log, mbin = ocaml_build(RUNNER)
    if not ok:
        res.violation("extracted model build failed", {"kind": "build", "log": log[-3000:]}, no_failing_input=True)
        return None, None
    return hbin, mbin


def describe_diag(d):
    return "%s %d:%d-%d:%d %s %s" % (d["file"], d["sl"], d["sc"], d["el"], d["ec"], d["code"], d["msg"].split("\n")[0][:120])


def check_libs(res, hbin, d):
    # the bundled libraries are VHDL-2008 sources: analysed under the default, 2008 and 2019
    for standard in (None, "2008", "2019"):
        check_libs_under(res, hbin, d, standard)


def check_libs_under(res, hbin, d, standard):
    out = os.path.join(d, "libs.out")
    rc, log = run([hbin, "libs", out] + ([standard] if standard else []), timeout=600)
    if rc != 0:
        res.violation("harness c05 libs crashed", {"kind": "harness", "log": log[-2000:]}, no_failing_input=True)
        return
    o = json.loads(open(out).read().strip().split("\n")[0])
    errs = errors_of(o)
    res.coverage["bundled_library_files"] = o.get("nfiles")
    res.coverage["bundled_library_diagnostics"] = dict(Counter("%s/%s" % (x["sev"], x["code"]) for x in o["diags"]))
    res.count_case("bundled libraries std+ieee (%s files) standard %s" % (o.get("nfiles"), standard), True)
    if o["panic"]:
        res.violation("analysis of the bundled libraries panics (standard %s)" % standard, {"kind": "input", "input": "/repo/vhdl_libraries"})
    for e in errs[:3]:
        res.violation("error diagnostic in a bundled library (standard %s): " % (standard or "default") + describe_diag(e),
                      {"kind": "input", "input": "/repo/vhdl_libraries", "diagnostic": e})


def known_match(prop, **kw):
    for e in known_findings(prop):
        m = e.get("match", {})
        if e.get("kind") == "open" and all(m.get(k) == v for k, v in kw.items()):
            return e
    return None


# ----------------------------------------------------------------------------------------------
# exploration-only stream: (1) generic packages with generic TYPES and types of their own, deferred constants, used
# through instances in typed contexts; (2) explicit overloads of predefined operations followed by an alias of the type
# in the same region, arrays whose element is named by a subtype with ordering operators and MINIMUM/MAXIMUM;
# (3) individual association in calls of overloaded subprograms and in port maps, generate statements (case / if-elsif-else /
# for) whose alternatives reuse labels and declared names, labelled loops with exit / next <label> [when condition];
# (5) arrays whose element is a SUBTYPE of a character enumeration with string / bit-string literals typed bottom-up.  (The MiniVHDL reference has generic packages with constant generics only —
# types inside a generic package need per-instance type identity, which the reference does not model — so these
# programs are hand-written templates with parameters, valid by inspection, NOT covered by the theorems.)
# ----------------------------------------------------------------------------------------------
TEMPLATE_ACTUALS = [
    ("integer", "7", "41", "+"), ("natural", "3", "9", "+"), ("boolean", "true", "false", "and"),
    ("bit", "'1'", "'0'", "or"), ("character", "'x'", "'y'", None), ("my_enum_t", "red", "blue", None),
    ("my_int_t", "5", "6", "+"), ("my_sub_t", "2", "3", "+"),
]


def template_program(k, r):
    """one library: support package, generic package (generic type + own types, deferred constants with body),
    1-3 instances, a user package/entity/architecture that uses the constants of the instances in typed contexts"""
    lib = "tl%d" % k
    gp, sup, usr, ent = "gpk%d" % k, "sup%d" % k, "usr%d" % k, "ent%d" % k
    n_inst = 1 + r.randrange(3)
    support = ("package %s is\n  type my_enum_t is (red, green, blue);\n  type my_int_t is range 0 to 100;\n"
               "  subtype my_sub_t is integer range 0 to 15;\n"
               "  function sid (x : integer) return integer;\n  function sid (x : boolean) return boolean;\n"
               "  function sid (x : bit) return bit;\n  function sid (x : character) return character;\n"
               "  function sid (x : my_enum_t) return my_enum_t;\n  function sid (x : my_int_t) return my_int_t;\nend package;\n"
               "package body %s is\n"
               "  function sid (x : integer) return integer is begin return x; end function;\n"
               "  function sid (x : boolean) return boolean is begin return x; end function;\n"
               "  function sid (x : bit) return bit is begin return x; end function;\n"
               "  function sid (x : character) return character is begin return x; end function;\n"
               "  function sid (x : my_enum_t) return my_enum_t is begin return x; end function;\n"
               "  function sid (x : my_int_t) return my_int_t is begin return x; end function;\nend package body;\n" % (sup, sup))
    own_rec = r.randrange(2) == 0
    gpd = ["library %s;" % lib, "use %s.%s.all;" % (lib, sup), "package %s is" % gp,
           "  generic (type elem_t; first_v : elem_t; width : natural := 4; function gfn (x : elem_t) return elem_t);",
           "  type own_t is (lo, mid, hi);", "  subtype idx_t is natural range 0 to 7;"]
    if own_rec:
        gpd += ["  type pair_t is record", "    a : elem_t;", "    b : own_t;", "  end record;"]
    gpd += ["  subtype esub_t is elem_t;", "  type earr_t is array (0 to 2) of elem_t;", "  type eptr_t is access elem_t;",
            "  type node_t;", "  type link_t is access node_t;",
            "  type node_t is record", "    value : elem_t;", "    nxt : link_t;", "  end record;",
            "  type holder_t is record", "    p : eptr_t;", "    v : elem_t;", "  end record;",
            "  type rarr_t is array (0 to 1) of holder_t;", "  type efile_t is file of elem_t;",
            "  type cell_t is protected", "    procedure put (x : elem_t);", "    impure function get return elem_t;", "  end protected;",
            # aliases of a generic type / generic function / generic constant (F70, fixed d2c5924)
            "  alias ealias_t is elem_t;", "  alias g is gfn [elem_t return elem_t];", "  alias m is first_v;",
            "  constant three : earr_t;",
            "  function head_of (l : link_t) return elem_t;", "  procedure push (l : inout link_t; x : in elem_t);",
            "  function wrap (x : elem_t) return holder_t;"]
    gpd += ["  constant dflt : elem_t;", "  constant level : own_t;", "  constant idx : idx_t;"]
    if own_rec:
        gpd += ["  constant both : pair_t;"]
    gpd += ["  function pick (x : elem_t; y : elem_t; s : own_t) return elem_t;", "end package;"]
    gpb = ["package body %s is" % gp, "  constant dflt : elem_t := first_v;",
           "  constant level : own_t := %s;" % r.choice(["lo", "mid", "hi"]), "  constant idx : idx_t := %d;" % r.randrange(8)]
    if own_rec:
        gpb += ["  constant both : pair_t := (a => first_v, b => level);"]
    gpb += ["  type cell_t is protected body", "    variable store : elem_t := first_v;",
            "    procedure put (x : elem_t) is", "    begin", "      store := x;", "    end procedure;",
            "    impure function get return elem_t is", "    begin", "      return store;", "    end function;", "  end protected body;",
            "  constant three : earr_t := (others => first_v);",
            "  function head_of (l : link_t) return elem_t is", "  begin", "    return l.value;", "  end function;",
            "  procedure push (l : inout link_t; x : in elem_t) is", "  begin", "    l := new node_t'(value => x, nxt => l);", "  end procedure;",
            "  function wrap (x : elem_t) return holder_t is", "  begin", "    return (p => null, v => x);", "  end function;"]
    gpb += ["  function pick (x : elem_t; y : elem_t; s : own_t) return elem_t is", "  begin",
            "    if s = level then return x; else return y; end if;", "  end function;", "end package body;"]
    files = [("t_sup.vhd", support), ("t_gp.vhd", "\n".join(gpd) + "\n"), ("t_gpb.vhd", "\n".join(gpb) + "\n")]
    insts = []
    for j in range(n_inst):
        ty, v1, v2, op = r.choice(TEMPLATE_ACTUALS)
        name = "inst%d_%d" % (k, j)
        insts.append((name, ty, v1, v2, op))
        files.append(("t_%s.vhd" % name,
                      "library %s;\nuse %s.%s.all;\npackage %s is new %s.%s generic map (elem_t => %s, first_v => %s%s, gfn => sid);\n"
                      % (lib, lib, sup, name, lib, gp, ty, v1, r.choice(["", ", width => 8"]))))
    ul = ["library %s;" % lib, "use %s.%s.all;" % (lib, sup)]
    style = r.randrange(3)          # 0: use inst.all (first instance only), 1/2: selected names
    if style == 0:
        ul.append("use %s.%s.all;" % (lib, insts[0][0]))
    ul += ["entity %s is" % ent, "end entity;", "architecture a of %s is" % ent]
    body = []
    for j, (name, ty, v1, v2, op) in enumerate(insts):
        pre = "" if (style == 0 and j == 0) else "%s.%s." % (lib, name)
        ul.append("  constant c%d : %s := %sdflt;" % (j, ty, pre))
        ul.append("  constant l%d : %sown_t := %slevel;" % (j, pre, pre))
        ul.append("  constant i%d : natural := %sidx;" % (j, pre))
        ul.append("  signal s%d : %s := %spick(%sdflt, %s, %slevel);" % (j, ty, pre, pre, v2, pre))
        if op:
            ul.append("  constant d%d : %s := %sdflt %s %s;" % (j, ty, pre, op, v2))
        if own_rec:
            ul.append("  constant p%d : %spair_t := %sboth;" % (j, pre, pre))
            ul.append("  constant q%d : %s := %sboth.a;" % (j, ty, pre))
        # the operators of own_t are only visible through `use inst.all`
        cond = ("l%d = %s" % (j, r.choice(["lo", "mid", "hi"]))) if pre == "" else ("i%d < %d" % (j, r.randrange(1, 8)))
        body.append("  s%d <= %spick(x => c%d, y => %sdflt, s => %slevel) when %s else %sdflt;"
                    % (j, pre, j, pre, pre, cond, pre))
        body.append("  assert i%d + %sidx < 16%s;" % (j, pre, (" and level = l%d" % j) if pre == "" else ""))
        # every type-forming construct over the generic type, used through the instance in contexts typed by the actual
        ul.append("  constant ea%d : %searr_t := %sthree;" % (j, pre, pre))
        ul.append("  constant eb%d : %s := %sthree(1);" % (j, ty, pre))
        ul.append("  constant ec%d : %searr_t := (%s, %s, %sdflt);" % (j, pre, v1, v2, pre))
        ul.append("  constant ed%d : %sesub_t := %s;" % (j, pre, v2))
        ul.append("  constant ef%d : %s := %swrap(%s).v;" % (j, ty, pre, v1))
        ul.append("  constant eg%d : %sealias_t := %sg(%s);" % (j, pre, pre, v2))
        ul.append("  constant eh%d : %s := %sm;" % (j, ty, pre))
        ul.append("  shared variable cell%d : %scell_t;" % (j, pre))
        pbody = ["  px%d : process" % j, "    variable ptr : %septr_t;" % pre, "    variable head : %slink_t;" % pre,
                 "    variable hold : %sholder_t;" % pre, "    variable ra : %srarr_t;" % pre, "    variable x : %s := %s;" % (ty, v1),
                 "    file ff : %sefile_t;" % pre, "  begin",
                 "    ptr := new %s'(%s);" % (ty, v2), "    x := ptr.all;", "    ptr.all := %s;" % v1,
                 "    %spush(head, x);" % pre, "    %spush(l => head, x => %s);" % (pre, v2),
                 "    x := head.value;", "    x := head.nxt.value;", "    head.nxt.value := x;", "    x := %shead_of(head);" % pre,
                 "    hold := (p => ptr, v => x);", "    x := hold.v;", "    x := hold.p.all;", "    ra(0) := hold;", "    x := ra(1).v;",
                 "    x := ra(0).p.all;", "    cell%d.put(x);" % j, "    x := cell%d.get;" % j, "    cell%d.put(%s);" % (j, v2)]
        if op:
            pbody += ["    x := ptr.all %s head.value;" % op, "    x := head.nxt.value %s %s;" % (op, v2), "    x := ra(0).v %s hold.p.all;" % op]
        pbody += ["    wait;", "  end process;"]
        body += pbody
    ul += ["begin"] + body + ["end architecture;"]
    files.append(("t_user.vhd", "\n".join(ul) + "\n"))
    return lib, files


def template_program2(k, r):
    """explicit overloads of predefined operations of a type followed by an alias of the type in the same region
    (package / architecture / other package), and arrays whose element subtype indication names a SUBTYPE, compared
    with the ordering operators and MINIMUM / MAXIMUM"""
    lib = "ul%d" % k
    pk, usr, ent = "opk%d" % k, "ousr%d" % k, "oent%d" % k
    is_enum = r.randrange(3) == 0
    if is_enum:
        tdecl = "  type word_t is (w0, w1, w2, w3);"
        conv = lambda x: "word_t'pos(%s)" % x
        lits = ["w0", "w1", "w2", "w3"]
        sub = "  subtype small_t is word_t range w0 to w2;"
    else:
        tdecl = "  type word_t is range 0 to 255;"
        conv = lambda x: "integer(%s)" % x
        lits = ["0", "7", "42", "200"]
        sub = "  subtype small_t is word_t range 0 to 15;"
    ops = [o for o in ["<", "=", "<=", "maximum", "to_string"] if r.randrange(2) == 0] or ["<"]
    decls, bodies = [], []
    for o in ops:
        if o in ("<", "=", "<="):
            decls.append('  function "%s" (a, b : word_t) return boolean;' % o)
            bodies.append('  function "%s" (a, b : word_t) return boolean is\n  begin\n    return %s %s %s;\n  end function;'
                          % (o, conv("a"), o, conv("b")))
        elif o == "maximum":
            decls.append("  function maximum (a, b : word_t) return word_t;")
            bodies.append("  function maximum (a, b : word_t) return word_t is\n  begin\n    if %s < %s then return b; else return a; end if;\n  end function;"
                          % (conv("a"), conv("b")))
        else:
            decls.append("  function to_string (a : word_t) return string;")
            bodies.append("  function to_string (a : word_t) return string is\n  begin\n    return integer'image(%s);\n  end function;" % conv("a"))
    alias_in_pkg = r.randrange(2) == 0
    pkg = ["library ieee;", "use ieee.std_logic_1164.all;", "package %s is" % pk, tdecl, sub,
           "  subtype nat8_t is natural range 0 to 255;",
           "  type nat_arr_t is array (natural range <>) of natural;",
           "  type sub_arr_t is array (0 to 3) of small_t;",
           "  type n8_arr_t is array (0 to 2) of nat8_t;",
           "  type sl_arr_t is array (0 to 3) of std_logic;",
           "  type word_arr_t is array (0 to 1) of word_t;",
           # an explicit overload with the profile of the implicit two-array MAXIMUM: it hides the implicit one
           "  function maximum (l, r : n8_arr_t) return n8_arr_t;"] + decls
    if alias_in_pkg:
        pkg.append("  alias w_alias_t is word_t;")
    pkg += ["  constant na1 : nat_arr_t(0 to 2) := (1, 2, 3);", "  constant na2 : nat_arr_t(0 to 2) := (others => 2);",
            "  constant sa1 : sub_arr_t := (others => %s);" % lits[0], "  constant sa2 : sub_arr_t := (others => %s);" % lits[1],
            "  constant n81 : n8_arr_t := (1, 2, 3);", "  constant n82 : n8_arr_t := (3, 2, 1);",
            "  constant sl1 : sl_arr_t := (others => '0');", "  constant sl2 : sl_arr_t := ('1', '0', 'Z', 'X');",
            "  constant wa1 : word_arr_t := (%s, %s);" % (lits[0], lits[1]), "  constant wa2 : word_arr_t := (others => %s);" % lits[2],
            "end package;"]
    bodies.append("  function maximum (l, r : n8_arr_t) return n8_arr_t is\n  begin\n    if l < r then return r; else return l; end if;\n  end function;")
    body = ["package body %s is" % pk] + bodies + ["end package body;"]
    cmp_ops = ["<", "<=", ">", ">="]
    u = ["library ieee;", "use ieee.std_logic_1164.all;", "library %s;" % lib, "use %s.%s.all;" % (lib, pk),
         "entity %s is" % ent, "end entity;", "architecture a of %s is" % ent]
    for j, (x, y) in enumerate([("na1", "na2"), ("sa1", "sa2"), ("n81", "n82"), ("sl1", "sl2")]):
        u.append("  constant b%d : boolean := %s %s %s;" % (j, x, r.choice(cmp_ops), y))
    # MINIMUM / MAXIMUM of an array of scalars (the element-wise unary form)
    u += ["  constant mn : natural := minimum(na1);", "  constant mx : nat8_t := maximum(n81);",
          "  constant ms : std_logic := maximum(sl2);", "  constant mq : word_t := minimum(sa2);",
          # ... and the two-array forms of every one-dimensional array type with discrete elements (F62, fixed 76726cb)
          "  constant m2n : nat_arr_t(0 to 2) := minimum(na1, na2);", "  constant m2x : n8_arr_t := maximum(n81, n82);",
          "  constant m2s : sl_arr_t := maximum(sl1, sl2);", "  constant m2q : sub_arr_t := minimum(sa1, sa2);",
          "  constant m2b : bit_vector(0 to 3) := maximum(bit_vector'(\"0101\"), \"0011\");",
          "  constant m2t : string(1 to 3) := minimum(string'(\"abc\"), \"abd\");",
          "  constant m2w : word_arr_t := %s(wa1, wa2);" % r.choice(["minimum", "maximum"]),
          "  constant v1 : word_t := %s;" % lits[2], "  constant v2 : word_t := %s;" % lits[3],
          "  constant c1 : boolean := v1 %s v2;" % r.choice(["<", "=", "<="])]
    if "maximum" in ops:
        u.append("  constant c2 : word_t := maximum(v1, v2);")
    if "to_string" in ops:
        u.append("  constant c3 : string := to_string(v1);")
    # an explicit overload in the architecture itself, followed by an alias of the type there
    u += ["  function minimum (a, b : word_t) return word_t is", "  begin", "    if a < b then return a; else return b; end if;", "  end function;",
          "  alias w_here_t is word_t;", "  constant c4 : w_here_t := minimum(v1, v2);",
          "begin", "  assert b0 or b1 or b2 or b3 or c1;", "end architecture;"]
    # another package: explicit operator on the type from elsewhere, then an alias of it
    other = ["library %s;" % lib, "use %s.%s.all;" % (lib, pk), "package %s is" % usr,
             '  function ">" (a, b : word_t) return boolean;', "  alias w_far_t is word_t;",
             "  constant far : w_far_t := %s;" % lits[1], "end package;",
             "package body %s is" % usr, '  function ">" (a, b : word_t) return boolean is', "  begin",
             "    return %s > %s;" % (conv("a"), conv("b")), "  end function;", "end package body;"]
    return lib, [("u_pkg.vhd", "\n".join(pkg) + "\n"), ("u_body.vhd", "\n".join(body) + "\n"),
                 ("u_user.vhd", "\n".join(u) + "\n"), ("u_other.vhd", "\n".join(other) + "\n")]


def template_program3(k, r):
    """individual (sub-element) association in calls of OVERLOADED subprograms and in port maps; generate statements of
    every form whose sibling alternatives reuse labels and declared names; labelled loops with exit/next <label> [when]"""
    lib = "vl%d" % k
    pk, ent, sub = "ipk%d" % k, "ient%d" % k, "isub%d" % k
    pkg = """package %s is
  type ivec_t is array (0 to 3) of integer;
  type word_t is array (0 to 3) of bit;
  type ipair_t is record
    first : integer;
    second : integer;
  end record;
  type bpair_t is record
    first : bit;
    second : bit;
  end record;
  function weight (p : ivec_t) return integer;
  function weight (p : word_t) return integer;
  function weight (p : ipair_t) return integer;
  function weight (p : bpair_t) return integer;
  procedure load (variable p : out ipair_t);
  procedure load (variable p : out bpair_t);
  procedure both (p : in ipair_t; variable q : out ipair_t);
  procedure both (p : in bpair_t; variable q : out bpair_t);
end package;
package body %s is
  function weight (p : ivec_t) return integer is begin return p(0) + p(3); end function;
  function weight (p : word_t) return integer is begin return 4; end function;
  function weight (p : ipair_t) return integer is begin return p.first + p.second; end function;
  function weight (p : bpair_t) return integer is begin return 2; end function;
  procedure load (variable p : out ipair_t) is begin p := (0, 0); end procedure;
  procedure load (variable p : out bpair_t) is begin p := ('0', '0'); end procedure;
  procedure both (p : in ipair_t; variable q : out ipair_t) is begin q := p; end procedure;
  procedure both (p : in bpair_t; variable q : out bpair_t) is begin q := p; end procedure;
end package body;
""" % (pk, pk)
    subent = """library %s;
use %s.%s.all;
entity %s is
  generic (kind : integer := 0);
  port (p : in ipair_t; w : in word_t; q : out ipair_t; o : out bit);
end entity;
architecture a of %s is
begin
  q <= p;
  o <= w(0);
end architecture;
""" % (lib, lib, pk, sub, sub)
    a, b = r.randrange(10), r.randrange(10)
    n_alt = 2 + r.randrange(2)
    alts = []
    for j in range(n_alt):
        ch = "when %d =>" % j if j < n_alt - 1 else "when others =>"
        alts.append("    %s\n      signal tmp : %s;\n      constant cc : integer := %d;\n    begin\n      u_impl : entity %s.%s generic map (kind => %d) port map (p.first => x, p.second => cc, w(0) => b0, w(1 to 3) => wv(1 to 3), q.first => y%d, q.second => open, o => open);\n      main : process\n      begin\n        wait;\n      end process;\n    end;"
                    % (ch, r.choice(["bit", "integer", "boolean"]), j, lib, sub, j, j))
    user = ["library %s;" % lib, "use %s.%s.all;" % (lib, pk), "entity %s is" % ent, "  generic (sel : integer := 1; big : boolean := true);", "end entity;",
            "architecture a of %s is" % ent,
            "  signal x, y0, y1, y2 : integer := 0;", "  signal b0 : bit;", "  signal wv : word_t;",
            "  constant w1 : integer := weight(p.first => %d, p.second => %d);" % (a, b),
            "  constant w2 : integer := weight(p.second => %d, p.first => %d);" % (a, b),
            "  constant w3 : integer := weight(p.first => '1', p.second => '0');",
            "  constant w4 : integer := weight(p(0) => '1', p(1 to 3) => \"000\");",
            "  constant w5 : integer := weight(p(0) => %d, p(1) => 2, p(2) => 3, p(3) => %d);" % (a, b),
            "begin",
            "  pr : process", "    variable i, j : integer;", "    variable c, e : bit;", "    variable ip : ipair_t;", "    variable bp : bpair_t;",
            "    variable total : integer := 0;", "  begin",
            "    load(p.first => i, p.second => j);", "    load(p.first => c, p.second => e);",
            "    both(p.first => i, p.second => %d, q => ip);" % a, "    both(p.first => '1', p.second => c, q.first => c, q.second => e);",
            "    scan : for n in 0 to 7 loop", "      inner : while total < 100 loop",
            "        total := total + n;", "        next scan when total = %d;" % a, "        exit inner when total > i;",
            "        exit scan when j < n and big;", "        next inner when n = %d;" % b, "        exit when total = 50;", "        next;",
            "      end loop inner;", "    end loop scan;", "    wait;", "  end process;",
            "  g_case : case sel generate"] + alts + ["  end generate;",
            "  g_if : if big generate", "    signal tmp : bit;", "  begin", "    u_impl : tmp <= b0;", "    main : process begin wait; end process;",
            "  elsif sel = 2 generate", "    signal tmp : integer;", "  begin", "    u_impl : tmp <= x;", "    main : process begin wait; end process;",
            "  else generate", "    signal tmp : boolean;", "  begin", "    u_impl : tmp <= big;", "    main : process begin wait; end process;",
            "  end generate;",
            "  g_for : for n in 0 to 2 generate", "    signal tmp : integer;", "  begin", "    u_impl : tmp <= x + n;", "  end generate;",
            "end architecture;"]
    return lib, [("v_pkg.vhd", pkg), ("v_sub.vhd", subent), ("v_user.vhd", "\n".join(user) + "\n")]


def template_program4(k, r, standard="2008"):
    """the matrix predefined attribute x type class (LRM 16.2): every predefined attribute of types, arrays, objects,
    signals and named entities applied to every class of prefix it is defined for"""
    lib = "wl%d" % k
    pk, ent = "apk%d" % k, "aent%d" % k
    v08 = standard != "1993"
    pkg = """package %s is
  type color_t is (red, green, blue);
  subtype warm_t is color_t range red to green;
  type small_t is range -8 to 7;
  subtype pos_small_t is small_t range 1 to 7;
  type resistance_t is range 0 to 1000000
    units
      ohm;
      kohm = 1000 ohm;
    end units;
  type volt_t is range -10.0 to 10.0;
  type vec_t is array (natural range <>) of bit;
  subtype byte_t is vec_t(7 downto 0);
  type mat_t is array (0 to 2, 1 to 4) of integer;
  type cvec_t is array (color_t) of integer;
end package;
""" % pk
    L = ["library %s;" % lib, "use %s.%s.all;" % (lib, pk), "entity %s is" % ent, "  port (clk : in bit; q : out bit);", "end entity;",
         "architecture a of %s is" % ent]
    n = [0]

    def c(ty, expr):
        n[0] += 1
        L.append("  constant k%d : %s := %s;" % (n[0], ty, expr))

    lit = {"color_t": ("green", '"blue"'), "warm_t": ("red", '"green"'), "small_t": ("3", '"5"'), "pos_small_t": ("2", '"4"'),
           "integer": ("7", '"42"'), "natural": ("7", '"42"'), "resistance_t": ("99 ohm", '"3 kohm"'), "time": ("5 ns", '"2 ns"'),
           "delay_length": ("5 ns", '"2 ns"'), "volt_t": ("1.5", '"2.5"'), "real": ("1.5", '"2.5"'), "boolean": ("true", '"false"'),
           "bit": ("'1'", "\"'0'\""), "character": ("'x'", "\"'y'\"")}
    base_of = {"warm_t": "color_t", "pos_small_t": "small_t", "natural": "integer", "delay_length": "time"}
    for ty, (val, img) in lit.items():
        b = base_of.get(ty, ty)
        for a in ("left", "right", "high", "low"):
            c(b, "%s'%s" % (ty, a))
        c("boolean", "%s'ascending" % ty)
        c("string", "%s'image(%s)" % (ty, val))
        c(b, "%s'value(%s)" % (ty, img))
        # T'base as the prefix of another attribute (F68, fixed a834e65)
        c(b, "%s'base'%s" % (ty, r.choice(["left", "right", "high", "low"])))
        c("string", "%s'base'image(%s)" % (ty, val))
        if ty not in ("volt_t", "real"):
            c(b, "%s'base'val(%d)" % (ty, 1 if b in ("color_t", "boolean", "bit") else 25 if b == "character" else 3))
        if ty not in ("volt_t", "real"):
            # discrete and PHYSICAL types
            c("integer", "%s'pos(%s)" % (ty, val))
            c(b, "%s'val(%d)" % (ty, 1 if b in ("color_t", "boolean", "bit") else 25 if b == "character" else 3))
            for a in ("succ", "pred", "leftof", "rightof"):
                c(b, "%s'%s(%s)" % (ty, a, val))
    # arrays: type marks and objects, with and without the dimension argument
    L += ["  constant bv : byte_t := (others => '0');", "  constant vv : vec_t(3 to 9) := (others => '1');",
          "  constant mm : mat_t := (others => (others => 0));", "  constant cv : cvec_t := (others => 1);"]
    for pre, idx in (("byte_t", "integer"), ("bv", "integer"), ("vv", "integer"), ("cvec_t", "color_t"), ("cv", "color_t")):
        for a in ("left", "right", "high", "low"):
            c(idx, "%s'%s" % (pre, a))
            c(idx, "%s'%s(1)" % (pre, a))
        c("integer", "%s'length" % pre)
        c("boolean", "%s'ascending" % pre)
    for pre in ("mat_t", "mm"):
        for d in (1, 2):
            for a in ("left", "right", "high", "low"):
                c("integer", "%s'%s(%d)" % (pre, a, d))
            c("integer", "%s'length(%d)" % (pre, d))
            c("boolean", "%s'ascending(%d)" % (pre, d))
    L += ["  signal s : bit;", "  signal t : integer := 0;"]
    # named entities
    for a in ("simple_name", "instance_name", "path_name"):
        c("string", "k1'%s" % a)
        c("string", "s'%s" % a)
    c("integer", "byte_t'base'length")
    if v08:
        L += ["  subtype el_t is byte_t'element;", "  signal like_bv : bv'subtype;",
              "  constant kb1 : bit := byte_t'base'element'base'low;", "  constant kb2 : bit := bv'subtype'element'base'high;",
              "  constant kb3 : integer := bv'subtype'base'length;"]
    L += ["begin", "  pr : process (clk)", "    variable acc : integer := 0;", "    variable b : boolean;", "    variable tm : time;", "    variable lv : bit;"]
    L += ["  begin",
          "    for i in byte_t'range loop acc := acc + i; end loop;", "    for i in bv'reverse_range loop acc := acc + i; end loop;",
          "    for i in vv'range(1) loop acc := acc + i; end loop;", "    for i in mat_t'range(2) loop acc := acc + i; end loop;",
          "    for i in mm'reverse_range(1) loop acc := acc + mm(i, 1); end loop;", "    for c in cvec_t'range loop acc := acc + cv(c); end loop;",
          "    for c in color_t'range loop acc := acc + color_t'pos(c); end loop;" if False else "    for c in color_t loop acc := acc + color_t'pos(c); end loop;",
          "    b := clk'event and clk = '1';", "    b := clk'active;", "    b := clk'stable;", "    b := clk'stable(1 ns);",
          "    b := clk'quiet;", "    b := clk'quiet(2 ns);", "    lv := clk'delayed(1 ns);", "    lv := clk'delayed;", "    lv := clk'transaction;",
          "    tm := clk'last_event;", "    tm := clk'last_active;", "    lv := clk'last_value;", "    acc := t'last_value;",
          "    q <= clk;", "    b := q'driving;", "    lv := q'driving_value;",
          "  end process;", "  s <= clk'delayed(2 ns);", "  t <= t'delayed(1 ns) + 1 when clk'event else t;", "end architecture;"]
    return lib, [("w_pkg.vhd", pkg), ("w_user.vhd", "\n".join(L) + "\n")]


def template_program5(k, r):
    """arrays whose ELEMENT is a subtype (constrained or not, also a subtype of a subtype, std_logic / X01 of
    ieee.std_logic_1164) of a character-enumeration type, with string / bit-string literals whose type is inferred
    bottom-up: operands of = /= < <= > >= &, of a user operator, actuals of overloaded functions / procedures
    (positional and named), MINIMUM/MAXIMUM, aggregates with `others` as the actual of a constrained formal"""
    lib = "xl%d" % k
    pk, ent = "spk%d" % k, "sent%d" % k
    base_kind = r.randrange(4)
    pre, tdecl = [], []
    if base_kind == 0:
        base = "level_t"
        tdecl = ["  type level_t is ('U', '0', '1', 'Z');", "  type raw_t is array (natural range <>) of level_t;"]
        first = r.choice(["level_t range '0' to '1'", "level_t", "level_t range '0' to 'Z'"])
    elif base_kind == 1:
        pre = ["library ieee;", "use ieee.std_logic_1164.all;"]
        first = r.choice(["std_logic", "std_logic range '0' to '1'", "std_ulogic range '0' to '1'", "X01", "resolved std_ulogic",
                          "std_ulogic"])
    elif base_kind == 2:
        first = r.choice(["bit", "bit range '0' to '1'"])
    else:
        first = r.choice(["character range '0' to 'Z'", "character"])
    depth = 1 + r.randrange(2)
    tdecl.append("  subtype drive_t is %s;" % first)
    elem = "drive_t"
    if depth == 2:
        tdecl.append("  subtype drive2_t is drive_t%s;" % r.choice(["", " range '0' to '1'"]))
        elem = "drive2_t"
    if base_kind == 1 and depth == 1 and r.randrange(2) == 0:
        elem = r.choice(["std_logic", "X01", "UX01"])      # the classic `array (natural range <>) of std_logic`
    index = r.choice(["natural range <>", "positive range <>", "integer range <>"])
    rng4, rng6, rng5 = r.choice([("(4 downto 1)", "(6 downto 1)", "(5 downto 1)"), ("(1 to 4)", "(1 to 6)", "(1 to 5)")])

    def s4():
        return '"%s"' % "".join(r.choice("01") for _ in range(4))

    def b4():
        return r.choice(['x"%s"' % r.choice("0123456789ABCDEF"), 'b"%s"' % "".join(r.choice("01") for _ in range(4)), s4()])

    def s2():
        return r.choice(['"%s"' % "".join(r.choice("01") for _ in range(2)), 'b"%s"' % "".join(r.choice("01") for _ in range(2))])

    three = r.randrange(2) == 0
    pkg = pre + ["package %s is" % pk] + tdecl + [
        "  type word_t is array (%s) of %s;" % (index, elem),
        "  subtype w4_t is word_t%s;" % rng4,
        "  type cword_t is array (0 to 3) of %s;" % elem,
        "  type pair_t is record", "    a : integer;", "    b : boolean;", "  end record;",
        "  function weight (x : word_t) return natural;", "  function weight (x : integer) return natural;"]
    if three:
        pkg.append("  function weight (x : pair_t) return natural;")
    pkg += ["  function cweight (x : cword_t) return natural;", "  function cweight (x : boolean) return natural;",
            "  procedure put (x : in word_t);", "  procedure put (x : in integer);", "  procedure put (x : in word_t; y : in boolean);",
            '  function "+" (l, r : word_t) return word_t;',
            "  constant k0 : w4_t := %s;" % s4(), "  constant k1 : cword_t := %s;" % s4(), "end package;"]
    body = ["package body %s is" % pk,
            "  function weight (x : word_t) return natural is", "  begin", "    return x'length;", "  end function;",
            "  function weight (x : integer) return natural is", "  begin", "    return 0;", "  end function;"]
    if three:
        body += ["  function weight (x : pair_t) return natural is", "  begin", "    return x.a;", "  end function;"]
    body += ["  function cweight (x : cword_t) return natural is", "  begin", "    if x = %s then return 1; end if;" % s4(), "    return 4;", "  end function;",
             "  function cweight (x : boolean) return natural is", "  begin", "    return 1;", "  end function;",
             "  procedure put (x : in word_t) is", "  begin", "    assert x /= %s;" % s2(), "  end procedure;",
             "  procedure put (x : in integer) is", "  begin", "    null;", "  end procedure;",
             "  procedure put (x : in word_t; y : in boolean) is", "  begin", "    put(x & %s);" % s2(), "  end procedure;",
             '  function "+" (l, r : word_t) return word_t is', "  begin", "    if l < r then return r; else return l; end if;", "  end function;",
             "end package body;"]
    rel = ["=", "/=", "<", "<=", ">", ">="]
    u = pre + ["library %s;" % lib, "use %s.%s.all;" % (lib, pk), "entity %s is" % ent, "end entity;", "architecture a of %s is" % ent,
               "  signal w, v : word_t%s := %s;" % (rng4, s4()), "  signal w6 : word_t%s;" % rng6, "  signal w5 : word_t%s;" % rng5,
               "  signal cw : cword_t := (others => '0');", "  signal b0, b1, b2 : boolean;", "  signal n : natural;",
               "  constant c1 : boolean := k0 = %s;" % b4(), "  constant c2 : boolean := %s /= k0;" % b4(),
               "  constant c3 : boolean := k0 %s %s;" % (r.choice(rel), b4()), "  constant c4 : word_t%s := k0 & %s;" % (rng6, s2()),
               "  constant c5 : word_t%s := %s & k0;" % (rng6, s2()), "  constant c6 : word_t%s := '1' & k0;" % rng5,
               "  constant c7 : natural := weight(%s);" % b4(), "  constant c8 : natural := weight(x => %s);" % b4(),
               "  constant c9 : natural := cweight((others => '1'));", "  constant c10 : natural := cweight(%s);" % s4(),
               "  constant c11 : word_t%s := k0 + %s;" % (rng4, b4()), "  constant c12 : boolean := (k0 & %s) %s \"010101\";" % (s2(), r.choice(rel)),
               "  constant c13 : natural := weight(k0 & %s);" % s2(), "  constant c14 : boolean := k1 %s %s;" % (r.choice(rel), s4()),
               "  constant c15 : w4_t := maximum(k0, %s);" % s4(), "  constant c16 : natural := weight(%s + k0);" % s4(),
               "  constant c17 : natural := cweight(k1 = %s);" % s4(), "  constant c18 : word_t%s := k0 & '0' & %s;" % (r.choice(["(7 downto 1)", "(1 to 7)"]), s2()),
               "begin",
               "  b0 <= w %s %s;" % (r.choice(rel), b4()), "  b1 <= w /= %s or v %s %s;" % (b4(), r.choice(rel), s4()),
               "  b2 <= cw = %s and %s = cw;" % (s4(), s4()),
               "  w6 <= w & %s;" % s2(), "  w5 <= w & '1';",
               "  n <= weight(%s) + cweight(%s);" % (b4(), s4()),
               "  cw <= %s when w = %s else (others => '0');" % (s4(), b4()),
               "  v <= w + %s when %s < v else %s;" % (s4(), s4(), s4()),
               "  pr : process", "    variable x : word_t%s;" % rng4, "    variable ok : boolean;", "  begin",
               "    put(%s);" % b4(), "    put(x => %s);" % b4(), "    put(%s, true);" % s4(), "    put(x => %s, y => ok);" % b4(),
               "    put(x & %s);" % s2(), "    put(7);",
               "    if x = %s then" % b4(), "      x := x + %s;" % s4(), "    elsif %s %s x then" % (s4(), r.choice(rel)), "      x := (others => '1');", "    end if;",
               "    ok := x <= %s and %s <= x;" % (s4(), s4()), "    ok := minimum(x, %s) = x;" % s4(),
               "    case x is", "      when %s =>" % '"0000"', "        ok := true;", "      when others =>", "        ok := false;", "    end case;",
               "    assert w = %s report \"differs\" severity note;" % b4(),
               "    while x /= %s loop" % s4(), "      x := x + %s;" % b4(), "    end loop;",
               "    wait until w = %s;" % s4(), "    wait;", "  end process;", "end architecture;"]
    return lib, [("x_pkg.vhd", "\n".join(pkg) + "\n"), ("x_body.vhd", "\n".join(body) + "\n"), ("x_user.vhd", "\n".join(u) + "\n")]


def template_bundle(seed_, n, path, mode="w", first=0):
    r = random.Random(seed_ * 31 + 5)
    with open(path, mode) as f:
        for k in range(first, first + n):
            lib, files = (template_program, template_program2, template_program3, template_program4)[k % 4](k, r)
            f.write("P t%d\n" % k)
            for name, text in files:
                lines = text.split("\n")
                if lines and lines[-1] == "":
                    lines = lines[:-1]
                f.write("F %s %s_%s %d\n" % (lib, lib, name, len(lines)))
                for l in lines:
                    f.write(l + "\n")


def check_templates(res, hbin, d, tier):
    n = 40 if tier == "quick" else 600
    path = os.path.join(d, "templates.bundle")
    template_bundle(seed(), n, path)
    # corpus/C05.templates: fixed (seed, count) pairs that are always run (regressions: F62 two-array MINIMUM/MAXIMUM)
    cpath = os.path.join(VERIF, "corpus", "C05.templates")
    first = n
    if os.path.exists(cpath):
        for l in open(cpath):
            f = l.split()
            if len(f) == 2 and f[0].isdigit():
                template_bundle(int(f[0]), int(f[1]), path, mode="a", first=first)
                first += int(f[1])
    n = first
    # fifth family (own pid prefix `s`, so the seeds of the families above and of corpus/C05.templates are unchanged)
    n5 = 16 if tier == "quick" else 300
    r5 = random.Random(seed() * 131 + 11)
    with open(path, "a") as f:
        for k in range(n5):
            lib, files = template_program5(k, r5)
            f.write("P s%d\n" % k)
            for name, text in files:
                lines = text.split("\n")
                if lines and lines[-1] == "":
                    lines = lines[:-1]
                f.write("F %s %s_%s %d\n" % (lib, lib, name, len(lines)))
                for l in lines:
                    f.write(l + "\n")
    res.coverage["template_programs_enum_subtype_element_arrays"] = n5
    # the attribute matrix restricted to VHDL-1993 constructs, for the run under standard = "1993"
    path93 = os.path.join(d, "templates93.bundle")
    r93 = random.Random(seed() * 17 + 3)
    n93 = 3 if tier == "quick" else 30
    with open(path93, "w") as f:
        for k in range(n93):
            lib, files = template_program4(9000 + k, r93, standard="1993")
            f.write("P t93_%d\n" % k)
            for name, text in files:
                lines = text.split("\n")
                if lines and lines[-1] == "":
                    lines = lines[:-1]
                f.write("F %s %s_%s %d\n" % (lib, lib, name, len(lines)))
                for l in lines:
                    f.write(l + "\n")
    total = 0
    # every standard the configuration supports (the implementation's default is 2008)
    for standard, bpath in ((None, path), ("2019", path), ("1993", path93)):
        hr, log = run_harness(hbin, bpath, os.path.join(d, "templates.out"), os.path.join(d, "wd_t"), threads=8, batch=20,
                              standard=standard)
        if hr is None:
            res.violation("harness c05 run crashed on the template stream", {"kind": "harness", "log": log[-2000:]}, no_failing_input=True)
            return
        impl, _ = hr
        b = Bundle(bpath)
        bad = 0
        for pid in b.order:
            o = impl.get(pid)
            total += 1
            res.count_case("template|%s|%s|%d" % (standard, pid, sum(len(t) for t in b.by_pid[pid].values())), True)
            if o is None or o["panic"] or errors_of(o):
                bad += 1
                if bad <= 3:
                    what = ("Project::analyse panics" if (o and o["panic"]) else
                            "error diagnostic: " + describe_diag(errors_of(o)[0]) if o else "no result")
                    res.violation("template program under standard %s (generic packages / explicit operator overloads + alias / "
                                  "arrays of subtypes / individual association, generates / attribute matrix / string and bit-string literals "
                                  "inferred bottom-up for arrays whose element is a subtype of a character enumeration; valid by inspection; "
                                  "exploration only, outside the theorems): " % (standard or "default") + what,
                                  {"kind": "input", "template": pid, "standard": standard, "seed": seed(), "files": b.text_of(pid),
                                   "diagnostics": [describe_diag(x) for x in (errors_of(o) if o else [])][:10]})
    res.coverage["template_programs"] = total
    res.coverage["standards"] = ["default(2008)", "2019", "1993 (attribute templates only)"]
    for fn in ("templates.bundle", "templates93.bundle", "templates.out"):
        try:
            os.remove(os.path.join(d, fn))
        except OSError:
            pass


def main(tier, replay=None):
    res = Result(PROP, tier, level="other")
    d = rundir(PROP)
    proof_stage(res, PROP, thorough=(tier == "thorough"))
    hbin, mbin = build_all(res)
    if hbin is None:
        return res.finish()
    sd = seed()
    if replay:
        rp = json.load(open(replay))
        reqs = [rp["request"]] if "request" in rp else []
        if not reqs:
            check_libs(res, hbin, d)      # a recorded case about the bundled libraries / the template stream
            check_templates(res, hbin, d, tier)
    else:
        check_libs(res, hbin, d)
        check_templates(res, hbin, d, tier)
        n = 300 if tier == "quick" else 8000
        reqs = read_corpus("C05.cases") + gen_requests(sd, n, 2, 3, 0, first_tag=1000)
    if not reqs:
        return res.finish()
    bundle_path = os.path.join(d, "bundle.txt")
    t0 = time.time()
    if not run_runner(mbin, reqs, bundle_path):
        res.violation("extracted runner failed", {"kind": "build"}, no_failing_input=True)
        return res.finish()
    t_gen = time.time() - t0
    b = Bundle(bundle_path)
    t0 = time.time()
    hr, log = run_harness(hbin, bundle_path, os.path.join(d, "impl.out"), os.path.join(d, "wd"))
    t_an = time.time() - t0
    if hr is None:
        res.violation("harness c05 run crashed", {"kind": "harness", "log": log[-2000:]}, no_failing_input=True)
        return res.finish()
    impl, libs_errors = hr
    for e in libs_errors[:2]:
        res.violation("error diagnostic in a bundled library while analysing generated programs: " + describe_diag(e),
                      {"kind": "input", "diagnostic": e})
    req_of = {}
    for r in reqs:
        req_of[parse_request(r)["pid"]] = r
    stats = Counter()
    rw_kinds = Counter()
    fell = 0
    nviol = 0
    revalidated = 0
    known_hits = Counter()
    for pid in b.order:
        base = pid.rsplit(".", 1)[0]
        variant = pid.rsplit(".", 1)[1]
        m = b.meta[pid]
        o = impl.get(pid)
        rq = parse_request(req_of[base])
        rewrites = m["rewrites"].split(",") if "rewrites" in m else []
        kind = "rewritten" if rewrites else "generated"
        stats[kind] += 1
        if m.get("fellback") == "true":
            fell += 1
        if m.get("nodup_nids", "true") != "true":
            res.violation("node ids of a generated program are not pairwise different (hypothesis of the theorems): " + pid,
                          {"kind": "correspondence", "correspondence": "Renumber.renumber / Walk.nodup_nids",
                           "request": req_of[base]}, no_failing_input=True)
        for r in rewrites:
            rw_kinds[r.split(":")[0]] += 1
        texts = b.text_of(pid)
        nunits = len(texts)
        canon = "%s|%s|%s" % (base, ",".join(rewrites), sum(len(t) for t in texts.values()))
        res.count_case(canon, nunits >= 4)
        if stats[kind] <= 2:
            res.add_sample({"pid": pid, "rewrites": rewrites, "units": nunits,
                            "first_lines": list(texts.values())[0].split("\n")[:6]})
        problem = None
        if o is None:
            problem = "the harness returned no result for the program"
        elif o["panic"]:
            problem = "Project::analyse panics on a valid program"
        elif errors_of(o):
            es = errors_of(o)
            if es:
                e = es[0]
                problem = "error diagnostic on a program the reference calls Valid: " + describe_diag(e)
        if rewrites and m.get("valid") != "true":
            nviol += 1
            if nviol <= 6:
                res.violation("reference broken: an applicable rewrite produced a program the extracted reference rejects (%s)"
                              % m["rewrites"], {"kind": "correspondence", "correspondence": "Rewrites.apply_rewrite vs Sem.valid_b",
                                                "request": req_of[base], "pid": pid}, no_failing_input=True)
            continue
        if problem:
            nviol += 1
            if nviol > 6:
                continue
            # rule out a generator / extraction problem: evaluate the decidable Valid inside Coq
            v, clog = coq_valid_of_variant("reval%d" % nviol, rq["choices"], rewrites)
            revalidated += 1
            rp = {"kind": "input", "request": req_of[base], "pid": pid, "rewrites": rewrites,
                  "diagnostics": [describe_diag(x) for x in (errors_of(o) if o else [])][:10],
                  "files": texts, "coq_valid": v, "replay_cmd": "./check C05 --replay <this file>"}
            if v is True:
                res.violation(problem + "  [program %s; re-validated inside Coq: Valid]" % pid, rp)
            else:
                res.violation("generator/extraction problem: the implementation reports an error and Coq does not confirm "
                              "validity of %s (%s)" % (pid, problem), dict(rp, kind="correspondence",
                                                                         correspondence="extracted Gen/Sem vs vm_compute",
                                                                         log=clog[-1500:]), no_failing_input=True)
    # the same programs under the other standard that accepts the fragment (VHDL-2019; the fragment uses VHDL-2008
    # constructs — contexts, generic packages, use of a type importing its literals — so it is not run under 1993)
    if not replay:
        npr = 240 if tier == "quick" else 3000
        sub = os.path.join(d, "bundle2019.txt")
        cnt = 0
        with open(bundle_path) as fi, open(sub, "w") as fo:
            for line in fi:
                if line.startswith("P "):
                    cnt += 1
                    if cnt > npr:
                        break
                fo.write(line)
        hr2, log2 = run_harness(hbin, sub, os.path.join(d, "impl2019.out"), os.path.join(d, "wd19"), standard="2019")
        if hr2 is None:
            res.violation("harness c05 run crashed under standard 2019", {"kind": "harness", "log": log2[-2000:]}, no_failing_input=True)
        else:
            bad19 = 0
            for pid, o in sorted(hr2[0].items()):
                res.count_case("2019|" + pid, True)
                if o["panic"] or errors_of(o):
                    bad19 += 1
                    if bad19 <= 3:
                        basepid = pid.rsplit(".", 1)[0]
                        res.violation("under `standard = \"2019\"`: error diagnostic on a program the reference calls Valid (accepted under "
                                      "2008): %s  [program %s]" % (describe_diag(errors_of(o)[0]) if errors_of(o) else "panic", pid),
                                      {"kind": "input", "request": req_of.get(basepid), "pid": pid, "standard": "2019",
                                       "files": b.text_of(pid), "diagnostics": [describe_diag(x) for x in errors_of(o)][:10]})
            res.coverage["programs_under_2019"] = len(hr2[0])
        for fn in ("bundle2019.txt", "impl2019.out"):
            try:
                os.remove(os.path.join(d, fn))
            except OSError:
                pass
    for kid, cnt in sorted(known_hits.items()):
        e = [x for x in known_findings(PROP) if x["id"] == kid][0]
        res.known_finding("%s (%s; %d diagnostics in this run)" % (e.get("open", kid), kid, cnt))
    res.coverage["known_findings_hit"] = dict(known_hits)
    # extraction vs Coq: a sample of programs is generated, checked and printed inside Coq
    if not replay:
        sample = [r for r in reqs if parse_request(r)["pid"].startswith("g")][:3 if tier == "quick" else 8]
        items = []
        for r in sample:
            rq = parse_request(r)
            pid = rq["pid"] + ".b"
            if pid not in b.meta:
                continue
            texts = [("\n".join(t) + "\n") for name, t in b.by_pid[pid].items()]
            items.append((rq, [text_checksum(t) for t in texts]))
        if items:
            pre = COQ_PRE + COQ_CKS
            conj = []
            for k, (rq, sums) in enumerate(items):
                pre += "Definition prog%d := gen_program %s.\n" % (k, coq_choices(rq["choices"]))
                conj.append("valid_b prog%d && nodup_nids prog%d && %s" % (
                    k, k, coq_text_checksum_body(rq["tag"] * 64, sums).replace("prog)", "prog%d)" % k)))
            v, clog = coq_eval_bool(PROP, "sample", pre, " && ".join("(%s)" % c for c in conj), timeout=1200)
            res.coverage["in_coq_vm_compute_programs"] = len(items)
            if v is not True:
                res.violation("extracted generator/printer and in-Coq evaluation (vm_compute) disagree on the sampled programs",
                              {"kind": "correspondence", "correspondence": "extraction vs vm_compute (Gen.gen_program, Print.layout)",
                               "log": clog[-2000:]}, no_failing_input=True)
    if stats["generated"] and fell * 5 > stats["generated"]:
        res.violation("the generator fell back to the trivial program in %d of %d cases" % (fell, stats["generated"]),
                      {"kind": "correspondence", "correspondence": "generator yield"}, no_failing_input=True)
    res.coverage.update({
        "programs": sum(stats.values()), "programs_by_kind": dict(stats), "rewrites_applied": dict(rw_kinds), "generator_fallbacks": fell,
        "vhdl_files": len(b.files), "vhdl_lines": b.nlines(), "revalidated_in_coq_before_violation": revalidated,
        "runner_s": round(t_gen, 1), "analysis_s": round(t_an, 1),
        "exhaustive": False,
        "rule": ("corpus requests first; then seed-derived choice lists (%d numbers each) -> Gen.gen_program: two libraries, "
                 "packages with bodies (deferred constants, overloaded functions/procedures, records, arrays, enumerations, "
                 "subtypes, components), entities/architectures (processes, blocks, concurrent assignments, entity and "
                 "component instantiations with positional/named/open associations), context declarations and references, "
                 "generic packages with instances, configurations; use clauses `all`/item-wise/selected names chosen at "
                 "random; each program also in 2 variants rewritten by up to 3 composed rewrites (swap independent "
                 "declarations, positional<->named association, selected names, item-wise use, wrap in block, add unused "
                 "declaration); every second variant starts with the nesting plan: a concurrent statement wrapped into two "
                 "nested blocks and a declaration overloading a designator of an enclosing region (enumeration type re-using "
                 "a literal, integer type, subprogram with an outer name) put into the inner block.  non-trivial = at least 4 design units; distinct by (request, rewrites, size)" % CH_LEN),
        "explanation": ("theorem half (Coq, Props/C05.v): the typing judgment is sound for the reference semantics, every "
                        "generated program is Valid for the reference, the rewrites preserve reference validity (closed "
                        "under composition).  exploration half (decisive for the implementation): the analyser "
                        "(vhdl_lang/src/analysis, ~15 kLoC, not modelled) is run on the bundled libraries and on every "
                        "generated and rewritten program; the reference is tied to it only by this correspondence.  "
                        "An additional exploration-only stream (coverage.template_programs) of hand-written parameterised "
                        "template programs exercises generic packages with generic TYPES, types declared in the generic "
                        "package and deferred constants used through instances in typed contexts: these are outside the "
                        "MiniVHDL fragment and outside the theorems (valid by inspection); every second template program "
                        "instead declares explicit overloads of predefined operations (\"<\", \"=\", maximum, to_string ...) "
                        "followed by an alias of the type in the same region, and compares arrays whose element is named by "
                        "a subtype (natural, std_logic, user subtypes) with < <= > >= and MINIMUM/MAXIMUM; every third one has "
                        "individual association in overloaded calls and port maps, case/if/for generate statements whose "
                        "alternatives reuse labels and names, and labelled loops with exit/next <label> when; a further "
                        "hand-written family (coverage.template_programs_enum_subtype_element_arrays, pids s<k>) declares "
                        "one-dimensional arrays (unconstrained and constrained) whose ELEMENT is a subtype - constrained or "
                        "not, subtype of a subtype, resolved, std_logic / X01 / UX01 of ieee.std_logic_1164 - of a character "
                        "enumeration (user type, std_ulogic, bit, character) and uses string and bit-string literals where "
                        "their type is inferred bottom-up: operands of = /= < <= > >= &, of a user \"+\", of MINIMUM/MAXIMUM, "
                        "actuals (positional and named) of overloaded functions and procedures, `others` aggregates as "
                        "actuals of a constrained formal of an overloaded function"),
        "partial": True,
        "trusted_base": TRUSTED_BASE_COMMON + [
            "the reference semantics Mini/Sem.v is a sufficient condition for LRM validity on the fragment (two conservative "
            "restrictions: no hiding, units analysed in program order); it is not derived from the implementation",
            "Mini/Print.v renders the abstract syntax to VHDL text (extracted, used for both the text and the site table)",
        ],
    })
    res.assumptions = ["validity is the reference's (Mini/Sem.v) notion on the MiniVHDL fragment: listed in the header of Sem.v",
                       "severity = default SeverityMap of vhdl_lang (data/error_codes.rs); linters off"]
    # the run directory is only kept for inspection when something was reported
    if not res.violations:
        for fn in os.listdir(d):
            if fn.startswith(("bundle", "req_", "impl.out")):
                try:
                    os.remove(os.path.join(d, fn))
                except OSError:
                    pass
    return res.finish()
