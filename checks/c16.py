"""C16 — Semantic tokens and document symbols are well-formed encodings.

Three parts (see FRAMEWORK.md):
  proof           coq/Props/C16.v over the models coq/Lsp/SemTok.v and coq/Lsp/DocSym.v
  correspondence  harness/src/bin/c16.rs dumps `Project::find_all_entity_references` and
                  `Project::document_symbols` for the files of a workspace; the extracted model
                  (ocaml/c16_run.ml: map_and_sort + encode, from_parent + to_document_symbol) must
                  reproduce, number by number, what the vhdl_ls binary answers over LSP for
                  `textDocument/semanticTokens/full`, `/range` and `textDocument/documentSymbol`
  oracle          on the LSP answers alone: decoded tokens strictly increasing, non-overlapping,
                  inside the document, each covering exactly one identifier / operator symbol /
                  character literal (independent recogniser below, not the lexer under test);
                  range answer == filter of the full answer; symbols nested and inside the document.
"""
import hashlib
import json
import os
import random
import re
import shutil
import subprocess
import time
from vlib.common import *
from vlib import lsp as L

PROP = "C16"
LIBDIR = "/repo/vhdl_libraries"
U32MAX = 4294967295
MAX_REPORTS = 6

# ----------------------------------------------------------------------------------------------
# text model of a document (what the server holds): lines, UTF-16 columns
# ----------------------------------------------------------------------------------------------
LINE_SPLIT = re.compile(r"\r\n|\r|\n")


def disk_bytes(text):
    """How a file spec's text is written to disk: Latin-1 when possible (the server reads files as Latin-1)."""
    try:
        return text.encode("latin-1")
    except UnicodeEncodeError:
        return text.encode("utf-8")


def server_text_of_disk(b):
    return b.decode("latin-1")


def split_lines(text):
    return LINE_SPLIT.split(text)


def len16(s):
    return sum(2 if ord(c) >= 0x10000 else 1 for c in s)


def slice16(line, col, n):
    """Text under UTF-16 columns [col, col+n) of a line; None if outside or splitting a surrogate pair."""
    b = line.encode("utf-16-le", "surrogatepass")
    if col < 0 or n < 0 or 2 * (col + n) > len(b):
        return None
    try:
        return b[2 * col:2 * (col + n)].decode("utf-16-le")
    except UnicodeDecodeError:
        return None


# ----------------------------------------------------------------------------------------------
# independent recogniser: exactly one identifier, operator symbol or character literal
# ----------------------------------------------------------------------------------------------
LETTER = "A-Za-zÀ-ÖØ-öø-ÿ"
RE_BASIC = re.compile("[%s](?:_?[%s0-9])*\\Z" % (LETTER, LETTER))
RE_EXT = re.compile(r"\\(?:[^\\\r\n]|\\\\)+\\\Z")
RE_CHAR = re.compile(r"'[^\r\n]'\Z")
KEYWORD_OPS = {"and", "or", "nand", "nor", "xor", "xnor", "not", "mod", "rem", "abs",
               "sll", "srl", "sla", "sra", "rol", "ror"}
DELIM_OPS = {"??", "**", "/=", "<=", ">=", "?=", "?/=", "?<", "?<=", "?>", "?>=", "=", "<", ">", "+", "-", "&", "*", "/"}


def recognise(s):
    if s is None or s == "":
        return None
    if RE_BASIC.match(s):
        return "keyword-operator" if s.lower() in KEYWORD_OPS else "identifier"
    if RE_EXT.match(s):
        return "extended-identifier"
    if RE_CHAR.match(s):
        return "character-literal"
    if s in DELIM_OPS:
        return "operator"
    if len(s) >= 3 and s[0] == '"' and s[-1] == '"' and (s[1:-1].lower() in KEYWORD_OPS or s[1:-1] in DELIM_OPS):
        return "operator-symbol"
    return None


# ----------------------------------------------------------------------------------------------
# decoding and the property-level oracle
# ----------------------------------------------------------------------------------------------
def decode(data):
    """LSP delta decoding -> [(line, col, len, type, mods)] or None when the array is not 5-tuples."""
    if len(data) % 5 != 0:
        return None
    out = []
    line = col = 0
    for k in range(0, len(data), 5):
        dl, ds, ln, ty, mo = data[k:k + 5]
        if dl:
            line += dl
            col = ds
        else:
            col += ds
        out.append((line, col, ln, ty, mo))
    return out


def oracle_tokens(toks, lines, legend):
    """Returns a list of problem strings (empty = well formed)."""
    problems = []
    prev = None
    ntypes, nmods = legend
    for i, (line, col, ln, ty, mo) in enumerate(toks):
        where = "token #%d at %d:%d len %d" % (i, line, col, ln)
        if prev is not None:
            pl, pc, pn = prev
            if (line, col) <= (pl, pc):
                problems.append("%s: start not strictly after the previous token %d:%d" % (where, pl, pc))
            elif line == pl and col < pc + pn:
                problems.append("%s: overlaps the previous token %d:%d len %d" % (where, pl, pc, pn))
        prev = (line, col, ln)
        if ln <= 0:
            problems.append("%s: empty token" % where)
            continue
        if line >= len(lines):
            problems.append("%s: line beyond the document (%d lines)" % (where, len(lines)))
            continue
        if col + ln > len16(lines[line]):
            problems.append("%s: beyond the end of the line (UTF-16 length %d)" % (where, len16(lines[line])))
            continue
        s = slice16(lines[line], col, ln)
        if recognise(s) is None:
            problems.append("%s: text %r is not one identifier / operator symbol / character literal" % (where, s))
        if ty >= ntypes:
            problems.append("%s: token type %d outside the legend (%d types)" % (where, ty, ntypes))
        if mo >= (1 << nmods):
            problems.append("%s: modifier bits %d outside the legend (%d modifiers)" % (where, mo, nmods))
        if len(problems) >= 5:
            break
    return problems


def touches(tok, rng):
    return rng[0] <= tok[0] <= rng[2]


def pos_le(a, b):
    return (a["line"], a["character"]) <= (b["line"], b["character"])


def rng_inside(inner, outer):
    return pos_le(outer["start"], inner["start"]) and pos_le(inner["end"], outer["end"])


def pos_in_doc(p, lines):
    return p["line"] < len(lines) and p["character"] <= len16(lines[p["line"]])


def oracle_symbols(syms, lines):
    problems = []
    count = [0]

    def walk(s, parent):
        count[0] += 1
        r, sel = s["range"], s["selectionRange"]
        if not pos_le(r["start"], r["end"]):
            problems.append("symbol %r: range start after end %s" % (s["name"], r))
        if not rng_inside(sel, r):
            problems.append("symbol %r: selectionRange %s outside range %s" % (s["name"], sel, r))
        if parent is not None and not rng_inside(r, parent["range"]):
            problems.append("symbol %r: range %s outside the range %s of its parent %r" %
                            (s["name"], r, parent["range"], parent["name"]))
        for p in (r["start"], r["end"], sel["start"], sel["end"]):
            if not pos_in_doc(p, lines):
                problems.append("symbol %r: position %s outside the document" % (s["name"], p))
                break
        for c in s.get("children") or []:
            if len(problems) < 5:
                walk(c, s)

    for s in syms:
        walk(s, None)
    return problems, count[0]


def flat_symbols(syms):
    """Preorder (range, selectionRange, nchildren) rows like DocSym.ds_flat."""
    out = []

    def r4(r):
        return [r["start"]["line"], r["start"]["character"], r["end"]["line"], r["end"]["character"]]

    def walk(s):
        ch = s.get("children") or []
        out.append(r4(s["range"]) + r4(s["selectionRange"]) + [len(ch)])
        for c in ch:
            walk(c)

    for s in syms:
        walk(s)
    return out


# ----------------------------------------------------------------------------------------------
# inputs: file specs, mutations, generated projects
# ----------------------------------------------------------------------------------------------
TOKEN_RE = re.compile(
    r"--[^\r\n]*|/\*.*?\*/|\"(?:[^\"\r\n]|\"\")*\"|\\(?:[^\\\r\n]|\\\\)*\\|'[^\r\n]'(?![A-Za-z0-9_])|"
    r"[A-Za-zÀ-ÿ][A-Za-z0-9_À-ÿ]*|\d[\w.#]*|<=|>=|=>|:=|/=|\*\*|<>|\?\?|[^\s]", re.S)

_SRC_CACHE = {}


def src_text(path):
    if path not in _SRC_CACHE:
        _SRC_CACHE[path] = server_text_of_disk(open(path, "rb").read())
    return _SRC_CACHE[path]


def apply_ops(text, ops):
    for op in ops:
        k = op[0]
        if k == "del":
            text = text[:op[1]] + text[op[2]:]
        elif k == "trunc":
            text = text[:op[1]]
        elif k == "ins":
            text = text[:op[1]] + op[2] + text[op[1]:]
        elif k in ("swap", "dup"):
            parts = re.split(r"(\r\n|\r|\n)", text)
            nl = (len(parts) + 1) // 2
            if k == "swap" and op[1] < nl and op[2] < nl:
                parts[2 * op[1]], parts[2 * op[2]] = parts[2 * op[2]], parts[2 * op[1]]
            elif k == "dup" and op[1] < nl:
                parts[2 * op[1]] = parts[2 * op[1]] + "\n" + parts[2 * op[1]]
            text = "".join(parts)
        elif k == "crlf":
            text = re.sub(r"\r\n|\r|\n", "\r\n", text)
        elif k == "cr":
            text = re.sub(r"\r\n|\r|\n", "\r", text)
    return text


def spec_text(fs):
    """Text of a file spec: {"text": s} or {"src": path, "ops": [...]}."""
    if "text" in fs:
        return fs["text"]
    return apply_ops(src_text(fs["src"]), fs.get("ops", []))


GARBAGE = ["(", ")", ";", "'", "\"", "\\", "begin", "end", "is", "<=", "€", "\U0001F600", "é", "--", "/*", ":=", "x\"", "16#", " 'a' "]


def random_ops(rng, text):
    """1-3 mutations: delete a token, truncate, swap/duplicate lines, insert garbage, change the line endings."""
    ops = []
    cur = text
    for _ in range(rng.choice([1, 1, 1, 2, 2, 3])):
        kind = rng.choice(["del", "del", "del", "trunc", "swap", "swap", "dup", "ins", "ins", "crlf", "cr", "shift", "shift"])
        if kind == "del":
            toks = [m for m in TOKEN_RE.finditer(cur)]
            if not toks:
                continue
            m = rng.choice(toks)
            op = ["del", m.start(), m.end()]
        elif kind == "trunc":
            op = ["trunc", rng.randrange(0, len(cur) + 1)]
        elif kind in ("swap", "dup"):
            nl = len(split_lines(cur))
            i = rng.randrange(nl)
            j = min(nl - 1, i + rng.choice([1, 1, 2, 5])) if rng.random() < 0.7 else rng.randrange(nl)
            op = ["swap", i, j] if kind == "swap" else ["dup", i]
        elif kind == "ins":
            toks = [m for m in TOKEN_RE.finditer(cur)]
            pos = rng.choice(toks).start() if toks and rng.random() < 0.8 else rng.randrange(0, len(cur) + 1)
            op = ["ins", pos, rng.choice(GARBAGE) + rng.choice(["", " "])]
        elif kind == "shift":
            op = ["ins", 0, rng.choice(["-- inserted line\n", "\n\n", "   ", "-- a\r\n-- b\r\n"])]
        else:
            op = [kind]
        ops.append(op)
        cur = apply_ops(cur, [op])
    return ops


TEMPLATES = {
    "pkg": """library ieee;
use ieee.std_logic_1164.all;
use ieee.numeric_std.all;

package pkg@ is
  type color_t is (red, green, blue, 'x', 'y');
  type rec_t is record
    a : integer;
    b : std_logic_vector(7 downto 0);
  end record;
  type node_t;
  type node_ptr is access node_t;
  type node_t is record
    nxt : node_ptr;
    val : natural;
  end record;
  type dist_t is range 0 to 1000000 units
    um;
    mm = 1000 um;
  end units;
  type prot_t is protected
    procedure incr(n : natural);
    impure function get return natural;
  end protected;
  constant deferred_c : integer;
  constant width : natural := 8;
  subtype byte_t is std_logic_vector(width - 1 downto 0);
  function "+" (l, r : rec_t) return rec_t;
  function "and" (l, r : color_t) return color_t;
  function \\ext id\\ (x : integer) return integer;
  procedure proc1 (signal s : out std_logic; constant v : in boolean := true);
  attribute my_attr : string;
  attribute my_attr of width : constant is "w";
  alias col_alias is color_t;
  alias plus_alias is "+" [rec_t, rec_t return rec_t];
  component comp@ is
    generic (g : natural := 1);
    port (clk : in std_logic; q : out byte_t);
  end component;
end package;
""",
    "body": """package body pkg@ is
  constant deferred_c : integer := 3 * 7 mod 5;
  type prot_t is protected body
    variable cnt : natural := 0;
    procedure incr(n : natural) is
    begin
      cnt := cnt + n;
    end procedure;
    impure function get return natural is
    begin
      return cnt;
    end function;
  end protected body;
  function "+" (l, r : rec_t) return rec_t is
    variable res : rec_t;
  begin
    res.a := l.a + r.a;
    res.b := l.b or r.b;
    return res;
  end function "+";
  function "and" (l, r : color_t) return color_t is
  begin
    if l = red and r /= 'x' then
      return green;
    end if;
    return l;
  end function;
  function \\ext id\\ (x : integer) return integer is
  begin
    return abs x ** 2 rem 7;
  end function;
  procedure proc1 (signal s : out std_logic; constant v : in boolean := true) is
  begin
    s <= '1' when v else '0';
  end procedure proc1;
end package body;
""",
    "ent": """-- Entité with a Latin-1 comment: é ü ß §
library ieee;
use ieee.std_logic_1164.all;
use ieee.numeric_std.all;
use work.pkg@.all;

entity ent@ is
  generic (n : positive := 4; \\délai\\ : time := 1 ns);
  port (
    clk, rst : in std_logic;
    d : in byte_t;
    q : out byte_t
  );
end entity ent@;

architecture rtl of ent@ is
  signal cnt : unsigned(n - 1 downto 0) := (others => '0');
  signal col : color_t := red;
  signal r1, r2 : rec_t;
  signal sl : std_logic;
  shared variable pv : prot_t;
  constant dist : dist_t := 3 mm + 5 um;
  function f (x : integer) return integer is
  begin
    return \\ext id\\(x) + deferred_c;
  end function f;
begin
  main : process (clk, rst) is
    variable v : integer range 0 to 15 := 0;
  begin
    if rst = '1' then
      cnt <= (others => '0');
    elsif rising_edge(clk) then
      cnt <= cnt + 1;
      v := f(v) mod 16;
      lbl : for i in 0 to n - 1 loop
        next lbl when i = 2;
        r1 <= r1 + r2;
        r2 <= plus_alias(r1, r2);
      end loop lbl;
      col <= col and 'y';
      pv.incr(1);
    end if;
  end process main;

  process
  begin
    wait for \\délai\\;
    proc1(sl, false);
    wait;
  end process;

  gen : for k in 0 to 1 generate
    signal loc : std_logic;
  begin
    inst : component comp@
      generic map (g => k)
      port map (clk => clk, q => open);
    blk : block is
    begin
      loc <= d(k) xor d(k + 1) after \\délai\\;
    end block blk;
  end generate gen;

  q <= std_logic_vector(cnt) when col = red else d;
  /* block
     comment é */
  assert width'my_attr = "w" and cnt'length > 0 report "x" severity note;
end architecture rtl;
""",
    "gen": """package gpkg@ is
  generic (type t; size : natural := 2);
  type arr_t is array (0 to size - 1) of t;
  function max (a : arr_t) return t;
end package;

package body gpkg@ is
  function max (a : arr_t) return t is
    variable m : t := a(0);
  begin
    for i in a'range loop
      if m /= a(i) then m := a(i); end if;
    end loop;
    return m;
  end function;
end package body;

package ipkg@ is new work.gpkg@ generic map (t => integer, size => 4);

context ctx@ is
  library ieee;
  use ieee.std_logic_1164.all;
end context;

configuration cfg@ of ent@ is
  for rtl
  end for;
end configuration;
""",
    "seq": """entity seq@ is
end entity;
architecture a of seq@ is
  function f (n : integer) return integer is
    variable x : integer := 0;
  begin
    outer : for i in 0 to n loop
      inner : while x < 10 loop
        x := x + 1;
        nx : next outer when x = 3;
        ex : exit inner when x = 5;
      end loop inner;
    end loop outer;
    check : if x > 2 then
      asg : x := 1;
    elsif x > 1 then
      nul : null;
    else
      rep : report "r";
    end if check;
    sel : case x is
      when 0 => ass : assert false report "a";
      when others => null;
    end case sel;
    ret : return x;
  end function;
  signal sg : bit;
begin
  p : process
    variable v : integer;
  begin
    lbl : v := 1;
    sa : sg <= '1';
    w : wait for 1 ns;
    lp : loop
      exit lp;
    end loop lp;
    c2 : case v is when others => i2 : if v = 1 then v := 2; end if i2; end case c2;
    wait;
  end process p;
end architecture;
""",
    "tb": """library ieee; context work.ctx@;
use work.pkg@.all; use work.ipkg@.all;
entity tb@ is end entity;
architecture sim of tb@ is
  signal clk : std_logic := '0'; signal rst : std_logic;
  signal d, q : byte_t;
  constant a : arr_t := (1, 2, 3, 4);
begin
  clk <= not clk after 5 ns;
  dut : entity work.ent@(rtl) generic map (n => 4) port map (clk => clk, rst => rst, d => d, q => q);
  stim : process
    variable l : integer := max(a);
    type st_t is (idle, run);
    variable st : st_t := idle;
  begin
    case st is
      when idle => st := run;
      when run => null;
    end case;
    while l > 0 loop l := l - 1; exit when l = 1; end loop;
    report integer'image(l) & " " & color_t'image(blue);
    wait;
  end process stim;
end architecture;
""",
}


def relayout(rng, text, wild):
    """Randomise the white space between lexical elements (never inside literals, extended identifiers or comments)."""
    out = []
    i = 0
    n = len(text)
    eol = rng.choice(["\n", "\n", "\r\n"]) if wild else "\n"
    while i < n:
        c = text[i]
        if text.startswith("--", i):
            j = text.find("\n", i)
            j = n if j < 0 else j
            out.append(text[i:j])
            i = j
        elif text.startswith("/*", i):
            j = text.find("*/", i)
            j = n if j < 0 else j + 2
            out.append(text[i:j])
            i = j
        elif c == '"':
            j = i + 1
            while j < n and text[j] != '"':
                j += 1
            out.append(text[i:j + 1])
            i = j + 1
        elif c == "\\":
            j = text.find("\\", i + 1)
            out.append(text[i:j + 1])
            i = j + 1
        elif c == "\n":
            out.append(eol)
            i += 1
        elif c == " " and wild and rng.random() < 0.25:
            out.append(rng.choice([" ", "  ", eol, eol + "  ", "\t", eol + eol, " " + eol]))
            i += 1
        else:
            out.append(c)
            i += 1
    return "".join(out)


def gen_project(rng, tag, wild=True):
    """A small multi-file project (one library) exercising most kinds of references."""
    files = {}
    for name, t in TEMPLATES.items():
        txt = t.replace("@", "_" + tag)
        files["%s_%s.vhd" % (name, tag)] = {"text": relayout(rng, txt, wild)}
    return files


def library_groups():
    """Files of the bundled libraries, grouped so that a body stays with its package."""
    groups = []
    for sub in ("ieee2008", "synopsys", "vital2000", "std"):
        d = os.path.join(LIBDIR, sub)
        names = sorted(f for f in os.listdir(d) if f.endswith((".vhd", ".vhdl")))
        used = set()
        for f in names:
            if f in used:
                continue
            base, ext = os.path.splitext(f)
            mates = [f]
            for cand in (base + "-body" + ext, (base[:-2] + "_b" + ext) if base.endswith("_p") else None):
                if cand and cand in names and cand not in used:
                    mates.append(cand)
            if base.endswith("-body") or base.endswith("_b"):
                continue
            for m in mates:
                used.add(m)
            groups.append([os.path.join(d, m) for m in mates])
        for f in names:
            if f not in used:
                groups.append([os.path.join(d, f)])
                used.add(f)
    return groups


def all_library_files():
    return sorted(p for g in library_groups() for p in g)


def gen_ranges(rng, nlines, count):
    out = []
    for _ in range(count):
        k = rng.randrange(12)
        a = rng.randrange(max(1, nlines))
        b = min(nlines + 3, a + rng.choice([0, 1, 2, 5, 20, 100, 1000]))
        c1, c2 = rng.choice([0, 0, 3, 80, 100000]), rng.choice([0, 0, 7, 200, U32MAX])
        if k == 0:
            r = [a, c1, a, c1]                      # empty range
        elif k == 1:
            r = [a, 0, a, U32MAX]                   # one line
        elif k == 2:
            r = [b + 1, c1, a, c2] if b + 1 > a else [a + 1, 0, a, 0]   # inverted
        elif k == 3:
            r = [nlines + rng.randrange(5), c1, nlines + 10 + rng.randrange(100), c2]   # beyond EOF
        elif k == 4:
            r = [a, c1, U32MAX, c2]                 # to "infinity"
        elif k == 5:
            r = [0, 0, nlines, 0]                   # everything
        elif k == 6:
            r = [0, c1, 0, c2]
        else:
            r = [a, c1, b, c2]
        out.append(r)
    return out


def offset_of(text, line, col):
    """Python index of the LSP position (line, UTF-16 column) in `text`, clamped into the document like a client does."""
    starts = [0]
    for m in LINE_SPLIT.finditer(text):
        starts.append(m.end())
    if line >= len(starts):
        return len(text)
    i = starts[line]
    m = LINE_SPLIT.search(text, i)
    end = m.start() if m else len(text)
    u = 0
    while i < end and u < col:
        u += 2 if ord(text[i]) >= 0x10000 else 1
        i += 1
    return i


def client_apply(text, changes):
    """The document the CLIENT holds after one didChange notification: the content changes applied in the listed
    order, each to the result of the previous one, as plain-string splices (LSP specification)."""
    for ch in changes:
        if ch.get("range") is None:
            text = ch["text"]
        else:
            l1, c1, l2, c2 = ch["range"]
            a, b = offset_of(text, l1, c1), offset_of(text, l2, c2)
            text = text[:a] + ch["text"] + text[max(a, b):]
    return text


def det_ranges(toks, nlines):
    """Ranges derived from the full answer, asked for every file: the line of the first token alone, from the middle
    token's line to the last token's line (the tokens before it are filtered out: the delta encoding must restart from
    the first emitted token), and an inverted range."""
    if not toks:
        return [[0, 0, nlines, 0]]
    l0, lm, ll = toks[0][0], toks[len(toks) // 2][0], toks[-1][0]
    return [[l0, 0, l0, 0], [lm, 5, ll, 0], [ll, 0, l0, 0] if ll > l0 else [l0 + 1, 0, l0, 0]]


# ----------------------------------------------------------------------------------------------
# sessions
# ----------------------------------------------------------------------------------------------
def abs_of(root, f):
    return f if f.startswith("/") else os.path.join(root, f)


def materialise(spec, root):
    if os.path.isdir(root):
        shutil.rmtree(root)
    os.makedirs(root)
    with open(os.path.join(root, "vhdl_ls.toml"), "w") as f:
        f.write(spec["toml"])
    texts = {}
    for rel, fs in spec["files"].items():
        b = disk_bytes(spec_text(fs))
        p = os.path.join(root, rel)
        os.makedirs(os.path.dirname(p), exist_ok=True)
        with open(p, "wb") as f:
            f.write(b)
        texts[p] = server_text_of_disk(b)
    return texts


class Tools:
    def __init__(self, hbin, mbin, lsbin):
        self.hbin, self.mbin, self.lsbin = hbin, mbin, lsbin


def run_model(tools, lines_in, d, tag):
    pin = os.path.join(d, tag + ".model.in")
    with open(pin, "w") as f:
        f.write("\n".join(lines_in) + "\n")
    with open(pin) as fin:
        p = subprocess.run([tools.mbin], stdin=fin, stdout=subprocess.PIPE, stderr=subprocess.PIPE)
    if p.returncode != 0:
        return None, p.stderr.decode("utf-8", "replace")[-2000:]
    return p.stdout.decode().split("\n")[:len(lines_in)], ""


def reduced_spec(spec, step_idx, file, ranges, orders=None):
    """Session restricted to one file (earlier steps keep their edits and the queries of that file)."""
    steps = []
    for i, st in enumerate(spec["steps"][:step_idx + 1]):
        st2 = {k: v for k, v in st.items() if k != "query"}
        q = [file]                # earlier queries of the file stay: they fill the server's token cache
        if i == step_idx and spec.get("fresh_compare"):
            q = st["query"]           # the fresh-server comparison uses the last step's queries
        st2["query"] = q
        steps.append(st2)
    sp = dict(spec)
    sp["steps"] = steps
    sp["ranges"] = {"%d:%s" % (i, file): (ranges if i == step_idx else []) for i in range(step_idx + 1)}
    sp["orders"] = {k: v for k, v in (orders or {}).items() if k.endswith(":" + file)}
    return sp


def run_session(spec, tools, res, stats, sess_rng):
    """Runs one workspace through harness + model + LSP server and applies oracle and correspondence."""
    name = spec["name"]
    d = rundir(PROP)
    root = os.path.join(d, "ws_" + name)
    texts = materialise(spec, root)            # abs path -> text the server holds
    nranges = spec.get("nranges", 10)

    # ---- the client's view: text of the edited file after every step (batched ranged changes are spliced in listed order)
    client = dict(texts)
    step_text = []
    for st in spec["steps"]:
        ed = st.get("edit")
        t = None
        if ed:
            p = abs_of(root, ed["file"])
            if "changes" in ed:
                t = client_apply(client.get(p, ""), ed["changes"])
            else:
                t = spec_text(ed["spec"])
            client[p] = t
        for rel, fs in (st.get("disk") or {}).items():
            if fs is not None and abs_of(root, rel) not in client:
                client[abs_of(root, rel)] = server_text_of_disk(disk_bytes(spec_text(fs)))
        step_text.append(t)

    # ---- harness (vhdl_lang::Project on the same workspace, holding the client's text)
    hsteps = []
    for si0, st in enumerate(spec["steps"]):
        ed = st.get("edit")
        hed = None
        if ed:
            hed = {"file": abs_of(root, ed["file"]), "text": step_text[si0]}
        disk = []
        for rel, fs in (st.get("disk") or {}).items():
            if fs is None:
                disk.append({"path": abs_of(root, rel), "delete": True})
            else:
                disk.append({"path": abs_of(root, rel), "hex": disk_bytes(spec_text(fs)).hex()})
        if st.get("toml") is not None:
            disk.append({"path": os.path.join(root, "vhdl_ls.toml"), "hex": st["toml"].encode("utf-8").hex()})
        hsteps.append({"disk": disk, "reload": bool(st.get("notify")), "edit": hed,
                       "files": [abs_of(root, f) for f in st["query"]]})
    has_reload = any(st.get("notify") or st.get("disk") or st.get("toml") is not None for st in spec["steps"])
    script = os.path.join(d, name + ".script.json")
    hout = os.path.join(d, name + ".harness.json")
    json.dump({"root": root, "dump_text": has_reload, "steps": hsteps}, open(script, "w"))
    rc, out = run([tools.hbin, script, hout], timeout=1800)
    if rc != 0:
        res.violation("harness c16 failed on session %s (rc %d)" % (name, rc),
                      {"kind": "harness", "log": out[-2000:], "session": spec if len(json.dumps(spec)) < 200000 else name},
                      no_failing_input=True)
        return
    hres = json.load(open(hout))
    for k, hs in enumerate(hres["steps"]):
        if hs.get("analysis_panic"):
            # parser/analyser panic on an edit: C02/C03 territory, not a C16 observation; the session ends before that edit
            stats["analysis_panics_outside_c16"].append({"session": name, "step": k})
            spec = dict(spec)
            spec["steps"] = spec["steps"][:k]
            break

    # ---- LSP server
    if has_reload:
        texts = materialise(spec, root)        # the harness run has changed the files on disk
    ls = L.LS(tools.lsbin, root)
    counter = {"n": 0}
    last_answer = {}
    orders_used = {}

    def make_report(si, f, text, ranges):
        def report(what, extra, nf=False, rngs=None):
            counter["n"] += 1
            stats["problems"] += 1
            if counter["n"] > MAX_REPORTS or len(res.violations) >= 12:
                return
            obj = {"kind": "correspondence" if nf else "input", "session": reduced_spec(spec, si, f, rngs or ranges, orders_used),
                   "file": f, "step": si, "text_sha1": hashlib.sha1(text.encode("utf-8", "replace")).hexdigest(),
                   "replay_cmd": "./check C16 --replay <this file>"}
            if len(text) < 6000:
                obj["file_text"] = text
            obj.update(extra)
            res.violation("%s [session %s, step %d, file %s]" % (what, name, si, f), obj, no_failing_input=nf)
        return report

    try:
        caps = {"textDocument": {"documentSymbol": {"hierarchicalDocumentSymbolSupport": bool(spec.get("hier", True))}}}
        resp, _ = ls.initialize(caps=caps)
        leg = resp["result"]["capabilities"]["semanticTokensProvider"]["legend"]
        legend = (len(leg["tokenTypes"]), len(leg["tokenModifiers"]))
        stats["legend"] = legend
        opened = {}
        died_in_edit = False
        model_in = []      # lines for the extracted model
        model_ctx = []     # what each model line is compared with
        for si, st in enumerate(spec["steps"]):
            # -- changes on disk / of the configuration, announced like an editor does
            changed = []
            for rel, fs in (st.get("disk") or {}).items():
                p = abs_of(root, rel)
                if fs is None:
                    if os.path.exists(p):
                        os.remove(p)
                else:
                    os.makedirs(os.path.dirname(p), exist_ok=True)
                    with open(p, "wb") as fh:
                        fh.write(disk_bytes(spec_text(fs)))
                changed.append(p)
            if st.get("toml") is not None:
                with open(os.path.join(root, "vhdl_ls.toml"), "w") as fh:
                    fh.write(st["toml"])
            kind = st.get("notify")
            if kind:
                stats["reloads"] += 1
                if kind == "watched":
                    ls.notify("workspace/didChangeWatchedFiles",
                              {"changes": [{"uri": L.uri(os.path.join(root, "vhdl_ls.toml")), "type": 2}]})
                elif kind == "create":
                    ls.notify("workspace/didCreateFiles", {"files": [{"uri": L.uri(p)} for p in changed]})
                elif kind == "delete":
                    ls.notify("workspace/didDeleteFiles", {"files": [{"uri": L.uri(p)} for p in changed]})
                elif kind == "rename":
                    ls.notify("workspace/didRenameFiles",
                              {"files": [{"oldUri": L.uri(p), "newUri": L.uri(p)} for p in changed]})
                ls.sync(timeout=600)
            ed = st.get("edit")
            if ed:
                p = abs_of(root, ed["file"])
                t = step_text[si]
                if "changes" in ed:
                    # ONE didChange notification carrying several incremental content changes
                    if p not in opened:
                        opened[p] = 1
                        ls.notify("textDocument/didOpen", {"textDocument": {"uri": L.uri(p), "languageId": "vhdl",
                                                                            "version": 1, "text": texts.get(p, "")}})
                    opened[p] += 1
                    cc = []
                    for ch in ed["changes"]:
                        if ch.get("range") is None:
                            cc.append({"text": ch["text"]})
                        else:
                            r0 = ch["range"]
                            cc.append({"range": {"start": {"line": r0[0], "character": r0[1]},
                                                 "end": {"line": r0[2], "character": r0[3]}}, "text": ch["text"]})
                    ls.notify("textDocument/didChange", {"textDocument": {"uri": L.uri(p), "version": opened[p]},
                                                         "contentChanges": cc})
                    stats["batched_changes"] += 1
                    if client_apply(texts.get(p, ""), list(reversed(ed["changes"]))) != t:
                        stats["batched_changes_order_matters"] += 1
                elif p not in opened:
                    opened[p] = 1
                    ls.notify("textDocument/didOpen", {"textDocument": {"uri": L.uri(p), "languageId": "vhdl",
                                                                        "version": 1, "text": t}})
                else:
                    opened[p] += 1
                    ls.notify("textDocument/didChange", {"textDocument": {"uri": L.uri(p), "version": opened[p]},
                                                         "contentChanges": [{"text": t}]})
                texts[p] = t
                stats["edits"] += 1
                try:
                    ls.sync(timeout=600)
                except L.ServerDied as ex:
                    # the server died while analysing the edit, before any C16 request: C03/C15 territory
                    stats["server_deaths_outside_c16"].append({"session": name, "step": si, "error": str(ex)[:200]})
                    print("# note: vhdl_ls died while processing an edit (session %s, step %d); outside C16, session cut short" % (name, si))
                    ls.kill()
                    died_in_edit = True
                    break
            for fi, f in enumerate(st["query"]):
                p = abs_of(root, f)
                if p not in texts:
                    texts[p] = src_text(p) if os.path.exists(p) else ""
                text = texts[p]
                hf = hres["steps"][si]["files"][fi]
                if "lines" in hf:
                    # sessions with project reloads: the text the Project holds after the same operations (a file that
                    # is already known is not read again from disk by Project::update_config)
                    ptext = "".join(hf["lines"])
                    if p in opened:
                        # an open document: the client's text is the document, whatever the project went through
                        if LINE_SPLIT.sub("\n", text) != ptext:
                            stats["open_document_text_differs_in_project"] += 1
                    else:
                        if os.path.exists(p):
                            dtext = server_text_of_disk(open(p, "rb").read())
                            if LINE_SPLIT.sub("\n", dtext) != ptext:
                                stats["reload_text_differs_from_disk"] += 1
                        text = ptext
                lines = split_lines(text)
                key = "%d:%s" % (si, f)
                override = (spec.get("ranges") or {}).get(key)
                td = {"textDocument": {"uri": L.uri(p)}}
                known = bool(hf.get("present")) and not hf.get("panic")
                # the ranges are chosen BEFORE any request, from the lines on which the Project has references
                if override is not None:
                    ranges = list(override)
                elif known:
                    exp_lines = sorted({x[0] for x in hf["raw"] if x[0] == x[2]})
                    ranges = det_ranges([(l,) for l in exp_lines], len(lines)) + gen_ranges(sess_rng, len(lines), nranges)
                else:
                    ranges = []
                # request order after the last cache-clearing event: the token cache of the server must not depend on it
                mode = (spec.get("orders") or {}).get(key)
                if mode is None and ranges and spec.get("default_order"):
                    mode = spec["default_order"]
                if mode is None:
                    mode = sess_rng.choice(["full_first", "range_first", "range_first", "interleaved"]) if ranges else "full_first"
                orders_used[key] = mode
                stats["orders"][mode] = stats["orders"].get(mode, 0) + 1
                report = make_report(si, f, text, ranges)

                def ask_full():
                    r0, _ = ls.call("textDocument/semanticTokens/full", td, timeout=300)
                    return r0

                def ask_range(rg):
                    params = dict(td)
                    params["range"] = {"start": {"line": rg[0], "character": rg[1]}, "end": {"line": rg[2], "character": rg[3]}}
                    r0, _ = ls.call("textDocument/semanticTokens/range", params, timeout=300)
                    return r0

                nfirst = {"full_first": 0, "range_first": len(ranges), "interleaved": (len(ranges) + 1) // 2}[mode]
                range_resps = [ask_range(rg) for rg in ranges[:nfirst]]
                r = ask_full()
                range_resps += [ask_range(rg) for rg in ranges[nfirst:]]

                # -- full answer
                if "error" in r:
                    report("semanticTokens/full answered with an error", {"response": r})
                    continue
                full = r.get("result")
                if hf.get("panic"):
                    report("vhdl_lang panicked while collecting the references", {"panic": hf["panic"]})
                    continue
                if full is None or not hf.get("present"):
                    last_answer[p] = None
                    if (full is None) != (not hf.get("present")):
                        report("server and Project disagree on whether the file is known",
                               {"lsp_null": full is None, "project_present": hf.get("present")}, nf=True)
                    stats["absent"] += 1
                    continue
                data = full["data"]
                toks = decode(data)
                last_answer[p] = toks
                stats["files"] += 1
                stats["tokens"] += len(toks or [])
                cstr = "%s|full" % hashlib.sha1(text.encode("utf-8", "replace")).hexdigest()
                res.count_case(cstr, bool(toks))
                if toks is None:
                    report("semantic token array length is not a multiple of 5", {"data_len": len(data)})
                    continue
                probs = oracle_tokens(toks, lines, legend)
                if probs:
                    report("semanticTokens/full is not a well-formed encoding: " + probs[0],
                           {"request": "full", "problems": probs, "data_head": data[:100]})
                for t in toks:
                    k = recognise(slice16(lines[t[0]], t[1], t[2])) if t[0] < len(lines) else None
                    stats["kinds"][k or "?"] = stats["kinds"].get(k or "?", 0) + 1
                if hf.get("foreign"):
                    report("find_all_entity_references returned positions of another source file",
                           {"foreign": hf["foreign"]}, nf=True)
                dup = len(hf["raw"]) - len({tuple(x[:4]) for x in hf["raw"]})
                if dup:
                    stats["files_with_duplicate_positions"] += 1
                if any(x[0] != x[2] for x in hf["raw"]):
                    stats["files_with_multiline_positions"] += 1
                # -- the answer must be a function of the document, not of the request history: after range requests came
                #    first, a no-op didChange (same text; clears the server's caches) must leave the full answer unchanged
                # (not with duplicate design units: there a re-sent text legitimately changes which copy is the accepted one)
                if mode != "full_first" and "lines" not in hf and not spec.get("duplicates") and \
                        (spec.get("noop_recheck") or len(hf["raw"]) <= 1500):
                    if p in opened:
                        opened[p] += 1
                        ls.notify("textDocument/didChange", {"textDocument": {"uri": L.uri(p), "version": opened[p]},
                                                             "contentChanges": [{"text": text}]})
                    else:
                        opened[p] = 1
                        ls.notify("textDocument/didOpen", {"textDocument": {"uri": L.uri(p), "languageId": "vhdl",
                                                                            "version": 1, "text": text}})
                    texts[p] = text
                    r2 = ask_full()
                    stats["noop_rechecks"] += 1
                    t2 = decode(r2["result"]["data"]) if r2.get("result") else None
                    if t2 != toks:
                        report("semanticTokens/full depends on the request history: after range requests it has %d tokens (last on "
                               "line %s), after a no-op didChange of the same text %d tokens (last on line %s)" %
                               (len(toks), toks[-1][0] if toks else "-", len(t2 or []), t2[-1][0] if t2 else "-"),
                               {"request": "full", "order": mode, "first_requests": ranges[:nfirst],
                                "after_ranges_head": toks[:10], "after_noop_change_head": (t2 or [])[:10]})
                # -- range answers
                range_answers = []
                for rg, rr in zip(ranges, range_resps):
                    if "error" in rr or rr.get("result") is None:
                        report("semanticTokens/range answered with an error / null", {"response": str(rr)[:500], "range": rg}, rngs=[rg])
                        range_answers.append(None)
                        continue
                    rdata = rr["result"]["data"]
                    range_answers.append(rdata)
                    rt = decode(rdata)
                    expect = [t for t in toks if touches(t, rg)]
                    kind = "inverted" if rg[0] > rg[2] else "beyond" if rg[0] >= len(lines) else \
                        "empty" if rg[:2] == rg[2:] else "line" if rg[0] == rg[2] else "span"
                    stats["range_kinds"][kind] = stats["range_kinds"].get(kind, 0) + 1
                    res.count_case("%s|%s" % (cstr, rg), 0 < len(expect) < len(toks) or (kind in ("inverted", "beyond") and bool(toks)))
                    stats["ranges"] += 1
                    if rt != expect:
                        report("semanticTokens/range differs from the tokens of the full answer that touch lines %d..%d "
                               "(got %d tokens, expected %d)" % (rg[0], rg[2], len(rt or []), len(expect)),
                               {"request": "range", "range": rg, "order": mode, "got_head": (rt or [])[:20], "expected_head": expect[:20]},
                               rngs=[rg])
                # -- correspondence: extracted map_and_sort + encode on the harness dump
                raw = ";".join(",".join(str(v) for v in x) for x in hf["raw"])
                filt = "/".join(["-"] + [",".join(str(v) for v in rg) for rg in ranges])
                model_in.append("T|%s|%s" % (raw, filt))
                model_ctx.append(("T", si, f, ranges, [data] + range_answers, report, not probs))
                if len(data) <= 5 * 2500:
                    # the extracted all-pairs predicate well_formed_stream is quadratic: evaluated on answers <= 2500 tokens
                    model_in.append("O|" + " ".join(str(v) for v in data))
                    model_ctx.append(("O", si, f, ranges, not probs, report))
                if len(hf["raw"]) <= 60 and len(stats["coq_sample"]) < 24:
                    stats["coq_sample"].append((hf["raw"], ranges[:3], [data] + range_answers[:3]))
                if len(stats["samples"]) < 4 and toks and ranges and not probs and len(text) < 3000:
                    stats["samples"].append({"session": name, "file": f, "tokens": len(toks),
                                             "first_tokens": [[t[0], t[1], t[2], slice16(lines[t[0]], t[1], t[2]) if t[0] < len(lines) else None] for t in toks[:5]],
                                             "range": ranges[0], "range_answer_tokens": len(decode(range_answers[0]) or []) if range_answers and range_answers[0] is not None else None})
                # -- document symbols
                if spec.get("docsym", True):
                    sr, _ = ls.call("textDocument/documentSymbol", td, timeout=300)
                    syms = sr.get("result")
                    if "error" in sr:
                        report("documentSymbol answered with an error", {"response": sr})
                    elif syms is not None and spec.get("hier", True):
                        sprobs, nsym = oracle_symbols(syms, lines)
                        stats["symbols"] += nsym
                        res.count_case("%s|docsym" % cstr, nsym > 1)
                        if sprobs:
                            report("document symbols are not nested / not inside the document: " + sprobs[0],
                                   {"request": "documentSymbol", "problems": sprobs})
                        # model: one D line per design unit, concatenated preorder rows
                        units = hf.get("units", [])
                        for u in units:
                            model_in.append("D|%s|%s" % (",".join(str(v) for v in u["root"]),
                                                         ";".join(",".join(str(v) for v in s) for s in u["symbols"])))
                        model_ctx.append(("D", si, f, len(units), flat_symbols(syms), report))
                        for _ in range(len(units) - 1):
                            model_ctx.append(("D+",))
                        if not units:
                            if syms:
                                report("server reports document symbols where Project::document_symbols is empty", {}, nf=True)
                            model_ctx.pop()
                        # hypothesis of C16_hierarchy_nested on the entity forest
                        for u in units:
                            ents = [u["root"]] + u["symbols"]
                            byid = {e[0]: e for e in ents}
                            for e in ents:
                                stats["hier_ents"] += 1
                                sp = span_of(e)
                                sel = e[11:15] if e[10] else e[2:6]
                                ok = contains4(sp, sel)
                                par = byid.get(e[1]) if e is not u["root"] else None
                                if par is not None:
                                    ok = ok and contains4(span_of(par), sp)
                                if not ok:
                                    stats["hier_hyp_failures"] += 1
                    elif syms is not None:
                        # flat SymbolInformation: location inside the document
                        for s in syms:
                            stats["symbols"] += 1
                            r0 = s["location"]["range"]
                            if not (pos_le(r0["start"], r0["end"]) and pos_in_doc(r0["start"], lines) and pos_in_doc(r0["end"], lines)):
                                report("flat document symbol location outside the document", {"symbol": s})
                                break
        exit_code = 0 if died_in_edit else ls.shutdown()
        if spec.get("fresh_compare") and not died_in_edit and spec["steps"]:
            # the answers after the last reload must be those of a fresh server on the same workspace state
            fl = L.LS(tools.lsbin, root)
            fl.initialize(caps=caps)
            for p in sorted(opened):
                fl.notify("textDocument/didOpen", {"textDocument": {"uri": L.uri(p), "languageId": "vhdl", "version": 1,
                                                                    "text": texts[p]}})
            si = len(spec["steps"]) - 1
            for f in spec["steps"][-1]["query"]:
                p = abs_of(root, f)
                r, _ = fl.call("textDocument/semanticTokens/full", {"textDocument": {"uri": L.uri(p)}}, timeout=300)
                ft = decode(r["result"]["data"]) if r.get("result") else None
                stats["fresh_compared"] += 1
                if (ft or []) != (last_answer.get(p) or []):
                    make_report(si, f, texts.get(p, ""), [])(
                        "semanticTokens/full differs from the answer of a fresh server on the same workspace and the client's "
                        "current text (the server's project state or text is not the current one): %d tokens vs %d fresh" %
                        (len(last_answer.get(p) or []), len(ft or [])),
                        {"request": "full", "after_reload_head": (last_answer.get(p) or [])[:20], "fresh_head": (ft or [])[:20]})
            fl.shutdown()
        if exit_code not in (0, None):
            res.violation("vhdl_ls exited with code %s in session %s" % (exit_code, name),
                          {"kind": "input", "session": spec if len(json.dumps(spec)) < 200000 else name,
                           "stderr": "".join(ls.stderr_buf[-10:])})
    except L.ServerDied as ex:
        ls.kill()
        res.violation("vhdl_ls died during session %s: %s" % (name, str(ex)[:300]),
                      {"kind": "input", "session": spec if len(json.dumps(spec)) < 200000 else name, "error": str(ex)})
        return

    # ---- extracted model on the harness dump vs the LSP answers
    if not model_in:
        return
    outs, err = run_model(tools, model_in, d, name)
    if outs is None:
        res.violation("extracted model runner failed in session %s" % name, {"kind": "build", "log": err}, no_failing_input=True)
        return
    i = 0
    while i < len(model_ctx):
        ctx = model_ctx[i]
        line = outs[i]
        if ctx[0] == "T":
            _, si, f, ranges, answers, report, py_ok = ctx
            new, old = line.split("|")
            parts = new.split("/")
            for j, (part, ans) in enumerate(zip(parts, answers)):
                if ans is None:
                    continue
                nums = [int(x) for x in part.split(",") if x != ""]
                w, mdata = nums[0], nums[1:]
                stats["model_compared"] += 1
                if mdata != ans or w:
                    oldd = [int(x) for x in old.split(",") if x != ""][1:]
                    hint = " (the answer equals the pre-fix behaviour without dedup: finding F9)" if j == 0 and ans == oldd else ""
                    samepos = [mdata[k] for k in range(len(mdata)) if k % 5 < 3] == [ans[k] for k in range(len(ans)) if k % 5 < 3]
                    what = ("model predicts a wrapping u32 subtraction in encode" if w else
                            "LSP answer differs from the extracted model map_and_sort+encode on the collected references%s%s" %
                            (hint, " (positions and lengths agree, only token type / modifiers differ)" if samepos else ""))
                    k0 = next((k for k in range(min(len(mdata), len(ans))) if mdata[k] != ans[k]), min(len(mdata), len(ans)))
                    report(what, {"correspondence": "vhdl_ls semanticTokens vs RH.Lsp.SemTok.encode (map_and_sort raw)",
                                  "request": "full" if j == 0 else "range", "range": None if j == 0 else ranges[j - 1],
                                  "first_difference_at_index": k0, "impl": ans[max(0, k0 - 10):k0 + 15], "model": mdata[max(0, k0 - 10):k0 + 15],
                                  "wrap": bool(w)}, nf=py_ok, rngs=None if j == 0 else [ranges[j - 1]])
                    break
        elif ctx[0] == "O":
            _, si, f, ranges, py_ok, report = ctx
            if line.strip() == "BADLEN":
                pass
            else:
                wf, inc, n = (int(x) for x in line.split())
                stats["spec_evaluated"] += 1
                if py_ok and not (wf and inc):
                    # the extracted specification predicate rejects an answer the python oracle accepted
                    report("extracted Coq predicate well_formed_stream/strictly_increasing rejects the LSP answer",
                           {"well_formed_stream": wf, "strictly_increasing": inc})
        elif ctx[0] == "D":
            _, si, f, nunits, impl_rows, report = ctx
            rows = []
            bad = None
            for k in range(nunits):
                ln = outs[i + k]
                if ln.startswith("OUTOFFUEL") or "|" not in ln:
                    bad = ln
                    break
                nested, items = ln.split("|")
                stats["docsym_units"] += 1
                if nested != "1":
                    stats["model_not_nested"] += 1
                rows += [[int(x) for x in it.split(",")] for it in items.split(";") if it]
            if bad is not None:
                report("document-symbol model gave %s" % bad, {"correspondence": "DocSym.from_parent"}, nf=True)
            elif rows != impl_rows:
                k0 = next((k for k in range(min(len(rows), len(impl_rows))) if rows[k] != impl_rows[k]), min(len(rows), len(impl_rows)))
                report("documentSymbol answer differs from the extracted model from_parent+to_document_symbol",
                       {"correspondence": "vhdl_ls documentSymbol vs RH.Lsp.DocSym.to_document_symbol (from_parent root symbols)",
                        "first_difference_row": k0, "impl": impl_rows[k0:k0 + 3], "model": rows[k0:k0 + 3],
                        "rows": [len(impl_rows), len(rows)]}, nf=True)
            stats["model_compared"] += 1
            i += nunits - 1
        i += 1


def span_of(e):
    f, l = e[2:6], e[6:10]
    s = min((f[0], f[1]), (l[0], l[1]))
    t = max((f[2], f[3]), (l[2], l[3]))
    return [s[0], s[1], t[0], t[1]]


def contains4(outer, inner):
    return (outer[0], outer[1]) <= (inner[0], inner[1]) and (inner[2], inner[3]) <= (outer[2], outer[3])


# ----------------------------------------------------------------------------------------------
# session builders
# ----------------------------------------------------------------------------------------------
def corpus_sessions():
    path = os.path.join(VERIF, "corpus", "C16.cases.json")
    if not os.path.exists(path):
        return []
    out = []
    for c in json.load(open(path))["cases"]:
        files = {k: {"text": v} for k, v in c["files"].items()}
        steps = [{"edit": None, "query": c.get("query", sorted(files))}]
        for e in c.get("edits", []):
            steps.append({"edit": {"file": e["file"], "spec": {"text": e["text"]}}, "query": e.get("query", [e["file"]])})
        for b in c.get("batches", []):
            steps.append({"edit": {"file": b["file"], "changes": b["changes"]}, "query": b.get("query", [b["file"]])})
        for st in c.get("steps", []):
            ed = st.get("edit")
            steps.append({"disk": {k: (None if v is None else {"text": v}) for k, v in (st.get("disk") or {}).items()},
                          "toml": st.get("toml"), "notify": st.get("notify"),
                          "edit": {"file": ed["file"], "spec": {"text": ed["text"]}} if ed else None, "query": st["query"]})
        out.append({"name": "corpus_" + c["name"], "toml": c["toml"], "files": files, "steps": steps, "nranges": 5,
                    "hier": c.get("hier", True), "fresh_compare": c.get("fresh_compare", False), "noop_recheck": True,
                    "orders": c.get("orders"), "default_order": c.get("default_order", "range_first"),
                    "duplicates": c.get("duplicates", False)})
    return out


def session_libs(rng, n_edit, n_lib_files=None, nranges=10, name="libs", n_big=3):
    """Generated project(s) next to the bundled libraries; bundled files are queried as they are: all of them, or
    (quick tier) a seed-dependent sample that always contains three of the six largest files."""
    quick = n_lib_files is not None
    files = {} if quick else gen_project(rng, "g0", wild=False)
    files.update(gen_project(rng, "w1", wild=True))
    g0 = sorted(k for k in files if k.endswith("_g0.vhd"))
    w1 = sorted(k for k in files if k.endswith("_w1.vhd"))
    two = {"text": TEMPLATES["tb"].replace("work.ctx@", "ieee.ieee_std_context").replace("use work.pkg@.all; use work.ipkg@.all;", "")
           .replace("@", "_two")}
    files["shared.vhd"] = two
    toml = "[libraries]\n%slw.files = [%s, 'shared.vhd']\nlx.files = ['shared.vhd']\n" % (
        ("lg.files = [%s]\n" % ", ".join("'%s'" % f for f in g0)) if g0 else "", ", ".join("'%s'" % f for f in w1))
    libfiles = all_library_files()
    if quick:
        by_size = sorted(libfiles, key=lambda p: -os.path.getsize(p))
        big = rng.sample(by_size[:6], n_big)
        libfiles = sorted(big + rng.sample(by_size[6:], max(0, n_lib_files - n_big)))
    steps = [{"edit": None, "query": libfiles + sorted(files)}]
    steps.append({"edit": {"file": "stray.vhd", "spec": {"text": TEMPLATES["gen"].replace("@", "_s").split("context")[0]}},
                  "query": ["stray.vhd", "nowhere.vhd"]})
    names = sorted(files)
    for _ in range(n_edit):
        f = rng.choice(names)
        base = spec_text(files[f])
        ops = random_ops(rng, base)
        mate = rng.choice(names)
        steps.append({"edit": {"file": f, "spec": {"text": apply_ops(base, ops)}}, "query": [f, mate]})
    return {"name": name, "toml": toml, "files": files, "steps": steps, "nranges": nranges}


def session_mutants(rng, name, n_libs, n_edit, nranges=10, hier=True):
    """Copies of bundled library files in user libraries, one file of each group mutated; then live edits."""
    groups = library_groups()
    files = {}
    toml = ["[libraries]"]
    query0 = []
    origin = {}
    for k in range(n_libs):
        g = rng.choice(groups)
        victim = rng.randrange(len(g))
        rels = []
        for j, src in enumerate(g):
            rel = "m%d/%s" % (k, os.path.basename(src))
            ops = random_ops(rng, src_text(src)) if j == victim else []
            files[rel] = {"src": src, "ops": ops}
            origin[rel] = src
            rels.append(rel)
        toml.append("m%d.files = [%s]" % (k, ", ".join("'%s'" % r for r in rels)))
        query0 += rels
    steps = [{"edit": None, "query": query0}]
    names = sorted(files)
    for _ in range(n_edit):
        f = rng.choice(names)
        src = origin[f]
        ops = random_ops(rng, src_text(src)) if rng.random() < 0.85 else []
        q = [f] + [m for m in names if m.split("/")[0] == f.split("/")[0] and m != f][:1]
        steps.append({"edit": {"file": f, "spec": {"src": src, "ops": ops}}, "query": q})
    return {"name": name, "toml": "\n".join(toml) + "\n", "files": files, "steps": steps, "nranges": nranges, "hier": hier}


def session_generated(rng, name, n_proj, n_edit, hier=True, nranges=10):
    """Several generated projects with wild layout (CRLF, tabs), each file also mutated by live edits."""
    files = {}
    toml = ["[libraries]"]
    for k in range(n_proj):
        fs = gen_project(rng, "p%d" % k, wild=True)
        files.update(fs)
        toml.append("g%d.files = [%s]" % (k, ", ".join("'%s'" % f for f in sorted(fs))))
    names = sorted(files)
    steps = [{"edit": None, "query": names}]
    for _ in range(n_edit):
        f = rng.choice(names)
        base = spec_text(files[f])
        ops = random_ops(rng, base)
        steps.append({"edit": {"file": f, "spec": {"text": apply_ops(base, ops)}}, "query": [f, rng.choice(names)]})
    return {"name": name, "toml": "\n".join(toml) + "\n", "files": files, "steps": steps, "nranges": nranges, "hier": hier}


def pos_of(text, i):
    """(line, column) of python index i; for LF-only texts without astral characters."""
    line = text.count("\n", 0, i)
    return line, i - (text.rfind("\n", 0, i) + 1)


BATCH_INSERTS = ["  -- inserted\n", "\n", "  signal extra_s : bit;\n", "x", " ", "-- a\n-- b\n", "(", "end", "  null;\n    null;\n"]


def gen_batch(rng, text):
    """2-4 incremental changes of ONE didChange notification, valid in the listed order: bottom-up (multi-cursor: every
    change lies before the previous one, original coordinates), top-down (later ranges in post-edit coordinates, after
    the previous change) or unordered; insert / delete / replace, single- and multi-line, ranges that interact."""
    mode = rng.choice(["bottom_up", "top_down", "top_down", "random"])
    cur = text
    lo, hi = 0, len(cur)            # region of `cur` the next change is taken from
    changes = []
    for _ in range(rng.choice([2, 2, 3, 4])):
        toks = [m for m in TOKEN_RE.finditer(cur) if lo <= m.start() and m.end() <= hi]
        kind = rng.choice(["ins_line", "ins_line", "ins", "del_tok", "repl_tok", "repl_tok", "del_lines", "repl_multi"])
        if not toks:
            kind = "ins"
        if kind == "ins_line":
            m = rng.choice(toks)
            a = b = cur.rfind("\n", 0, m.start()) + 1
            if a < lo:
                a = b = m.start()
            new = rng.choice(BATCH_INSERTS[:3] + BATCH_INSERTS[5:6])
        elif kind == "ins":
            a = b = rng.choice(toks).start() if toks else rng.randrange(lo, hi + 1)
            new = rng.choice(BATCH_INSERTS)
        elif kind == "del_tok":
            m = rng.choice(toks)
            a, b, new = m.start(), m.end(), ""
        elif kind == "repl_tok":
            m = rng.choice(toks)
            a, b = m.start(), m.end()
            new = rng.choice(["renamed_%d" % rng.randrange(100), "x", "a_much_longer_identifier_than_before", "\\ext\\", "'1'", "and"])
        else:
            i = rng.randrange(len(toks))
            j = min(len(toks) - 1, i + rng.choice([1, 3, 8, 20]))
            a, b = toks[i].start(), toks[j].end()
            new = "" if kind == "del_lines" else rng.choice(["  null;\n", "q <= d;\n  -- c\n", "\n\n\n"])
        l1, c1 = pos_of(cur, a)
        l2, c2 = pos_of(cur, b)
        changes.append({"range": [l1, c1, l2, c2], "text": new})
        cur = cur[:a] + new + cur[b:]
        if mode == "bottom_up":
            lo, hi = 0, a
        elif mode == "top_down":
            lo, hi = a + len(new), len(cur)
        else:
            lo, hi = 0, len(cur)
    return changes, cur


def session_batched(rng, name, n_steps, nranges=2):
    """Multi-edit didChange notifications (multi-cursor edits, batched typing) on a generated project with LF line ends;
    the oracle and the model work on the CLIENT's text; the last answers are compared with a fresh server."""
    files = gen_project(rng, "b", wild=False)
    names = sorted(files)
    toml = "[libraries]\nlb.files = [%s]\n" % ", ".join("'%s'" % f for f in names)
    cur = {f: server_text_of_disk(disk_bytes(spec_text(files[f]))) for f in names}
    steps = [{"edit": None, "query": names}]
    for k in range(n_steps):
        f = rng.choice(names)
        if rng.random() < 0.15:
            cur[f] = server_text_of_disk(disk_bytes(spec_text(files[f])))      # back to the original, full text
            steps.append({"edit": {"file": f, "changes": [{"range": None, "text": cur[f]}]}, "query": [f]})
            continue
        changes, new = gen_batch(rng, cur[f])
        cur[f] = new
        steps.append({"edit": {"file": f, "changes": changes}, "query": [f] if k < n_steps - 1 else names})
    return {"name": name, "toml": toml, "files": files, "steps": steps, "nranges": nranges, "fresh_compare": True}


SHIFTS = ["-- shifted\n", "-- a comment line that is longer than most identifiers of the file\n-- second\n", "\n\n\n",
          "--\n--\n--\n--\n--\n"]


def shifted(rng, base):
    """`base` with comment / blank lines put in front (all positions move) and sometimes a further mutation."""
    t = rng.choice(SHIFTS) * rng.choice([1, 1, 2, 3]) + base
    if rng.random() < 0.3:
        t = apply_ops(t, random_ops(rng, t))
    return t


def session_duplicates(rng, name, n_steps, nranges=2):
    """Whole-file copies in one library (every design unit of the copy duplicates a unit of the original) and edits of
    either side in turn, each shifting the lines: the tokens and symbols of both files must follow the client's text."""
    files = gen_project(rng, "u", wild=False)
    names = sorted(files)
    pairs = []
    for f in rng.sample(names, 3):
        files["copy_" + f] = dict(files[f])
        pairs.append((f, "copy_" + f))
    allnames = sorted(files)
    toml = "[libraries]\nlu.files = [%s]\n" % ", ".join("'%s'" % f for f in allnames)
    base = {f: spec_text(files[f]) for f in allnames}
    steps = [{"edit": None, "query": allnames}]
    for k in range(n_steps):
        a, b = pairs[k % len(pairs)]
        first, second = (b, a) if (k // len(pairs)) % 2 == 0 else (a, b)
        steps.append({"edit": {"file": first, "spec": {"text": shifted(rng, base[first])}}, "query": [a, b]})
        steps.append({"edit": {"file": second, "spec": {"text": shifted(rng, base[second])}}, "query": [a, b]})
    return {"name": name, "toml": toml, "files": files, "steps": steps, "nranges": nranges, "duplicates": True}


def session_drop_readd(rng, name, n_rounds, nranges=2):
    """Open documents with unsaved edits leave the project (vhdl_ls.toml no longer lists them) and come back by later
    reloads; requests before the client re-sends the text: tokens and symbols must describe the client's text."""
    files = gen_project(rng, "q", wild=False)
    names = sorted(files)

    def toml_of(present):
        return "[libraries]\nlq.files = [%s]\n" % ", ".join("'%s'" % f for f in names if f in present)

    base = {f: spec_text(files[f]) for f in names}
    steps = [{"edit": None, "query": names}]
    for k in range(n_rounds):
        f = rng.choice(names)
        others = [g for g in names if g != f]
        steps.append({"edit": {"file": f, "spec": {"text": shifted(rng, base[f])}}, "query": [f]})
        steps.append({"toml": toml_of(others), "notify": "watched", "edit": None, "query": [f, rng.choice(others)]})
        if rng.random() < 0.5:
            steps.append({"edit": {"file": f, "spec": {"text": shifted(rng, base[f])}}, "query": [f]})
        steps.append({"toml": toml_of(names), "notify": "watched", "edit": None, "query": [f, rng.choice(others)]})
    steps[-1]["query"] = names
    return {"name": name, "toml": toml_of(names), "files": files, "steps": steps, "nranges": nranges, "fresh_compare": True}


def session_reload(rng, name, n_steps):
    """Project reloads without content changes: the library mapping of files changes in vhdl_ls.toml (moved, mapped
    twice, unmapped), files are created / deleted on disk; announced by didChangeWatchedFiles / didCreateFiles /
    didDeleteFiles.  The last answers are compared with a fresh server."""
    files = gen_project(rng, "r", wild=False)
    names = sorted(files)

    def toml_of(mapping, extra=True):
        libs = {}
        for f, ls_ in mapping.items():
            for l in ls_:
                libs.setdefault(l, []).append(f)
        out = ["[libraries]"] + ["%s.files = [%s]" % (l, ", ".join("'%s'" % f for f in sorted(fs))) for l, fs in sorted(libs.items())]
        if extra:
            out.append("lx.files = ['extra/*.vhd']")
        return "\n".join(out) + "\n"

    mapping = {f: ["lr"] for f in names}
    spec = {"name": name, "toml": toml_of(mapping), "files": files, "steps": [{"edit": None, "query": names}],
            "nranges": 6, "fresh_compare": True}
    created = []
    for k in range(n_steps):
        kind = rng.choice(["move", "move", "twice", "unmap", "restore", "create", "delete"])
        st = {"edit": None, "notify": "watched", "query": list(names)}
        if kind == "move":
            f = rng.choice(names)
            mapping[f] = [rng.choice(["lr", "lo", "lp"])]
        elif kind == "twice":
            f = rng.choice(names)
            mapping[f] = ["lr", rng.choice(["lo", "lp"])]
        elif kind == "unmap":
            mapping[rng.choice(names)] = []
        elif kind == "restore":
            mapping = {f: ["lr"] for f in names}
        elif kind == "create":
            rel = "extra/new%d.vhd" % k
            st["disk"] = {rel: {"text": TEMPLATES["seq"].replace("@", "_n%d" % k)}}
            st["notify"] = "create"
            created.append(rel)
        elif kind == "delete" and created:
            rel = created.pop()
            st["disk"] = {rel: None}
            st["notify"] = "delete"
            st["query"] = st["query"] + [rel]
        if st["notify"] == "watched":
            st["toml"] = toml_of(mapping)
        st["query"] = st["query"] + list(created)
        spec["steps"].append(st)
    return spec


def session_reload_disk(rng, name):
    """The contents of a project file change ON DISK (shorter), the mapping changes, the project is reloaded.  The
    oracle refers to the text the Project holds after the same operations (reported by the harness)."""
    files = gen_project(rng, "d", wild=False)
    names = sorted(files)
    toml1 = "[libraries]\nld.files = [%s]\n" % ", ".join("'%s'" % f for f in names)
    toml2 = "[libraries]\nld.files = [%s]\nle.files = ['%s']\n" % (", ".join("'%s'" % f for f in names[1:]), names[0])
    short = {"text": "entity short_d is\nend entity;\n"}
    steps = [{"edit": None, "query": names},
             {"disk": {names[0]: short, "ent_d.vhd": short}, "toml": toml2, "notify": "watched", "edit": None, "query": names},
             {"disk": {"seq_d.vhd": {"text": ""}}, "toml": toml1, "notify": "watched", "edit": None, "query": names},
             {"edit": {"file": "seq_d.vhd", "spec": {"text": TEMPLATES["seq"].replace("@", "_d")[:200]}}, "query": ["seq_d.vhd"]}]
    return {"name": name, "toml": toml1, "files": files, "steps": steps, "nranges": 6}


# ----------------------------------------------------------------------------------------------
# in-Coq cross-check of the extracted model
# ----------------------------------------------------------------------------------------------
def coq_cross_check(res, sample):
    if not sample:
        return
    items = []
    for raw, ranges, answers in sample:
        rl = "[" + "; ".join("(R (P %d %d) (P %d %d), %s)" % (x[0], x[1], x[2], x[3],
                                                             "None" if x[4] < 0 else "Some (%d, %d)" % (x[4], x[5])) for x in raw) + "]"
        fl = ["None"] + ["Some (R (P %d %d) (P %d %d))" % tuple(r) for r in ranges]
        for f, ans in zip(fl, answers):
            if ans is None:
                continue
            items.append("(%s, %s, [%s])" % (rl, f, "; ".join(str(v) for v in ans)))
    pre = ("From Coq Require Import List NArith Bool.\nImport ListNotations.\nFrom RH Require Import Lsp.SemTok.\nOpen Scope N_scope.\n"
           "Definition lb (x y : list N) : bool := if list_eq_dec N.eq_dec x y then true else false.\n"
           "Definition cases : list (list (range * option (N * N)) * option range * list N) := [\n" + ";\n".join(items) + "].\n")
    body = ("forallb (fun c => match c with (raw, f, exp) => "
            "lb (flatten (fst (encode (map_and_sort (fun x => x) raw) f))) exp && negb (snd (encode (map_and_sort (fun x => x) raw) f)) end) cases")
    v, log = coq_eval_bool(PROP, "sample", pre, body)
    res.coverage["in_coq_vm_compute_cases"] = len(items)
    if v is not True:
        res.violation("in-Coq evaluation (vm_compute) of map_and_sort+encode disagrees with the LSP answers on the sampled cases",
                      {"kind": "correspondence", "correspondence": "vm_compute RH.Lsp.SemTok vs vhdl_ls", "log": log[-2000:]},
                      no_failing_input=True)


# ----------------------------------------------------------------------------------------------
# sessions run in worker processes; what they find is merged into the Result in submission order
# ----------------------------------------------------------------------------------------------
class Collector:
    """Stands in for vlib.common.Result inside a worker."""
    def __init__(self):
        self.violations = []
        self.evaluations = 0
        self.nontrivial = set()

    def violation(self, what, replay_obj, no_failing_input=False):
        self.violations.append((what, replay_obj, no_failing_input))

    def count_case(self, canonical, nontrivial):
        self.evaluations += 1
        if nontrivial:
            self.nontrivial.add(hashlib.sha1(canonical.encode("utf-8", "replace")).digest()[:10])


def new_stats():
    return {"files": 0, "tokens": 0, "ranges": 0, "symbols": 0, "edits": 0, "absent": 0, "problems": 0, "kinds": {}, "range_kinds": {},
            "model_compared": 0, "spec_evaluated": 0, "docsym_units": 0, "model_not_nested": 0, "hier_ents": 0,
            "hier_hyp_failures": 0, "files_with_duplicate_positions": 0, "files_with_multiline_positions": 0,
            "coq_sample": [], "samples": [], "sessions": [],
            "analysis_panics_outside_c16": [], "server_deaths_outside_c16": [],
            "reloads": 0, "fresh_compared": 0, "reload_text_differs_from_disk": 0,
            "batched_changes": 0, "batched_changes_order_matters": 0, "orders": {}, "noop_rechecks": 0,
            "open_document_text_differs_in_project": 0}


def merge_stats(into, st):
    for k, v in st.items():
        if isinstance(v, (int, float)) and not isinstance(v, bool):
            into[k] = into.get(k, 0) + v
        elif isinstance(v, dict):
            for kk, vv in v.items():
                into[k][kk] = into[k].get(kk, 0) + vv
        elif isinstance(v, list) and k != "legend":
            into[k].extend(v)
        else:
            into[k] = v


def session_worker(job):
    spec, tools, tag, sd = job
    col = Collector()
    st = new_stats()
    rng = random.Random("%s/%s/%d" % (PROP, tag, sd))
    t0 = time.time()
    try:
        run_session(spec, Tools(*tools), col, st, rng)
    except Exception as ex:          # a bug of the check itself must not pass silently
        import traceback
        col.violation("check C16 failed internally in session %s: %r" % (spec["name"], ex),
                      {"kind": "harness", "log": traceback.format_exc()[-3000:]}, True)
    st["sessions"].append({"name": spec["name"], "steps": len(spec["steps"]), "wall_s": round(time.time() - t0, 1)})
    return col.violations, col.evaluations, col.nontrivial, st


def main(tier, replay=None):
    res = Result(PROP, tier, level="proof")
    d = rundir(PROP)
    proof_stage(res, PROP, thorough=(tier == "thorough"))
    ok, log, hbin = harness_build("c16")
    if not ok:
        res.violation("harness build failed against the current /repo tree", {"kind": "build", "log": log[-3000:]}, no_failing_input=True)
        return res.finish()
    ok, log, mbin = ocaml_build("c16_run")
    if not ok:
        res.violation("extracted model build failed", {"kind": "build", "log": log[-3000:]}, no_failing_input=True)
        return res.finish()
    ok, log, lsbin = vhdl_ls_build()
    if not ok:
        res.violation("vhdl_ls build failed", {"kind": "build", "log": log[-3000:]}, no_failing_input=True)
        return res.finish()
    tools = (hbin, mbin, lsbin)
    stats = new_stats()
    sd = seed()
    jobs = []

    def go(spec, tag):
        jobs.append((spec, tools, tag, sd))

    if replay:
        rp = json.load(open(replay))
        spec = rp.get("session")
        if not isinstance(spec, dict):
            print("replay file carries no session specification")
            return 2
        spec = dict(spec)
        spec["name"] = "replay"
        go(spec, "replay")
    else:
        thorough = tier == "thorough"
        rng = random.Random("%s/gen/%d" % (PROP, sd))
        # the longest sessions are submitted first; the corpus workspaces always run
        if thorough:
            for k in range(8):
                go(session_mutants(rng, "mutants%d" % k, 40, 80, nranges=9), "mutants%d" % k)
            go(session_libs(rng, 40, nranges=9), "libs")
            go(session_generated(rng, "generated", 6, 150, nranges=9), "generated")
            go(session_reload(rng, "reload", 40), "reload")
            for k in range(4):
                go(session_batched(rng, "batched%d" % k, 40, nranges=4), "batched%d" % k)
            for k in range(3):
                go(session_duplicates(rng, "duplicates%d" % k, 12, nranges=3), "duplicates%d" % k)
                go(session_drop_readd(rng, "drop_readd%d" % k, 10, nranges=3), "drop_readd%d" % k)
        else:
            go(session_libs(rng, 2, n_lib_files=2, nranges=2, name="libs_a", n_big=2), "libs_a")
            go(session_libs(rng, 1, n_lib_files=5, nranges=2, name="libs_b", n_big=1), "libs_b")
            go(session_libs(rng, 1, n_lib_files=5, nranges=2, name="libs_c", n_big=0), "libs_c")
            go(session_reload(rng, "reload", 4), "reload")
            for k in range(2):
                go(session_mutants(rng, "mutants%d" % k, 4, 4, nranges=2), "mutants%d" % k)
            go(session_generated(rng, "generated", 1, 6, nranges=1), "generated")
            go(session_batched(rng, "batched", 10), "batched")
            go(session_duplicates(rng, "duplicates", 3), "duplicates")
            go(session_drop_readd(rng, "drop_readd", 2), "drop_readd")
        go(session_reload_disk(rng, "reload_disk"), "reload_disk")
        go(session_generated(rng, "generated_flat", 1, 5 if thorough else 2, hier=False, nranges=1), "generated_flat")
        for spec in corpus_sessions():
            go(spec, spec["name"])
    import concurrent.futures
    with concurrent.futures.ProcessPoolExecutor(max_workers=min(8, max(1, len(jobs)))) as ex:
        results = list(ex.map(session_worker, jobs))
    # corpus findings first in the report
    order = sorted(range(len(jobs)), key=lambda i: (not jobs[i][0]["name"].startswith("corpus_"), i))
    for i in order:
        viols, evs, nontriv, st = results[i]
        for what, obj, nf in viols:
            if len(res.violations) < 40:
                res.violation(what, obj, no_failing_input=nf)
        res.evaluations += evs
        res.nontrivial |= nontriv
        merge_stats(stats, st)
    stats["coq_sample"] = stats["coq_sample"][:24]
    stats["samples"] = stats["samples"][:4]
    coq_cross_check(res, stats.pop("coq_sample"))
    for s in stats.pop("samples"):
        res.add_sample(s)
    res.coverage.update({k: v for k, v in stats.items()})
    res.coverage["exhaustive"] = False
    res.coverage["rule"] = (
        "corpus workspaces first (file mapped to two libraries = F9, library mapping changed by a project reload = F36, CRLF/CR/non-ASCII, "
        "incomplete type, labelled sequential statements, edit sequence, flat symbols); then one server session per "
        "generated workspace: (libs) all %d files of /repo/vhdl_libraries as they are + two generated projects + a file mapped to two "
        "libraries + a non-project file + live edits; (generated) template projects with randomised layout (CRLF, tabs, Latin-1 and "
        "extended identifiers) and mutated live edits; (mutants) copies of bundled package/body groups in user libraries with one file "
        "mutated (delete a token, truncate, swap/duplicate lines, insert garbage incl. non-Latin-1 and astral characters, CRLF/CR line "
        "endings, shift) and further mutations sent by didChange; (reload) vhdl_ls.toml rewritten (file moved to another library, "
        "mapped twice, unmapped, restored) + didChangeWatchedFiles, files created/deleted + didCreateFiles/didDeleteFiles, every file "
        "queried before and after, last answers compared with a fresh server; (reload_disk) file contents shortened on disk + mapping "
        "change + reload, oracle against the text the Project holds (harness dump); (batched) didChange notifications carrying 2-4 "
        "incremental content changes (bottom-up multi-cursor, top-down in post-edit coordinates, unordered; insert/delete/replace, "
        "multi-line, interacting ranges): oracle and model use the CLIENT's text (changes spliced in listed order), final answers "
        "compared with a fresh server opened on that text; (duplicates) whole-file copies in one library, both sides edited in turn "
        "with shifted lines; (drop_readd) open documents with unsaved edits unmapped by a reload and mapped again by a later one, "
        "requests before the text is re-sent (open documents are always validated against the client's text). The order of the token requests after each cache-clearing event is "
        "randomised per file (full first / all ranges first / interleaved; corpus: ranges first); the ranges are chosen before any "
        "request from the Project's reference lines; every answer is compared with the extracted model on the Project's references, "
        "and after range-first orders a no-op didChange + second full request must reproduce the full answer. Quick tier: the corpus, a seed-dependent sample of 12 "
        "bundled files (three of the six largest always), one generated project, 8 mutated groups, fewer edits/reloads; thorough: "
        "everything. Sessions run in 8 worker processes. Per file: full request; 3 line ranges derived from the answer (line of the "
        "first token; middle token's line to last token's line; inverted) + 2 (corpus 5, thorough 9) random ranges (single line, empty, "
        "inverted, beyond EOF, up to 2^32-1, whole file, random spans); documentSymbol. /repo/example_project contains no VHDL files "
        "(empty submodules) and is therefore not an input. non-trivial = full answer with >= 1 token; range answer that is a proper "
        "non-empty part of the full answer or an inverted/beyond-EOF range on a non-empty file; symbol tree with > 1 symbol; distinct "
        "by hash of (file text, request)" % len(all_library_files()))
    res.coverage["trusted_base"] = TRUSTED_BASE_COMMON + [
        "classification (token type/modifier per entity kind) is abstracted in the Coq model as a partial function; in the correspondence "
        "run it is supplied by a Rust transcription of `classify` in harness/src/bin/c16.rs, so type/modifier columns are compared too, "
        "but the decisive comparison is positions, lengths and delta structure",
        "document-symbol correspondence starts from the reachable entities of Project::document_symbols (the entities dropped by "
        "EntHierarchy::from_parent are not observable through the public API); names and symbol kinds are not modelled",
        "python recogniser for identifier / operator symbol / character literal (Latin-1 letters, extended identifiers, operator "
        "symbols as delimiters, keywords or string literals)",
        "LSP transport and JSON (de)serialisation of lsp_types are exercised, not modelled",
        "in sessions with project reloads the document text used by the oracle is the text vhdl_lang::Project holds after the same "
        "operations (harness dump): Project::update_config re-parses already known files from memory, it does not re-read them from disk",
    ]
    res.coverage["partial"] = False
    res.assumptions = [
        "C16_well_formed assumes the collected reference positions are non-empty and pairwise identical or disjoint; this is checked on "
        "every run through the oracle on the LSP answer (overlap/ordering/inside-document checks) and the harness dump",
        "C16_hierarchy_nested assumes each entity's span contains its declaration position and its children's spans; checked per run "
        "on the harness dump (hier_hyp_failures) and through the oracle on the documentSymbol answer",
        "`touches the requested lines` = the token's line lies in [range.start.line, range.end.line] (an inverted range touches nothing)",
    ]
    if stats["hier_hyp_failures"]:
        res.coverage["note_hierarchy_hypothesis"] = "%d entities violate the containment hypothesis (see violations)" % stats["hier_hyp_failures"]
    return res.finish()
