"""C03 — Analysis and every editor query are total on any project state.

PARTIAL claim, evidence level "other":
  theorem half   coq/Props/C03.v (arena closure after DesignRoot::analyze's rebuild, FinalArena::get total on linked
                 ids, totality of the cursor searchers on event trees for every cursor, positions from the tree);
  exploration    harness/src/bin/c03.rs: project states reached by incremental text edits of generated valid
                 projects / slices of the bundled libraries / the language-defined units themselves; after every
                 Project::analyse every query of the property at sampled token boundaries and out-of-range
                 cursors, catch_unwind + watchdog + every reported location checked against the current text;
                 a sample of the histories is replayed through the vhdl_ls binary (all LSP requests of the property);
  correspondence the arena ids observed through entity ids on every explored state are compared with the ids the
                 extracted model (Kernel/Arena.v) allocates for the same unit bookkeeping, and every id stored in
                 an AST is checked to resolve in the root arena (C03_get_total_on_linked).
"""
import json
import os
import re
import shutil
import threading
import time
from vlib.common import *
from vlib import lsp

PROP = "C03"
NTHREADS = 16


# ------------------------------------------------------------------------------------------------
# known findings
# ------------------------------------------------------------------------------------------------
def open_findings():
    return [e for e in known_findings(PROP) if e.get("kind") == "open" and isinstance(e.get("match"), dict)]


def kf_match(v, case, entry):
    """v: violation record (class, detail, state, loc_file). True iff the open finding `entry` explains it."""
    m = entry["match"]
    if m.get("class") != v.get("class"):
        return False
    state = v.get("state") or []
    if "state_any" in m and not any(s in state for s in m["state_any"]):
        return False
    if "detail_regex_any" in m and not any(re.search(rx, v.get("detail") or "") for rx in m["detail_regex_any"]):
        return False
    if "files_regex_any" in m:
        texts = current_texts(case or {})
        if not any(re.search(rx, t, re.I | re.S) for rx in m["files_regex_any"] for t in texts.values()):
            return False
    if "loc_file_library" in m:
        lf = v.get("loc_file")
        libfiles = [f for lib, fs in (case or {}).get("libs", []) if lib == m["loc_file_library"] for f in fs]
        if lf not in libfiles:
            return False
    return True


def current_texts(case):
    """file name -> text after the case's edits (python re-implementation of the LSP splice)"""
    docs = {n: Doc(t) for n, t in case.get("files", [])}
    for e in case.get("edits", []):
        if (e.get("kind") or "").startswith("reload-config"):
            continue
        if e["file"] not in docs:
            docs[e["file"]] = Doc("")
        docs[e["file"]].change(e.get("range"), e["text"])
    return {n: d.text for n, d in docs.items()}


_VLOCK = threading.Lock()


class Findings:
    def __init__(self, res):
        self.res = res
        self.open = open_findings()
        self.hits = {}
        self.nviol = 0

    def report(self, what, v, replay_extra=None, no_failing_input=False):
        case = v.get("case")
        for e in self.open:
            if kf_match(v, case, e):
                h = self.hits.setdefault(e.get("id"), {"entry": e, "n": 0, "example": None})
                h["n"] += 1
                if h["example"] is None:
                    h["example"] = "%s: %s" % ((case or {}).get("id"), (v.get("detail") or "")[:160])
                return
        self.nviol += 1
        if self.nviol <= 8:
            obj = {"kind": "input", "class": v.get("class"), "where": v.get("where"), "detail": v.get("detail"),
                   "step": v.get("step"), "cursor": v.get("cursor"), "state": v.get("state"), "case": case,
                   "replay_cmd": "./check C03 --replay <this file>"}
            if replay_extra:
                obj.update(replay_extra)
            with _VLOCK:
                self.res.violation(what, obj, no_failing_input=no_failing_input)

    def finish(self):
        for fid, h in sorted(self.hits.items()):
            e = h["entry"]
            self.res.known_finding("%s id=%s reproduced %d times, e.g. %s" % (e.get("open", "open: property=C03"), fid, h["n"], h["example"]))


def describe(v):
    c = v.get("class")
    if c == "panic":
        return "panic in %s: %s" % (v.get("where"), v.get("detail"))
    if c == "abort":
        return "the process aborted (not a catchable panic) in %s: %s" % (v.get("where"), v.get("detail"))
    if c == "hang":
        return "watchdog: %s did not return (%s)" % (v.get("where"), v.get("detail"))
    if c == "location":
        return "%s reports a location outside the current text: %s" % (v.get("where"), v.get("detail"))
    if c == "arena":
        return "entity id stored in an AST is unknown to the root arena (FinalArena::get would panic): %s" % v.get("detail")
    return "%s: %s" % (c, v.get("detail"))


# ------------------------------------------------------------------------------------------------
# harness runs
# ------------------------------------------------------------------------------------------------
def read_jsonl(path):
    out = []
    if not os.path.exists(path):
        return out
    with open(path, encoding="utf-8") as f:
        for line in f:
            line = line.strip()
            if line:
                try:
                    out.append(json.loads(line))
                except ValueError:
                    pass
    return out


def dump_case(hbin, sd, ncases, nsteps, kinds, cid):
    rc, out = run([hbin, "dump", str(sd), str(ncases), str(nsteps), str(kinds), str(cid)], timeout=300)
    try:
        return json.loads(out) if rc == 0 else None
    except ValueError:
        return None


def _limits():
    # backstop for runaway allocations of the implementation (the harness watchdog acts at 10 GB resident)
    import resource
    try:
        resource.setrlimit(resource.RLIMIT_AS, (48 << 30, 48 << 30))
    except (ValueError, OSError):
        pass


def run_harness(res, fnd, hbin, args, out, tag, timeout, rayon=None, regen=None):
    env = env_base()
    if rayon:
        env["RAYON_NUM_THREADS"] = str(rayon)
    try:
        p = subprocess.run([hbin] + args, env=env, stdout=subprocess.PIPE, stderr=subprocess.STDOUT, timeout=timeout, preexec_fn=_limits)
        rc, log = p.returncode, p.stdout.decode("utf-8", "replace")
    except subprocess.TimeoutExpired as ex:
        rc, log = 124, (ex.stdout or b"").decode("utf-8", "replace")
    recs = read_jsonl(out)
    summary = None
    arena = []
    for v in recs:
        k = v.get("kind")
        if k == "violation":
            fnd.report(describe(v), v)
        elif k == "summary":
            summary = v
        elif k == "case":
            res.add_sample({"stream": tag, "case": v}, limit=5)
        elif k == "arena":
            arena.append(v)
        elif k == "harness_panic":
            res.violation("harness c03 (%s) panicked in its own code on case %s: %s" % (tag, v.get("id"), v.get("detail")),
                          {"kind": "harness", "detail": v.get("detail")}, no_failing_input=True)
    if rc not in (0, 3, 124) and regen is not None:
        # the process died (stack overflow / abort inside the implementation): find the case that was running
        last_at = {}
        done = set()
        for v in recs:
            if v.get("kind") == "at":
                last_at[v.get("id")] = v
            elif v.get("kind") == "case":
                done.add(v.get("id"))
        suspects = [a for i, a in last_at.items() if i not in done]
        found = False
        for a in suspects[:NTHREADS + 2]:
            case = regen(a["id"])
            if case is None:
                continue
            case = dict(case)
            case["edits"] = case["edits"][:a.get("step") or 0]
            one = os.path.join(os.path.dirname(out), "suspect.json")
            json.dump([case], open(one, "w"), ensure_ascii=False)
            try:
                p2 = subprocess.run([hbin, "cases", one, out + ".suspect", os.path.join(os.path.dirname(out), "work_suspect"), "1", "60"],
                                    env=env, stdout=subprocess.PIPE, stderr=subprocess.STDOUT, timeout=300, preexec_fn=_limits)
                rc2, log2 = p2.returncode, p2.stdout.decode("utf-8", "replace")
            except subprocess.TimeoutExpired:
                rc2, log2 = 124, ""
            if rc2 not in (0, 3):
                found = True
                why = [l for l in log2.split("\n") if "overflowed its stack" in l or "fatal runtime error" in l or "memory allocation" in l]
                fnd.report("the process aborted (stack overflow / abort, not a catchable panic) in case %s" % case.get("id"), {"class": "abort", "where": a.get("phase"), "detail": "; ".join(why)[:300] or "process died with rc=%s" % rc2,
                                                  "step": a.get("step"), "cursor": None, "state": lsp_state_tokens(case), "case": case, "loc_file": None})
            else:
                for v in read_jsonl(out + ".suspect"):
                    if v.get("kind") == "violation":
                        fnd.report(describe(v), v)
        if found:
            return summary, arena, recs
    if rc == 124:
        res.violation("harness c03 (%s) exceeded its time budget of %d s" % (tag, timeout),
                      {"kind": "harness", "log": log[-2000:]}, no_failing_input=True)
    elif rc not in (0, 3) or summary is None:
        res.violation("harness c03 (%s) crashed (rc=%s)" % (tag, rc), {"kind": "harness", "log": log[-3000:]},
                      no_failing_input=True)
    return summary, arena, recs


# ------------------------------------------------------------------------------------------------
# correspondence: arena ids of the implementation vs the extracted model
# ------------------------------------------------------------------------------------------------
def arena_script(trace):
    """From the per-step unit listings of one case build the op script for the model runner and the list of
    observations.  Returns (lines, obs) with obs[q] = {(libidx, key): impl arena id} for the q-th `Q`."""
    libs = {}
    keys = {}

    def lib_of(name):
        if name == "std":
            return libs.setdefault(name, 0)
        if name not in libs:
            libs[name] = 1 + len([x for x in libs if x != "std"])
        return libs[name]

    def key_of(lib, desc):
        if lib == "std" and desc.lower() == "package 'standard'":
            return 0
        k = (lib, desc)
        if k not in keys:
            keys[k] = 1 + len(keys)
        return keys[k]

    lines = ["N"]
    obs = []
    fileof = {}
    prev = {}          # file -> [(lib, key)] in textual order
    seen_libs = set()
    ok = True
    for st in trace:
        cur = {}
        ids = {}
        for lib, fname, desc, line, ch, aid in sorted(st["units"], key=lambda u: (u[1], u[0], u[3], u[4])):
            li, ki = lib_of(lib), key_of(lib, desc)
            if (li, ki) in ids:
                ok = False          # two units with one description (homographs): outside the comparison
            ids[(li, ki)] = aid
            cur.setdefault(fname, []).append((li, ki))
        # The model's unit set changes only for the re-parsed file(s): a unit of another file that becomes (in)visible
        # (document_symbols lists only units whose entity exists) keeps its LockedUnit and hence its arena id.
        files = sorted(set(list(cur.keys()) + list(prev.keys()))) if st["edited"] is None else [st["edited"]]
        for f in files:
            for (li, ki) in prev.get(f, []):
                lines.append("R %d %d" % (li, ki))
        for f in files:
            for (li, ki) in cur.get(f, []):
                if li not in seen_libs:
                    seen_libs.add(li)
                    lines.append("L %d" % li)
                lines.append("A %d %d" % (li, ki))
            prev[f] = cur.get(f, [])
        lines.append("Q")
        obs.append(ids)
        fileof[len(obs) - 1] = {k: f for f, ks in cur.items() for k in ks}
    return lines, obs, ok, fileof


def same_order(pairs):
    """pairs: list of (model_id, impl_id, group).  Equal model ids <-> equal impl ids; and model order = impl order for
    ids allocated in different groups (steps) or in the same (step, file, library)."""
    bad = None
    n = len(pairs)
    for i in range(n):
        mi, ii, gi = pairs[i]
        for j in range(i + 1, n):
            mj, ij, gj = pairs[j]
            if (mi == mj) != (ii == ij):
                return "model ids %s/%s but implementation arena ids %s/%s" % (mi, mj, ii, ij)
            if mi != mj and (gi[0] != gj[0] or gi == gj):
                if (mi < mj) != (ii < ij):
                    return "allocation order differs: model %s/%s, implementation %s/%s" % (mi, mj, ii, ij)
    return bad


def arena_correspondence(res, mbin, arenas, d):
    scripts = []
    for a in arenas:
        lines, obs, ok, fileof = arena_script(a["trace"])
        if ok and obs:
            scripts.append((a["id"], lines, obs, fileof))
    res.coverage["arena_traces"] = {"cases": len(arenas), "compared": len(scripts),
                                    "skipped_homographs": len(arenas) - len(scripts)}
    if not scripts:
        return []
    inp = os.path.join(d, "arena.in")
    outp = os.path.join(d, "arena.model")
    with open(inp, "w") as f:
        for _cid, lines, _obs, _fo in scripts:
            f.write("\n".join(lines) + "\n")
    with open(inp) as fin, open(outp, "w") as fout:
        p = subprocess.run([mbin], stdin=fin, stdout=fout)
    if p.returncode != 0:
        res.violation("extracted model runner c03_run failed", {"kind": "build"}, no_failing_input=True)
        return []
    model_lines = open(outp).read().split("\n")
    k = 0
    nobs = 0
    nbad = 0
    coq_samples = []
    for cid, lines, obs, fileof in scripts:
        first_seen = {}      # (li,ki,model id) -> (step, file/lib group)
        pairs = []
        model_q = []
        for q, ids in enumerate(obs):
            ml = model_lines[k]
            k += 1
            mm = {}
            for item in ml.split():
                li, ki, mid = (int(x) for x in item.split(":"))
                mm[(li, ki)] = mid
            model_q.append(mm)
            for key, mid in mm.items():
                if key not in ids:
                    continue        # the unit exists (LockedUnit) but has no entity in this state: not observable
                nobs += 1
                g = first_seen.setdefault((key, mid), (q, key[0], fileof.get(q, {}).get(key)))
                pairs.append((mid, ids[key], g))
                # std.standard always lives in arena 0 (Arena::new_std) — own_id std_unit = 0 in the model
                if key == (0, 0) and (mid != 0 or ids[key] != 0):
                    nbad += 1
                    res.violation("correspondence broken: std.standard is expected in arena 0 (model %s, implementation %s)" % (mid, ids[key]),
                                  {"kind": "correspondence", "case_id": cid}, no_failing_input=True)
        if True:
            # distinct observations only
            uniq = sorted(set(pairs))
            why = same_order(uniq[:400])
            if why:
                nbad += 1
                if nbad <= 3:
                    res.violation("correspondence broken: arena ids of the implementation are not order-isomorphic to the model's (%s) in case %s" % (why, cid),
                                  {"kind": "correspondence", "correspondence": "Kernel/Arena.v (add_unit: fresh id from the global counter; analyze_unit re-uses LockedUnit::arena_id) vs named_entity/arena.rs + analysis/root.rs",
                                   "case_id": cid, "pairs": uniq[:60], "script": lines[:200]}, no_failing_input=True)
            if len(coq_samples) < 12 and len(lines) < 120:
                coq_samples.append((lines, model_q))
    res.coverage["arena_traces"]["unit_observations"] = nobs
    res.coverage["arena_traces"]["mismatches"] = nbad
    return coq_samples


def coq_cross_check(res, samples):
    """Re-run a sample of the scripts inside Coq (vm_compute) and compare with the extracted runner's answers."""
    if not samples:
        return
    items = []
    for lines, model_q in samples:
        ops = []
        qi = 0
        for ln in lines:
            f = ln.split()
            if f[0] == "N":
                continue
            if f[0] == "L":
                ops.append("OpL %s" % f[1])
            elif f[0] == "A":
                ops.append("OpA %s %s" % (f[1], f[2]))
            elif f[0] == "R":
                ops.append("OpR %s %s" % (f[1], f[2]))
            elif f[0] == "Q":
                exp = "; ".join("(%d, %d, %d)" % (k[0], k[1], v) for k, v in model_q[qi].items())
                # order of the expectation = slot order printed by the runner
                ops.append("OpQ [%s]" % exp)
                qi += 1
        items.append("[" + "; ".join(ops) + "]")
    pre = ("From Coq Require Import List NArith Bool.\nImport ListNotations.\nFrom RH Require Import Kernel.Arena.\nOpen Scope N_scope.\n"
           "Inductive op := OpL (l : N) | OpA (l k : N) | OpR (l k : N) | OpQ (e : list (N * N * N)).\n"
           "Definition units (r : root) : list (N * N * N) := flat_map (fun s => match s_owner s with OUnit l k => [(l, k, own_id s)] | OLib _ => [] end) (r_slots r).\n"
           "Definition t3b (x y : N * N * N) : bool := match x, y with (a, b, c), (d, e, f) => (a =? d) && (b =? e) && (c =? f) end.\n"
           "Fixpoint lb (x y : list (N * N * N)) : bool := match x, y with [], [] => true | a :: s, b :: t => t3b a b && lb s t | _, _ => false end.\n"
           "Fixpoint runops (r : root) (l : list op) : bool := match l with [] => true | o :: t => match o with\n"
           "  | OpL l => runops (ensure_library r l 0) t | OpA l k => runops (add_unit r (OUnit l k)) t\n"
           "  | OpR l k => runops (remove_unit r (OUnit l k)) t | OpQ e => lb (units r) e && runops r t end end.\n"
           "Definition cases : list (list op) := [\n" + ";\n".join(items) + "].\n")
    v, log = coq_eval_bool(PROP, "arena", pre, "forallb (runops empty_root) cases")
    res.coverage["in_coq_vm_compute_cases"] = len(items)
    if v is not True:
        res.violation("extracted model and in-Coq evaluation (vm_compute) disagree on the sampled arena scripts",
                      {"kind": "correspondence", "correspondence": "extraction vs vm_compute (RH.Kernel.Arena)", "log": log[-2000:]},
                      no_failing_input=True)


# ------------------------------------------------------------------------------------------------
# LSP stage: a sample of the histories through the vhdl_ls binary
# ------------------------------------------------------------------------------------------------
def norm(s):
    return s.replace("\r\n", "\n").replace("\r", "\n")


def u16len(s):
    return len(s.encode("utf-16-le")) // 2


class Doc:
    def __init__(self, text):
        self.text = norm(text)

    def lines(self):
        return self.text.split("\n")

    def offset(self, line, ch):
        ls = self.lines()
        if line >= len(ls):
            return len(self.text)
        off = sum(len(x) + 1 for x in ls[:line])
        col = 0
        for i, c in enumerate(ls[line]):
            if col >= ch:
                return off + i
            col += 2 if ord(c) > 0xFFFF else 1
        return off + len(ls[line])

    def change(self, rng, text):
        if rng is None:
            self.text = norm(text)
        else:
            a = self.offset(rng[0], rng[1])
            b = max(a, self.offset(rng[2], rng[3]))
            self.text = norm(self.text[:a] + text + self.text[b:])

    def pos_ok(self, line, ch):
        ls = self.lines()
        if line < len(ls) and ch <= u16len(ls[line]):
            return True
        # end-of-file marker of the tokenizer: Contents::end() (= length of the last line INCLUDING its terminator)
        # and one character further
        if self.text.endswith("\n"):
            el, ec = len(ls) - 2, u16len(ls[-2]) + 1 if len(ls) >= 2 else 0
        else:
            el, ec = len(ls) - 1, u16len(ls[-1])
        return line == el and ch in (ec, ec + 1)

    def range_ok(self, r):
        s, e = r["start"], r["end"]
        return (self.pos_ok(s["line"], s["character"]) and self.pos_ok(e["line"], e["character"])
                and (s["line"], s["character"]) <= (e["line"], e["character"]))


def tokens_boundaries(text):
    out = []
    for li, line in enumerate(text.split("\n")):
        for m in re.finditer(r"[A-Za-z_][A-Za-z0-9_]*|\d+|[^\sA-Za-z0-9_]", line):
            out.append((li, u16len(line[:m.start()])))
            out.append((li, u16len(line[:m.end()])))
    return sorted(set(out))


POS_REQUESTS = ["textDocument/declaration", "textDocument/definition", "textDocument/typeDefinition",
                "textDocument/implementation", "textDocument/hover", "textDocument/documentHighlight",
                "textDocument/prepareRename"]


class LspProblem(Exception):
    def __init__(self, cls, where, detail):
        Exception.__init__(self, detail)
        self.cls, self.where, self.detail = cls, where, detail


def panic_from_stderr(text):
    m = re.search(r"panicked at ([^\n]*?):(\d+):\d+:\n([^\n]*)", text)
    if not m:
        return text[-400:]
    loc = m.group(1)
    i = loc.find("vhdl_lang/src/")
    if i >= 0:
        loc = loc[i:]
    return "%s:%s: %s" % (loc, m.group(2), m.group(3))


_DISK_DOCS = {}


def case_toml(case, directive=None):
    """vhdl_ls.toml of a case after a reload directive (same as gen::case_toml of the harness)"""
    d = directive or ""
    t = ""
    for line in d.split("\n"):
        if line.startswith("standard") or line.startswith("preferred_case"):
            t += line + "\n"
    t += "[libraries]\n"
    for k, (lib, files) in enumerate(case["libs"]):
        fs = list(files)
        if "drop-last-file" in d and k + 1 == len(case["libs"]) and len(fs) > 1:
            fs.pop()
        t += "%s.files = [%s]\n" % (lib, ", ".join("'%s'" % x for x in fs))
    if "extra-lib" in d:
        t += "extra_lib.files = []\n"
    if "lint-table" in d:
        t += "\n[lint]\nunused = 'error'\nduplicate = false\n"
    return t

RELOADS = ['standard = "2019"', 'standard = "1993"', 'preferred_case = "upper"', "lint-table", 'standard = "2008"', "extra-lib",
           'standard = "2019"\npreferred_case = "lower"', "drop-last-file", 'standard = "1993"\nlint-table']

FULL_CAPS = {"textDocument": {"publishDiagnostics": {"relatedInformation": True},
                              "documentSymbol": {"hierarchicalDocumentSymbolSupport": True},
                              "completion": {"completionItem": {"snippetSupport": True}}},
             "workspace": {"didChangeWatchedFiles": {"dynamicRegistration": True}}}

# every command line / setting variant of the server; each LSP session runs under one of them (rotating with the seed)
LSP_VARIANTS = [
    {"name": "default"},
    {"name": "no-lint", "args": ["--no-lint"]},
    {"name": "not-silent+full-caps+reload", "silent": False, "caps": FULL_CAPS, "reload": True},
    {"name": "no-lint+full-caps+reload", "args": ["--no-lint"], "caps": FULL_CAPS, "reload": True},
    {"name": "no-config-file", "toml": False},
    {"name": "no-config-file+nonProjectFiles=ignore", "toml": False, "init": {"nonProjectFiles": "ignore"}},
    {"name": "nonProjectFiles=analyze+no-caps", "init": {"nonProjectFiles": "analyze"}, "caps": {}},
    {"name": "nonProjectFiles=bogus+no-lint+not-silent", "init": {"nonProjectFiles": "bogus", "x": 1}, "args": ["--no-lint"], "silent": False},
]


def lsp_case(binpath, case, wsroot, libs_std, rng_seed, max_cursors, counters, state, variant=None):
    """Replays one case through the server. Raises LspProblem with the failing (step, request, cursor)."""
    if os.path.isdir(wsroot):
        shutil.rmtree(wsroot)
    os.makedirs(wsroot)
    docs = {}
    for name, text in case["files"]:
        p = os.path.join(wsroot, name)
        os.makedirs(os.path.dirname(p), exist_ok=True)
        with open(p, "w", encoding="latin-1", errors="replace", newline="") as f:
            f.write(text)
        docs[name] = Doc(text)
    variant = variant or LSP_VARIANTS[0]
    state["variant"] = variant["name"]
    has_toml = variant.get("toml", True)
    if has_toml:
        with open(os.path.join(wsroot, "vhdl_ls.toml"), "w") as f:
            f.write(case_toml(case))
    # own / none: an empty library configuration (the project maps library std itself, or has none)
    libs = lsp.VHDL_LIBRARIES if case["std"] == "full" else (libs_std if case["std"] == "std" else os.path.join(libs_std, "none"))
    env = dict(os.environ)
    env["RAYON_NUM_THREADS"] = "2"
    env["RUST_BACKTRACE"] = "0"
    ls = lsp.LS(binpath if variant.get("silent", True) else binpath.replace("vhdl_ls_limited.sh", "vhdl_ls_limited_loud.sh"),
                wsroot, libraries=libs, extra_args=variant.get("args", []), env=env)
    state.update({"step": 0, "req": "initialize", "cursor": None})
    import random
    rnd = random.Random(rng_seed)

    def path_of(uri_):
        return uri_[len("file://"):] if uri_.startswith("file://") else uri_

    def doc_of_uri(uri_):
        p = path_of(uri_)
        if p.startswith(wsroot + "/"):
            return docs.get(p[len(wsroot) + 1:])
        if p not in _DISK_DOCS:
            try:
                _DISK_DOCS[p] = Doc(open(p, encoding="latin-1").read())
            except OSError:
                _DISK_DOCS[p] = None
        return _DISK_DOCS[p]

    def check_loc(what, uri_, rng):
        counters["locations"] += 1
        dc = doc_of_uri(uri_)
        if dc is None:
            raise LspProblem("location", what, "%s names %s which is not a file of the project" % (what, uri_))
        if not dc.range_ok(rng):
            raise LspProblem("location", what, "%s: range %s lies outside the current text of %s (%d lines)" % (
                what, json.dumps(rng, sort_keys=True), path_of(uri_), len(dc.lines())))

    def check_diags(msgs):
        for m in msgs:
            if isinstance(m, dict) and m.get("method") == "textDocument/publishDiagnostics":
                u = m["params"]["uri"]
                for dg in m["params"]["diagnostics"]:
                    counters["diagnostics"] += 1
                    check_loc("diagnostic '%s'" % dg.get("message", "")[:60], u, dg["range"])
                    for rel in dg.get("relatedInformation") or []:
                        check_loc("related information", rel["location"]["uri"], rel["location"]["range"])

    def call(method, params):
        if len(ls.log) > 2000:
            del ls.log[:]          # the client library keeps every message; long sessions would grow without bound
        state["req"] = method
        counters["requests"] += 1
        resp, others = ls.call(method, params, timeout=90.0)
        check_diags(others)
        if "error" in resp:
            raise LspProblem("lsp-error", method, "server answered %s with an error: %s" % (method, json.dumps(resp["error"])[:300]))
        return resp.get("result")

    def locations(what, result, own_uri):
        if result is None:
            return
        if isinstance(result, dict):
            result = [result]
        for x in result:
            if "uri" in x and "range" in x:
                check_loc(what, x["uri"], x["range"])
            elif "targetUri" in x:
                check_loc(what, x["targetUri"], x["targetRange"])
            elif "range" in x:
                check_loc(what, own_uri, x["range"])

    def symbols(what, syms, own_uri):
        for s in syms or []:
            if "location" in s:
                check_loc(what, s["location"]["uri"], s["location"]["range"])
            if "range" in s:
                check_loc(what, own_uri, s["range"])
            if "selectionRange" in s:
                check_loc(what + " selection", own_uri, s["selectionRange"])
            symbols(what, s.get("children"), own_uri)

    def semantic(what, result, dc, own_uri):
        if not result:
            return
        data = result.get("data") or []
        line = ch = 0
        for i in range(0, len(data) - 4, 5):
            dl, dc_, ln = data[i], data[i + 1], data[i + 2]
            line += dl
            ch = ch + dc_ if dl == 0 else dc_
            check_loc(what, own_uri, {"start": {"line": line, "character": ch}, "end": {"line": line, "character": ch + ln}})
            # the token must cover one lexical element of the CURRENT text: no blank inside, whole words only
            lines_ = dc.lines()
            u16 = lines_[line].encode("utf-16-le") if line < len(lines_) else b""
            tok = u16[2 * ch:2 * (ch + ln)].decode("utf-16-le", "replace")
            before = u16[2 * (ch - 1):2 * ch].decode("utf-16-le", "replace") if ch > 0 else ""
            after = u16[2 * (ch + ln):2 * (ch + ln + 1)].decode("utf-16-le", "replace")
            word = lambda c_: c_ != "" and (c_.isalnum() or c_ == "_")
            bad = None
            if ln == 0 or tok == "":
                bad = "is empty"
            elif tok[0] not in "\\'\"" and any(c_.isspace() for c_ in tok):
                bad = "covers white space"
            elif word(tok[0]) and word(before) and ord(before) < 128 and ord(tok[0]) < 128:
                bad = "starts inside a word"
            elif word(tok[-1]) and word(after) and ord(after) < 128 and ord(tok[-1]) < 128:
                bad = "ends inside a word"
            if bad:
                raise LspProblem("location", what, "%s: token %d:%d+%d %s of the current text of %s (text %r; stale tokens?)" % (
                    what, line, ch, ln, bad, path_of(own_uri), tok[:40]))

    pool = {}            # entity id (completion item data) -> item, collected over the whole session
    old_positions = []   # (file name, line, character) of symbols reported at earlier states

    def stale(name):
        """Use what the server told us at EARLIER states: resolve old completion items (their entity ids may point into
        arenas that were dropped, re-created or shrunk), forge ids at and around the largest local id seen per arena, and
        ask position requests at the positions of old symbols."""
        if pool:
            by_arena = {}
            for dv in pool:
                by_arena.setdefault(dv >> 32, []).append(dv & 0xFFFFFFFF)
            todo = []
            for a in sorted(by_arena)[-3:]:          # the most recently allocated arenas = project units
                ls_ = sorted(by_arena[a])
                top = ls_[-1]
                for k in ls_[-6:]:
                    todo.append(pool[(a << 32) | k])
                tmpl = pool[(a << 32) | top]
                for k in range(max(0, top - 12), top + 3):
                    it = dict(tmpl)
                    it["data"] = (a << 32) | k
                    todo.append(it)
            keys = list(pool)
            for dv in rnd.sample(keys, min(6, len(keys))):
                todo.append(pool[dv])
            state["cursor"] = [name, 0, 0]
            for it in todo:
                counters["stale_resolves"] = counters.get("stale_resolves", 0) + 1
                call("completionItem/resolve", it)
        here = [p for p in old_positions if p[0] == name]
        u = lsp.uri(os.path.join(wsroot, name))
        for (_n, l, c) in rnd.sample(here, min(4, len(here))):
            state["cursor"] = [name, l, c]
            pos = {"line": l, "character": c}
            for m in ("textDocument/definition", "textDocument/hover", "textDocument/prepareRename"):
                r = call(m, {"textDocument": {"uri": u}, "position": pos})
                if m == "textDocument/definition":
                    locations(m, r, u)
            locations("textDocument/references",
                      call("textDocument/references", {"textDocument": {"uri": u}, "position": pos, "context": {"includeDeclaration": True}}), u)

    def remember_symbols(name, syms):
        for sy in syms or []:
            rg = sy.get("selectionRange") or (sy.get("location") or {}).get("range")
            if rg and len(old_positions) < 2000:
                old_positions.append((name, rg["start"]["line"], rg["start"]["character"]))
            remember_symbols(name, sy.get("children"))

    last_edited = [case["files"][0][0]]

    def reload_config(directive):
        state["req"] = "workspace/didChangeWatchedFiles (vhdl_ls.toml rewritten: %s)" % directive.replace("\n", "; ")
        with open(os.path.join(wsroot, "vhdl_ls.toml"), "w") as f:
            f.write(case_toml(case, directive))
        ls.notify("workspace/didChangeWatchedFiles", {"changes": [{"uri": lsp.uri(os.path.join(wsroot, "vhdl_ls.toml")), "type": 2}]})
        check_diags(ls.sync(timeout=180.0))
        counters["reloads"] = counters.get("reloads", 0) + 1

    def queries(name, step, focus=None, light=False, nocursors=False):
        dc = docs[name]
        u = lsp.uri(os.path.join(wsroot, name))
        td = {"uri": u}
        bs = tokens_boundaries(dc.text)
        cur = rnd.sample(bs, min(len(bs), max_cursors)) if bs else []
        if focus is not None:
            # every token boundary of the edited line (completion right after `obj.`)
            cur = [b for b in bs if b[0] == focus] + cur[:2]
        nl = len(dc.lines())
        cur += [(nl + 3, 1), (0, 2 ** 31 - 1), (2 ** 31 - 1, 0), (4294967295, 4294967295)]
        if nocursors:
            cur = []
        for (l, c) in cur:
            state["cursor"] = [name, l, c]
            counters["cursors"] += 1
            pos = {"line": l, "character": c}
            for m in POS_REQUESTS:
                r = call(m, {"textDocument": td, "position": pos})
                if m == "textDocument/hover":
                    continue
                if m == "textDocument/prepareRename":
                    if r is not None:
                        check_loc(m, u, r if "start" in r else r.get("range", r))
                    continue
                locations(m, r, u)
            r = call("textDocument/references", {"textDocument": td, "position": pos, "context": {"includeDeclaration": True}})
            locations("textDocument/references", r, u)
            r = call("textDocument/rename", {"textDocument": td, "position": pos, "newName": "renamed_x"})
            if r and r.get("changes"):
                for uu, eds in r["changes"].items():
                    for e in eds:
                        check_loc("textDocument/rename", uu, e["range"])
            r = call("textDocument/completion", {"textDocument": td, "position": pos})
            items = (r or {}).get("items", []) if isinstance(r, dict) else (r or [])
            counters["completion_items"] += len(items)
            for it in items[:3]:
                call("completionItem/resolve", it)
            # remember the items: they are resolved again after later edits (stale entity ids)
            for it in items:
                dv = it.get("data")
                if isinstance(dv, int) and len(pool) < 20000:
                    pool.setdefault(dv, it)
        if light:
            return
        state["cursor"] = [name, 0, 0]
        ds = call("textDocument/documentSymbol", {"textDocument": td})
        symbols("textDocument/documentSymbol", ds, u)
        remember_symbols(name, ds)
        # hover on every declaration of the file (the declaration formatter), at most 40
        here = [p for p in old_positions if p[0] == name][-400:]
        for (_n, l, c) in here[:40] if len(here) <= 40 else rnd.sample(here, 40):
            state["cursor"] = [name, l, c]
            call("textDocument/hover", {"textDocument": td, "position": {"line": l, "character": c}})
        for qy in ("", "a", "std"):
            symbols("workspace/symbol", call("workspace/symbol", {"query": qy}), u)
        semantic("textDocument/semanticTokens/full", call("textDocument/semanticTokens/full", {"textDocument": td}), dc, u)
        semantic("textDocument/semanticTokens/range",
                 call("textDocument/semanticTokens/range",
                      {"textDocument": td, "range": {"start": {"line": 0, "character": 0}, "end": {"line": max(1, nl // 2), "character": 0}}}), dc, u)

    try:
        _resp, others = ls.initialize(caps=variant.get("caps"), init_options=variant.get("init"), timeout=180.0)
        check_diags(others)
        ver = 1
        names = [n for n, _ in case["files"]]
        for n in names:
            state["req"] = "textDocument/didOpen"
            ls.notify("textDocument/didOpen", {"textDocument": {"uri": lsp.uri(os.path.join(wsroot, n)), "languageId": "vhdl",
                                                              "version": ver, "text": docs[n].text}})
        check_diags(ls.sync(timeout=180.0))
        queries(names[0], 0)
        for k, e in enumerate(case["edits"]):
            state["step"] = k + 1
            state["req"] = "textDocument/didChange"
            state["cursor"] = None
            ver += 1
            n = e["file"]
            if (e.get("kind") or "").startswith("reload-config"):
                if has_toml:
                    reload_config(e["text"])
                    for nn in names:
                        queries(nn, k + 1, nocursors=(nn != last_edited[0]))
                continue
            if n not in docs:
                continue
            last_edited[0] = n
            ch = {"text": e["text"]}
            if e["range"] is not None:
                r = e["range"]
                ch["range"] = {"start": {"line": r[0], "character": r[1]}, "end": {"line": r[2], "character": r[3]}}
            docs[n].change(e["range"], e["text"])
            ls.notify("textDocument/didChange", {"textDocument": {"uri": lsp.uri(os.path.join(wsroot, n)), "version": ver},
                                                 "contentChanges": [ch]})
            check_diags(ls.sync(timeout=180.0))
            counters["states"] += 1
            # the batch families (70-700 whole-document changes): every state is analysed and its diagnostics checked,
            # the queries run at every 8th state
            if variant.get("reload") and has_toml and k in (1, 5) and not case["family"].endswith("-batch"):
                # an UNSAVED edit that makes the buffer shorter than the file on disk, then vhdl_ls.toml is rewritten (another
                # key every time) and reloaded; every answer must refer to the client's text; afterwards the text is restored
                keep = docs[n].text
                cut = docs[n].text[:len(docs[n].text) * 3 // 5]
                lines_ = cut.split("\n")
                ver += 1
                rg = [len(lines_) - 1, u16len(lines_[-1]), 4294967295, 0]
                docs[n].change(rg, "")
                ls.notify("textDocument/didChange", {"textDocument": {"uri": lsp.uri(os.path.join(wsroot, n)), "version": ver},
                          "contentChanges": [{"range": {"start": {"line": rg[0], "character": rg[1]}, "end": {"line": rg[2], "character": rg[3]}}, "text": ""}]})
                check_diags(ls.sync(timeout=180.0))
                reload_config(RELOADS[(rng_seed + k) % len(RELOADS)])
                queries(n, k + 1)
                ver += 1
                docs[n].change(None, keep)
                ls.notify("textDocument/didChange", {"textDocument": {"uri": lsp.uri(os.path.join(wsroot, n)), "version": ver},
                                                     "contentChanges": [{"text": keep}]})
                check_diags(ls.sync(timeout=180.0))
            if not case["family"].endswith("-batch") or k % 8 == 0:
                stale(n)
                queries(n, k + 1, focus=(e["range"][0] + (1 if case["family"] == "xunit" else 0) if case["family"] in ("cycles", "corpus", "xunit") and e["range"] else None),
                        light=(case["family"] in ("cycles", "xunit") and k % 8 != 0))
        ls.shutdown()
    except lsp.ServerDied as ex:
        try:
            ls.p.wait(timeout=5)
        except Exception:
            pass
        time.sleep(0.3)          # let the stderr reader thread drain the pipe
        err = "".join(ls.stderr_buf)
        ls.kill()
        msg = str(ex)
        if "timeout" in msg and ls.p.poll() is None:
            raise LspProblem("hang", state["req"], "vhdl_ls did not answer %s within the time limit" % state["req"])
        raise LspProblem("panic", "vhdl_ls " + state["req"], panic_from_stderr(err if "panicked" in err else msg))
    except LspProblem:
        ls.kill()
        raise


def lsp_state_tokens(case):
    toks = []
    if case["std"] == "none":
        toks.append("std-absent")
    elif case["std"] == "own":
        toks.append("std-edited")
    else:
        toks.append("std-bundled")
    toks.append("ieee-own" if any(l == "ieee" for l, _ in case["libs"]) else "ieee-bundled")
    return toks


def lsp_stage(res, fnd, cases, d, max_cursors):
    ok, log, binpath = vhdl_ls_build()
    if not ok:
        res.violation("vhdl_ls build failed against the current tree", {"kind": "build", "log": log[-3000:]}, no_failing_input=True)
        return
    # memory backstop for the servers (an endless allocating loop must not take the machine down)
    wrapper = os.path.join(d, "vhdl_ls_limited.sh")
    with open(wrapper, "w") as f:
        f.write("#!/bin/sh\nulimit -v 8000000\nexec %s \"$@\"\n" % binpath)
    os.chmod(wrapper, 0o755)
    loud = os.path.join(d, "vhdl_ls_limited_loud.sh")       # the client library always passes --silent first: drop it
    with open(loud, "w") as f:
        f.write("#!/bin/sh\nulimit -v 8000000\nshift\nexec %s \"$@\"\n" % binpath)
    os.chmod(loud, 0o755)
    binpath = wrapper
    libs_std = os.path.join(d, "libs_std")
    os.makedirs(libs_std, exist_ok=True)
    with open(os.path.join(libs_std, "vhdl_ls.toml"), "w") as f:
        f.write("[libraries]\nstd.files = ['%s/std/*.vhd']\nstd.is_third_party = true\n" % lsp.VHDL_LIBRARIES)
    os.makedirs(os.path.join(libs_std, "none"), exist_ok=True)
    with open(os.path.join(libs_std, "none", "vhdl_ls.toml"), "w") as f:
        f.write("[libraries]\n")
    counters = {"requests": 0, "cursors": 0, "states": 0, "locations": 0, "diagnostics": 0, "completion_items": 0, "cases": 0, "stale_resolves": 0, "reloads": 0}
    lock = threading.Lock()
    todo = list(enumerate(cases))

    def worker():
        while True:
            with lock:
                if not todo:
                    return
                i, case = todo.pop(0)
            cnt = {k: 0 for k in counters if k != "sessions_per_variant"}
            problem = None
            st = {}
            try:
                variant = LSP_VARIANTS[(i + seed()) % len(LSP_VARIANTS)]
                if case.get("variant"):
                    variant = [v_ for v_ in LSP_VARIANTS if v_["name"] == case["variant"]][0]
                lsp_case(binpath, case, os.path.join(d, "lsp_ws%d" % i), libs_std, seed() * 1000 + i,
                         (3 if max_cursors <= 10 else 8) if case["family"].endswith("-batch") else max_cursors, cnt, st, variant)
                with lock:
                    vc = counters.setdefault("sessions_per_variant", {})
                    vc[variant["name"]] = vc.get(variant["name"], 0) + 1
            except LspProblem as ex:
                problem = ex
            except Exception as ex:          # a bug of this driver must not look like a pass
                problem = LspProblem("driver", "lsp driver", "%s: %s" % (type(ex).__name__, ex))
            with lock:
                for k in cnt:
                    counters[k] += cnt[k]
                counters["cases"] += 1
                counters["states"] += 1
                if problem is not None:
                    cj = dict(case)
                    cj["edits"] = case["edits"][:st.get("step", len(case["edits"]))]
                    v = {"class": problem.cls, "where": problem.where, "detail": problem.detail, "step": st.get("step"),
                         "cursor": st.get("cursor"), "state": lsp_state_tokens(case), "case": cj, "loc_file": None}
                    if problem.cls == "driver":
                        res.violation("LSP driver error: " + problem.detail, {"kind": "harness", "case": cj}, no_failing_input=True)
                    else:
                        cj["variant"] = st.get("variant")
                        fnd.report("through vhdl_ls (%s): " % st.get("variant") + describe(v), v, {"via": "lsp", "request": st.get("req"), "variant": st.get("variant")})

    ths = [threading.Thread(target=worker) for _ in range(min(6, max(1, len(cases))))]
    for t in ths:
        t.start()
    for t in ths:
        t.join()
    res.coverage["lsp"] = counters


# ------------------------------------------------------------------------------------------------
def main(tier, replay=None):
    res = Result(PROP, tier, level="other")
    d = rundir(PROP)
    fnd = Findings(res)
    proof_stage(res, PROP, extra_targets=["Kernel/ArenaProofs.vo", "Kernel/C03SearchProofs.vo"], thorough=(tier == "thorough"))
    ok, log, hbin = harness_build("c03")
    if not ok:
        res.violation("harness build failed against the current /repo tree", {"kind": "build", "log": log[-3000:]}, no_failing_input=True)
        return res.finish()
    ok, log, mbin = ocaml_build("c03_run")
    if not ok:
        res.violation("extracted model build failed", {"kind": "build", "log": log[-3000:]}, no_failing_input=True)
        return res.finish()
    work = os.path.join(d, "work")
    arenas = []
    summaries = {}
    lsp_cases = []

    if replay:
        rp = json.load(open(replay))
        case = rp.get("case") or rp
        path = os.path.join(d, "replay.json")
        json.dump([case], open(path, "w"), ensure_ascii=False)
        if rp.get("via") == "lsp":
            lsp_cases = [case]
        else:
            s, a, _ = run_harness(res, fnd, hbin, ["cases", path, os.path.join(d, "replay.out"), work, "1", "90"],
                                  os.path.join(d, "replay.out"), "replay", 600, regen=lambda _i: case)
            summaries["replay"] = s
            arenas += a
    else:
        corpus = os.path.join(VERIF, "corpus", "C03.json")
        corpus_cases = json.load(open(corpus)) if os.path.exists(corpus) else []
        by_id = {c["id"]: c for c in corpus_cases}
        # inputs that abort or hang the process (open findings) run in their own processes, beside the exploration
        isolated = [c for c in corpus_cases if c.get("isolate")]
        corpus = os.path.join(d, "corpus_normal.json")
        json.dump([c for c in corpus_cases if not c.get("isolate")], open(corpus, "w"), ensure_ascii=False)
        iso_fnd = []

        def run_isolated():
            for k, c in enumerate(isolated):
                pth = os.path.join(d, "iso%d.json" % k)
                json.dump([c], open(pth, "w"), ensure_ascii=False)
                f2 = Findings(res)
                iso_fnd.append(f2)
                run_harness(res, f2, hbin, ["cases", pth, os.path.join(d, "iso%d.out" % k), os.path.join(d, "work_iso"), "1", "25"],
                            os.path.join(d, "iso%d.out" % k), "corpus/isolated " + c["id"], 300, rayon=2, regen=lambda i: by_id.get(i))
            # cyclic type declarations (cycles through access / alias / subtype / record / array / protected) x the queries
            # that walk types: a regression there is a stack overflow, so the family has a process of its own
            cyc = os.path.join(d, "cycles.json")
            run([hbin, "famcases", "cycles", str(seed()), cyc], timeout=120)
            if os.path.exists(cyc):
                cyc_cases = {c["id"]: c for c in json.load(open(cyc))}
                f2 = Findings(res)
                iso_fnd.append(f2)
                s_, _a, _r = run_harness(res, f2, hbin, ["cases", cyc, os.path.join(d, "cycles.out"), os.path.join(d, "work_cyc"), "8", "40"],
                                         os.path.join(d, "cycles.out"), "type cycles", 600, rayon=2, regen=lambda i: cyc_cases.get(i))
                summaries["cycles"] = s_
            # cross-unit combinations: attribute / configuration specifications, aliases, bodies, external names ... whose
            # target lives in another design unit, reached by use clause, selected name, alias, alias of alias
            xu = os.path.join(d, "xunit.json")
            run([hbin, "famcases", "xunit-all" if tier == "thorough" else "xunit", str(seed()), xu], timeout=120)
            if os.path.exists(xu):
                xu_cases = {c["id"]: c for c in json.load(open(xu))}
                f3 = Findings(res)
                iso_fnd.append(f3)
                s_, _a, _r = run_harness(res, f3, hbin, ["cases", xu, os.path.join(d, "xunit.out"), os.path.join(d, "work_xu"), "8", "40"],
                                         os.path.join(d, "xunit.out"), "cross-unit", 600, rayon=2, regen=lambda i: xu_cases.get(i))
                summaries["xunit"] = s_
        iso_thread = threading.Thread(target=run_isolated)
        iso_thread.start()
        if corpus_cases:
            # twice: with a single analysis thread (lock-protocol defects such as F4 are deterministic then) and with the default pool
            s, a, _ = run_harness(res, fnd, hbin, ["cases", corpus, os.path.join(d, "corpus1.out"), work, "4", "90"],
                                  os.path.join(d, "corpus1.out"), "corpus/1-thread-analysis", 900, rayon=1, regen=lambda i: by_id.get(i))
            summaries["corpus_single_thread"] = s
            s, a, _ = run_harness(res, fnd, hbin, ["cases", corpus, os.path.join(d, "corpus.out"), work, str(NTHREADS), "90"],
                                  os.path.join(d, "corpus.out"), "corpus", 900, regen=lambda i: by_id.get(i))
            summaries["corpus"] = s
            arenas += a
        if tier == "thorough":
            ncases, nsteps, nlsp, wd, tmo, budget, kinds = 1700, 12, 30, 300, 3400, 600, 1
        else:
            ncases, nsteps, nlsp, wd, tmo, budget, kinds = 40, 9, 6, 150, 900, 140, 2
        lsp_path = os.path.join(d, "lsp_cases.json")
        s, a, _ = run_harness(res, fnd, hbin, ["gen", str(seed()), str(ncases), str(nsteps), os.path.join(d, "gen.out"), work,
                                               str(NTHREADS), str(wd), lsp_path, str(min(ncases, 400)), str(budget), str(kinds)],
                              os.path.join(d, "gen.out"), "exploration", tmo, rayon=(2 if seed() % 2 else 4),
                              regen=lambda i: dump_case(hbin, seed(), ncases, nsteps, kinds, i))
        summaries["exploration"] = s
        arenas += a
        if os.path.exists(lsp_path):
            allc = json.load(open(lsp_path))
            lsp_cases = [c for c in allc if c["std"] in ("full", "std") and not c["family"].startswith(("kinds", "lits", "dups"))][:nlsp]
            # kind confusion through the server: the region batches (every name at every site of a region)
            regions = ("-s", "-d", "-c", "-l") if tier == "thorough" else ("-s", "-d")
            lsp_cases += [c for c in allc if c["family"] == "kinds-batch" and c["id"].endswith(regions)]
            # duplicate-file scenarios (related information positions) and, thorough only, the literal batches
            lsp_cases += [c for c in allc if c["family"] == "dups"][:(6 if tier == "thorough" else 2)]
            if tier == "thorough":
                # the python driver is the bottleneck here: one region, every 3rd literal
                for c in allc:
                    if c["family"] == "lits-batch" and c["id"].endswith("-d"):
                        c = dict(c)
                        c["edits"] = c["edits"][seed() % 3::3]
                        lsp_cases.append(c)
        # the open findings through the server as well: own library std is found through the project's own config
        iso_thread.join()
        for f2 in iso_fnd:
            for fid, h in f2.hits.items():
                h0 = fnd.hits.setdefault(fid, {"entry": h["entry"], "n": 0, "example": h["example"]})
                h0["n"] += h["n"]
        cyc = os.path.join(d, "cycles.json")
        if os.path.exists(cyc):
            cc = json.load(open(cyc))
            pick = [c for c in cc if "-shared" not in c["id"] and "-all-" not in c["id"]]
            npick = 8 if tier == "thorough" else 1
            lsp_cases += pick[seed() % max(1, len(pick))::max(1, len(pick) // npick)][:npick]
            lsp_cases += [c for c in cc if "access-via-alias" in c["id"] and "-shared" not in c["id"]][:1]
            lsp_cases += [c for c in cc if "-all-" in c["id"]][:1]
        xu = os.path.join(d, "xunit.json")
        if os.path.exists(xu):
            xc = json.load(open(xu))
            lsp_cases += xc[seed() % len(xc):][:1]
        for c in corpus_cases:
            if c["id"] in ("F28-typed-into-standard", "F27-std_logic_1164-is-entity", "F5-lexer-hang", "F4-deadlock", "F3-stale-lint",
                           "dup-all-units-duplicated", "F55-signed-bitstring-len0", "F59-access-to-itself-completion"):
                lsp_cases.append(c)

    samples = arena_correspondence(res, mbin, arenas, d)
    coq_cross_check(res, samples)
    if lsp_cases:
        lsp_stage(res, fnd, lsp_cases, d, 10 if tier == "quick" else 25)
    fnd.finish()

    tot = {"states": 0, "queries": 0, "cursors": 0, "locations_checked": 0, "diagnostics": 0, "states_with_error_diagnostics": 0,
           "cursors_resolving_to_a_declaration": 0, "completion_items": 0}
    for tag, s in summaries.items():
        if not s:
            continue
        for k in tot:
            tot[k] += s.get(k, 0)
        res.coverage.setdefault("streams", {})[tag] = {k: s.get(k) for k in ("cases", "states", "queries", "cursors", "violations", "hang", "wall_s")}
        if tag == "exploration":
            res.coverage["states_per_family"] = s.get("states_per_family")
            res.coverage["edit_kinds"] = s.get("edit_kinds")
    res.coverage.update(tot)
    res.evaluations = tot["queries"] + res.coverage.get("lsp", {}).get("requests", 0)
    # non-trivial = states whose analysis reports at least one error diagnostic (broken code) — counted by the harness
    res.coverage["distinct_nontrivial"] = tot["states_with_error_diagnostics"]
    res.coverage["evaluations"] = res.evaluations
    res.add_sample({"note": "all records: .cache/run/C03/gen.out, corpus.out (JSON lines: case / arena / violation / summary)"}, limit=6)
    res.coverage["exhaustive"] = False
    res.coverage["partial"] = True
    res.coverage["explanation"] = (
        "THEOREM half (Coq, Props/C03.v): after DesignRoot::analyze's rebuild the root arena resolves every entity id stored in "
        "any analysed unit's result to the CURRENT local arena (first-wins linking cannot pick a stale arena: ids are unique by the "
        "global counter and the reset closure covers every link; both stated as hypotheses and discharged for the model), "
        "FinalArena::get is total on linked ids, the cursor searchers (ItemAtCursor, FindAllReferences, SemanticTokenCollector, "
        "FindAllUnresolved) on any event tree return for every cursor inside or outside the text without Crash, and every position "
        "they return occurs in the tree; termination of analysis is imported from C02 (lexer) / C04 (lock protocol) / C11. "
        "EXPLORATION half (decisive for detection): the several hundred unwrap/expect/unreachable/index sites inside analysis/*.rs "
        "and completion/*.rs cannot be discharged by any model short of the analysis itself; they are exercised by incremental "
        "edit histories (character- and token-level mutations, half-typed statements, deleted `end`s, swapped units, emptied and "
        "restored files, non-Latin-1 characters) with every query of the property at sampled token boundaries and out-of-range "
        "cursors under catch_unwind + watchdog, every reported location checked against the current text, in process and through "
        "the vhdl_ls binary.")
    res.coverage["rule"] = (
        "corpus of past failures first (F4 deadlock project, `x€`, F3 history, F2, C10-F1c, representatives of the open findings); "
        "then `ncases` histories of `nsteps` edits each: families gen-ieee (generated 2-7 file project on std+ieee), gen-std (same "
        "without ieee), small (hand-written circular / duplicate / context shapes, 1/6 without library std), slice (files or 150-400 "
        "line slices of /repo/vhdl_libraries as project files), ownstd / ownieee (the project edits its own copy of std.* / "
        "ieee.std_logic_1164). Before them the systematic KIND-CONFUSION sweep on a project that declares one declaration of every "
        "kind (parameterless / all-defaulted / parameterised / overloaded procedures and functions, types of every class, literals, "
        "units, elements, objects of every class, aliases, attribute, component, packages, library, units, labels): family kinds = "
        "for each of ~120 use sites (operand, condition, case selector and choice, range bound, attribute prefix, index, slice, actual, "
        "formal, waveform, target, initial value, constraint, type mark, call, selected prefix/suffix, label, instantiated unit ...) "
        "the identifier is replaced by every name in turn (quick: one name per kind, thorough: all ~70), queries on the edited line; "
        "family kinds-batch = all sites of a region get the same name at once, for every name (also through vhdl_ls). LITERAL sweep "
        "(families lits / lits-batch) on a project with ~90 literal sites of every target type (scalars, arrays, records, ranges, "
        "bounds, choices, operands without target type, attribute arguments, conversions): ~760 literals and static expressions "
        "(bit strings: base specifier x length prefix x value; based literals incl. illegal bases/digits/exponents; integers around "
        "2^31..2^128; exponents; reals; physical literals; character/string literals; null; odd aggregates; attributes of scalars; "
        "division by zero, shifts, 'val/'pos out of range; out-of-range indexes) — batches: every literal at all sites of a region; per "
        "site a seed-rotated sample (thorough: every 2nd). Family dups: a file whose units all (or partly) duplicate another file of "
        "the library, shifted / shrunk / emptied / restored on both sides + random edits. Every state also probes ids at the arena "
        "sizes (entity_id_from_raw + format_entity = completionItem/resolve of a stale item); the LSP sessions keep old completion "
        "items and symbols and resolve / query them after later edits. Family cycles (own process): cyclic type declarations "
        "through every type-forming construct (access to itself, via alias, alias of alias, subtype, record / array element, mutually "
        "recursive access types, protected types referring to themselves, file / range / constant of itself, ...) each with objects "
        "(variable, shared variable, signal) and 40 uses that make analysis and queries walk the type (`obj.`, `obj.all.`, indexed, "
        "selected, attribute names, allocators, completion after every token of the line), alone and all together. Every LSP "
        "session runs under one of 8 server variants (--no-lint, with/without --silent, client capabilities full / default / "
        "none, initializationOptions nonProjectFiles analyze / ignore / illegal, with / without vhdl_ls.toml, configuration reload "
        "in mid-session after an unsaved shrinking edit: vhdl_ls.toml REWRITTEN over every key — standard 1993/2008/2019, "
        "preferred_case, [lint] table, library added, file dropped), rotating with the seed; the random histories themselves contain "
        "such reload steps after shrinking edits (Project::update_config in process). Family xunit (own process): for 20 kinds of "
        "entity of another design unit x 25 decorating / completing / referring constructs (attribute specifications incl. all / "
        "others / signatures, configuration specifications, aliases of aliases, bodies and full declarations, use, package instance, "
        "external name, disconnect, user attributes) x access path (use clause, selected name, local alias, alias of alias); semantic tokens must lie in the document AND cover whole lexical elements of the "
        "current text. Edits are applied through Source::change (7/8 ranged, 1/8 whole document) + update_source + analyse. "
        "After every analysis: diagnostics, then for the edited file (+1 other; all files at the first and last state) document "
        "symbols, semantic tokens, workspace symbols, unresolved references, and at <=48 cursors (2/3 within 2 lines of the edit, "
        "token starts/ends/middles by an independent scanner) + 10 out-of-range cursors (beyond line end, beyond last line, u32::MAX): "
        "find_definition, find_declaration, find_type_definition, find_implementation, item_at_cursor, list_completion_options "
        "(+format_entity of the first items), and per distinct declaration find_all_references, find_all_references_in_source, "
        "format_declaration. non-trivial = a state whose diagnostics contain an error (not only lints); evaluations = queries.")
    res.coverage["trusted_base"] = TRUSTED_BASE_COMMON + [
        "entities are an opaque payload in the arena model; which arenas an analysis links and which units are reset are data "
        "(schedule, closure set) constrained by explicit hypotheses (uses_closed = C01's users_of invariant)",
        "duplicate design units parked by Library::add_design_unit keep an arena id that the model does not track (such cases are "
        "skipped by the arena-id comparison)",
        "u32 wrap-around of the global arena counter after 2^32 allocations is outside the model (ids are unbounded N)",
        "the position check of the LSP stage re-implements LSP position semantics in python (UTF-16, CR/LF normalisation)",
    ]
    res.assumptions = [
        "queries are issued after Project::analyse (as vhdl_ls does: every didOpen/didChange is followed by publish_diagnostics)",
        "end-of-file marker excepted: the tokenizer's EOF position (Contents::end(), i.e. one past the last line terminator) and one "
        "character further are accepted as in-text",
        "termination of analysis itself is a theorem of C02/C04/C11; here it is only observed through the watchdog",
    ]
    return res.finish()
