"""C11 — Token positions are exact UTF-16 coordinates of their lexemes.

Stages: (1) Coq theorems of Props/C11.v (build, lint, Print Assumptions); (2) keyword table of the
implementation == table committed in the Coq model; (3) corpus, exhaustive short strings and random
token soups through the implementation (harness `c11`, which also runs the implementation-level
ORACLE of the property) and through the extracted model (`c11_run`); (4) a sample re-evaluated
inside Coq with vm_compute."""
import os
import re
import json
import resource
from vlib.common import *

PROP = "C11"


def case_text(line):
    f = line.split()
    nums = [int(x) for x in f[1:]]
    if f and f[0] == "E" and nums:
        # E <m> <start order cuts...> <code points>: the text under test is what follows the header
        return f[0], nums[1 + nums[0]:]
    return (f[0] if f else "U"), nums


def edit_header(line):
    f = line.split()
    nums = [int(x) for x in f[1:]]
    return nums[1:1 + nums[0]] if f and f[0] == "E" and nums else []


def describe_history(line):
    h = edit_header(line)
    if not h:
        return None
    return ("document %s; the text is cut at character offsets %s (a cut between CR and LF moves behind the LF) and the "
            "pieces are inserted by ranged Source::change calls %s; tokenised afterwards"
            % (["opened empty", "opened with ASCII text and emptied by a ranged delete", "opened with the line `signal keep : bit;`, which stays (it is part of the final text)"][min(h[0], 2)],
               h[2:], ["one after the other at the end", "last piece first, each at 0:0 (so the kept line, if any, ends up behind)",
                       "first, last, then the middle ones"][min(h[1], 2)]))


def describe(ctag, cps):
    if ctag == "B" and len(cps) == 4:
        return ("file on disk built by harness border_file(border=%d, delta=%d, eol=%s, high_bytes=%d): line ending "
                "starting at byte offset border-1+delta" % (cps[0], cps[1] - 1000, ["LF", "CR", "CRLF"][min(cps[2], 2)], cps[3]))
    if len(cps) > 4000:
        return printable(cps[:300]) + " ... (%d characters) ... " % len(cps) + printable(cps[-300:])
    return printable(cps)


def printable(cps):
    return "".join(chr(c) for c in cps).encode("unicode_escape").decode("ascii")


def nontrivial(tag, cps, impl_diags):
    """multi-unit or non-ASCII character, TAB, CR, a lexical error, or a Latin-1 file case"""
    return tag in ("L", "B", "E") or bool(impl_diags) or any(c > 126 or c == 13 or c == 9 for c in cps)


def open_findings():
    out = []
    for e in known_findings(PROP):
        if e.get("kind") == "open" and "oracle_regex" in e.get("match", {}):
            out.append((e.get("id", "?"), re.compile(e["match"]["oracle_regex"]), e))
    return out


def harness_cmd(hbin, mode, n, cases, impl, tmp):
    return [hbin, mode, str(seed()), str(n), cases, impl, tmp]


def limit_as():
    # a regression of F5 is a loop that allocates diagnostics for ever: cap the address space
    try:
        resource.setrlimit(resource.RLIMIT_AS, (12 << 30, 12 << 30))
    except Exception:
        pass


class Stats:
    def __init__(self):
        self.tokens = 0
        self.comments = 0
        self.diag_codes = {}
        self.kinds = {}
        self.sizes = {}
        self.kinds_of_case = {"U": 0, "L": 0}
        self.multiunit = 0
        self.nonlatin = 0
        self.cr = 0


def account(st, tag, cps, it, idg):
    st.kinds_of_case[tag] = st.kinds_of_case.get(tag, 0) + 1
    if tag == "B":
        st.tokens += len(it.split(";")) if it else 0
        return
    b = min(len(cps) // 10 * 10, 100)
    st.sizes[b] = st.sizes.get(b, 0) + 1
    if any(c > 65535 for c in cps):
        st.multiunit += 1
    if any(c > 255 for c in cps):
        st.nonlatin += 1
    if 13 in cps:
        st.cr += 1
    if it:
        for t in it.split(";"):
            st.tokens += 1
            f = t.split(",")
            k = f[0] if not f[0].startswith("kw:") else "keyword"
            st.kinds[k] = st.kinds.get(k, 0) + 1
            if len(f) >= 5:
                st.comments += (f[3].count("+") + 1 if f[3] else 0) + (0 if f[4] == "-" else 1)
    if idg:
        for e in idg.split(";"):
            c = e.split(",")[1]
            st.diag_codes[c] = st.diag_codes.get(c, 0) + 1


def compare(res, st, tag, cases, impl, model, sample_every, findings, seen_known, pending):
    sampled = []
    n = 0
    with open(cases) as fc, open(impl) as fi, open(model) as fm:
        for c, i, m in zip(fc, fi, fm):
            n += 1
            c = c.rstrip("\n")
            ctag, cps = case_text(c)
            it, idg, io = (i.rstrip("\n").split("|", 2) + ["", ""])[:3]
            mt, mdg, mf = (m.rstrip("\n").split("|", 2) + ["", ""])[:3]
            res.count_case(c, nontrivial(ctag, cps, idg))
            account(st, ctag, cps, it, idg)
            if n % 4000 == 1:
                res.add_sample({"case": c, "text": describe(ctag, cps), "impl_tokens": it[:300], "impl_diagnostics": idg[:200]})
            if sample_every and n % sample_every == 0 and mf and not mf.startswith(("HANG", "SKIP")) and ctag != "B" and len(cps) <= 120:
                sampled.append((c, mf))
            bad = None
            kind = "input"
            if io.startswith("HANG"):
                bad = "the tokenizer does not terminate on this input (%s)" % io
            elif io.startswith("PANIC"):
                bad = "the tokenizer panics on this input (%s)" % io
            elif io != "OK":
                known = None
                for fid, rx, entry in findings:
                    if rx.search(io):
                        known = (fid, entry)
                        break
                if known:
                    if known[0] not in seen_known:
                        seen_known[known[0]] = 0
                        res.known_finding("%s input=%s :: %s" % (known[0], json.dumps(printable(cps)), io[:200]))
                    seen_known[known[0]] += 1
                else:
                    bad = "token position/lexeme property violated by the implementation: " + io[:300]
            if bad:
                if len(pending["input"]) < 6:
                    pending["input"].append((bad, {"kind": kind, "case": c, "text": describe(ctag, cps), "edit_history": describe_history(c), "impl_tokens": it,
                                                   "impl_diagnostics": idg, "oracle": io, "model_tokens": mt,
                                                   "model_diagnostics": mdg,
                                                   "replay_cmd": "./check C11 --replay <this file>"}))
                pending["n_input"] += 1
            elif mf == "SKIP":
                pass        # large file: implementation-level oracle only
            elif (it, idg) != (mt, mdg) and not io.startswith(("HANG", "PANIC")):
                if len(pending["corr"]) < 4:
                    pending["corr"].append((
                        "correspondence broken: tokens/diagnostics of the implementation differ from the Coq model "
                        "RH.Lex.LangLexer.lex_all although the position oracle is satisfied",
                        {"kind": "correspondence", "correspondence": "TokenStream::new vs RH.Lex.LangLexer.lex_all",
                         "case": c, "text": describe(ctag, cps), "impl_tokens": it, "impl_diagnostics": idg,
                         "model_tokens": mt, "model_diagnostics": mdg,
                         "replay_cmd": "./check C11 --replay <this file>"}))
                pending["n_corr"] += 1
    res.coverage.setdefault("streams", {})[tag] = n
    return sampled


def coq_cross_check(res, sampled):
    if not sampled:
        return
    items = []
    for c, mf in sampled:
        ctag, cps = case_text(c)
        items.append("(%s, [%s], [%s])" % ("true" if ctag == "L" else "false", "; ".join(str(x) for x in cps),
                                             "; ".join(mf.split())))
    pre = ("From Coq Require Import List NArith Bool.\nImport ListNotations.\n"
           "From RH Require Import Text.Contents Text.Reader Lex.LangLexer.\nOpen Scope N_scope.\n"
           "Definition nsb (x y : list N) : bool := if list_eq_dec N.eq_dec x y then true else false.\n"
           "Definition cases : list (bool * list N * list N) := [\n" + ";\n".join(items) + "].\n")
    body = ("forallb (fun c : bool * list N * list N => match c with (l, s, exp) => "
            "nsb (flat_outcome (if l then lex_latin1_file s else lex_all s)) exp end) cases")
    v, log = coq_eval_bool(PROP, "sample", pre, body)
    res.coverage["in_coq_vm_compute_cases"] = len(items)
    if v is not True:
        res.violation("extracted model and in-Coq evaluation (vm_compute) of lex_all disagree on the sampled cases",
                      {"kind": "correspondence", "correspondence": "extraction vs vm_compute (RH.Lex.LangLexer.lex_all)",
                       "log": log[-2000:]}, no_failing_input=True)


def main(tier, replay=None):
    res = Result(PROP, tier, level="proof")
    d = rundir(PROP)
    tmp = os.path.join(d, "tmp")
    proof_stage(res, PROP, thorough=(tier == "thorough"))
    ok, log, hbin = harness_build("c11")
    if not ok:
        res.violation("harness build failed against the current /repo tree", {"kind": "build", "log": log[-3000:]},
                      no_failing_input=True)
        return res.finish()
    ok, log, mbin = ocaml_build("c11_run")
    if not ok:
        res.violation("extracted model build failed", {"kind": "build", "log": log[-3000:]}, no_failing_input=True)
        return res.finish()

    # keyword table: implementation (VHDLStandard::default().keywords() through kind_str) vs Coq model
    rc1, kw_impl = run([hbin, "keywords"], timeout=60)
    rc2, kw_model = run([mbin, "keywords"], timeout=60)
    res.coverage["keywords"] = len(kw_impl.split())
    if rc1 != 0 or rc2 != 0 or kw_impl.split() != kw_model.split() or not kw_impl.split():
        res.violation("keyword table of the implementation differs from RH.Lex.LangLexer.keywords_2008",
                      {"kind": "correspondence", "correspondence": "VHDLStandard::keywords vs keywords_2008",
                       "impl": kw_impl.split(), "model": kw_model.split()}, no_failing_input=True)

    findings = open_findings()
    seen_known = {}
    # violations are reported at the end: inputs that violate the property first, then pure model/code differences
    pending = {"input": [], "corr": [], "n_input": 0, "n_corr": 0}
    st = Stats()

    def stream(tag, mode, n, sample_every):
        cases, impl, model = (os.path.join(d, "%s.%s" % (tag, x)) for x in ("cases", "impl", "model"))
        for p in (cases, impl, model):
            if os.path.exists(p):
                os.remove(p)
        try:
            p = subprocess.run(harness_cmd(hbin, mode, n, cases, impl, tmp), stdout=subprocess.PIPE,
                               stderr=subprocess.STDOUT, timeout=3000, preexec_fn=limit_as, env=env_base())
            rc, out = p.returncode, p.stdout.decode("utf-8", "replace")
        except subprocess.TimeoutExpired:
            rc, out = 124, "timeout"
        if rc != 0:
            # the case in flight is the last line of the cases file
            last = ""
            if os.path.exists(cases):
                with open(cases) as f:
                    for last in f:
                        pass
            last = last.rstrip("\n")
            ctag, cps = case_text(last) if last else ("U", [])
            res.violation("the tokenizer hangs, exhausts memory or crashes the process on this input (harness rc=%s)" % rc,
                          {"kind": "input", "case": last, "text": describe(ctag, cps), "log": out[-1500:],
                           "replay_cmd": "./check C11 --replay <this file>"})
            # compare what was completed (the impl file has one line per finished case)
        if not os.path.exists(cases) or not os.path.exists(impl):
            return []
        with open(cases) as fin, open(model, "w") as fout:
            p = subprocess.run([mbin], stdin=fin, stdout=fout)
        if p.returncode != 0:
            res.violation("extracted model runner failed", {"kind": "build"}, no_failing_input=True)
            return []
        return compare(res, st, tag, cases, impl, model, sample_every, findings, seen_known, pending)

    sampled = []
    if replay:
        rp = json.load(open(replay))
        path = os.path.join(d, "replay.in")
        open(path, "w").write(rp["case"] + "\n")
        sampled += stream("replay", "file:" + path, 0, 1)
    else:
        corpus = os.path.join(VERIF, "corpus", "C11.cases")
        if os.path.exists(corpus):
            sampled += stream("corpus", "file:" + corpus, 0, 1)
        sampled += stream("exhaustive", "exhaustive4" if tier == "thorough" else "exhaustive3", 0,
                          4001 if tier == "thorough" else 301)
        sampled += stream("random", "random", 1000000 if tier == "thorough" else 20000,
                          5003 if tier == "thorough" else 211)
        # files on disk whose line endings (CRLF, CR, LF; Latin-1 high bytes next to them) fall on and around the
        # borders of 4 KiB .. 256 KiB blocks: the tokens behind the border are checked against the bytes of the file
        stream("borders", "borders_thorough" if tier == "thorough" else "borders", 0, 0)
        # texts reached through an edit history (document opened empty / emptied / kept, then 1-4 ranged changes):
        # tokens(history-built source) = lex_all(final text), oracle against the final text of the client
        sampled += stream("edits", "edits", 0, 397)
    for what, obj in pending["input"]:
        res.violation(what, obj)
    for what, obj in pending["corr"]:
        res.violation(what, obj, no_failing_input=True)
    res.coverage["property_violating_inputs"] = pending["n_input"]
    res.coverage["correspondence_differences"] = pending["n_corr"]
    coq_cross_check(res, sampled[:260])

    for fid, cnt in seen_known.items():
        res.coverage.setdefault("known_finding_hits", {})[fid] = cnt
    res.coverage["exhaustive"] = False
    res.coverage["tokens_checked_by_oracle"] = st.tokens
    res.coverage["comments_checked"] = st.comments
    res.coverage["case_kinds"] = st.kinds_of_case
    res.coverage["input_length_histogram"] = {str(k): v for k, v in sorted(st.sizes.items())}
    res.coverage["token_kinds"] = dict(sorted(st.kinds.items(), key=lambda kv: -kv[1]))
    res.coverage["diagnostic_codes"] = dict(sorted(st.diag_codes.items(), key=lambda kv: int(kv[0])))
    res.coverage["cases_with_supplementary_plane_char"] = st.multiunit
    res.coverage["cases_with_non_latin1_char"] = st.nonlatin
    res.coverage["cases_with_CR"] = st.cr
    res.coverage["rule"] = (
        "corpus of minimised inputs first (F5 witnesses `x<euro>` etc., bit strings after multi-unit characters, "
        "line breaks inside character literals, the open finding); all strings of length <= 3 (thorough: 4) over the "
        "23-symbol alphabet {x b e 1 _ \" ' \\ # . - / * SP LF CR euro U+1F600 e-acute ? = ` :}; random inputs from seed: "
        "30% clean token soups (identifiers, keywords in random case, all delimiters, decimal/based/real literals, bit "
        "strings, strings, extended identifiers, character literals; gaps of blanks, tabs, LF/CR/CRLF, line and block "
        "comments holding non-Latin-1 and supplementary-plane characters), 40% dirty soups (every TokenError kind: bad "
        "digits, overflow, exponents, unterminated/multi-line strings, illegal tokens, non-Latin-1 after identifiers, "
        "tool directives, `vhdl_ls off/on` pragmas, no gap between lexemes), 10% random characters over a 40-symbol "
        "alphabet, 20% Latin-1 FILES (bytes written to disk, read with Source::from_latin1_file, sliced by bytes). "
        "one text in eight starts with or contains one of U+FEFF U+2028 U+2029 NEL FF VT NUL U+FFFE U+200B NBSP; "
        "stream `borders`: files on disk (Source::from_latin1_file) with CRLF at every offset within +-8 of the 4 KiB, "
        "8 KiB, 64 KiB and 128 KiB borders, CR/LF at +-1, Latin-1 high bytes next to the border (thorough: 16/32/192/256 "
        "KiB too, all three line endings at all offsets); files above 16 KiB are checked by the oracle against the bytes "
        "of the file only (two of them also by the model). "
        "`E` cases (one random text in eight, and the systematic stream `edits`: 14 texts x 3 start kinds (opened empty, "
        "emptied by a ranged delete, ASCII line kept) x 3 insertion orders x every single cut and some double cuts): the "
        "text is assembled by Source::change calls with a range and tokenised afterwards; oracle and model see the final "
        "text. non-trivial = the input has a non-ASCII or multi-unit character, TAB or CR, or a lexical diagnostic, or is a "
        "file case; distinct by hash of the case line")
    res.coverage["trusted_base"] = TRUSTED_BASE_COMMON + [
        "characters are Unicode scalars in the model (UTF-8 byte offsets `idx` are computed from them); Latin-1 file "
        "decoding is modelled as the identity on code points 0..255 (checked against from_latin1_file by the L cases)",
        "the f64 value of real literals is not modelled (value = literal text; acceptance by str::parse::<f64> is)",
        "u32 overflow of line/column counters is not modelled (inputs are far below 2^32 columns)",
        "Tokenizer::get_final_comments (dead code) and the tokens swallowed by tool directives / ignored regions are "
        "not observable through TokenStream and are compared only through their effect on later tokens and diagnostics",
    ]
    res.coverage["partial"] = False
    res.coverage["explanation"] = (
        "proved for all inputs (Props/C11.v): the tokenizer terminates (F5 regression) and never panics "
        "(lex_all_done), the reader invariant, consumed text = slice between positions, slice = lexeme for every "
        "token (token_text_exact), well-ordered non-overlapping ranges, comments between neighbours, Latin-1 files "
        "one column per byte, value_at of bit strings, and re-lexing (C11_relex): for EVERY token of the stream, "
        "lexing its slice alone yields exactly one token with the same kind and value (identifiers, keywords, "
        "extended identifiers, string / bit-string / abstract literals by a simulation of each parse_token arm on "
        "the one-lexeme document, Lex/LangLexerRelex2-4.v; delimiters and character literals by finite evaluation), "
        "with no diagnostic except the warning of an invalid basic identifier (C11_relex_clean_*).  The "
        "implementation-level relex oracle still runs over all generated inputs; the model is tied to the code by "
        "the differential run.")
    res.coverage["unproved"] = []
    res.assumptions = [
        "a token's lexeme is compared up to letter case for basic identifiers and keywords; strings and extended "
        "identifiers are re-escaped (doubled quote/backslash); a line break inside a token counts as LF",
        "diagnostics produced while re-lexing a slice (identifier warnings) are not part of the comparison",
    ]
    return res.finish()
