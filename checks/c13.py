"""C13 — Analysis is insensitive to layout, comments and letter case.

Stages: (1) Coq theorems of Props/C13.v (build, lint, Print Assumptions); (2) correspondence of the
symbol-table / lower-case-table / keyword-lookup model (Symtab/Symtab.v, Symtab/SymtabCase.v, extracted
as `c13_run`) with `SymbolTable`, `Latin1String::lowercase` and the tokenizer's keyword test of the
implementation (harness `c13 sym`), each case also judged by an independent statement of the property
(ids equal iff normalised spellings equal); the implementation's keyword table against the table of
the lexer model; (3) the decisive ORACLE: harvested + hand-made + generated multi-file projects are
analysed with `Project::analyse()` (linters on) as they are and after token-preserving re-layouts,
comment insertions/deletions and case permutations of keywords and basic identifiers, diagnostics
compared through the token-index map (harness `c13 proj`); (4) a sample of (2) re-evaluated inside Coq."""
import json
import os
import re
import subprocess
from vlib.common import *

PROP = "C13"
STD = "/repo/vhdl_libraries"
MODES = {1: "respace", 2: "comments", 4: "case", 7: "respace+comments+case", 8: "join-onto-one-line", 16: "one-token-per-line",
         64 | 32: "one-file-only:header-lines", 64 | 8: "one-file-only:join", 64 | 16: "one-file-only:one-token-per-line",
         64 | 3: "one-file-only:respace+comments"}


# ---------------------------------------------------------------------------------------------
# the property, stated independently of model and implementation (python): Latin-1 lower case
# ---------------------------------------------------------------------------------------------
def spec_lower(c):
    if c == 215:
        return c
    if 65 <= c <= 90 or 192 <= c <= 222:
        return c + 32
    return c


def spec_norm(name):
    if name[:1] == b"\\":
        return ("x", name)
    return ("b", bytes(spec_lower(c) for c in name))


def unhex(h):
    return b"" if h == "-" else bytes.fromhex(h)


def show(name):
    return name.decode("latin-1").encode("unicode_escape").decode("ascii")


def judge_sym(line, impl, kwnames, init):
    """None if the implementation's answer satisfies the property on this case, else a description."""
    f = line.split()
    if not f:
        return None
    if impl == "PANIC":
        return "the implementation panics"
    if f[0] == "L":
        got = impl.split()
        if len(got) != 256:
            return "lower-case table has %d entries" % len(got)
        for c in range(256):
            if int(got[c]) != spec_lower(c):
                return "Latin1String::lowercase(%d) = %s, the Latin-1 table says %d" % (c, got[c], spec_lower(c))
        return None
    if f[0] in ("S0", "S1"):
        names = [unhex(h) for h in f[1:]]
        try:
            ids = [int(x) for x in impl.split()]
        except ValueError:
            return "unreadable answer " + impl[:80]
        if len(ids) != len(names):
            return "%d ids for %d names" % (len(ids), len(names))
        if any(i < 0 for i in ids):
            return "a returned symbol does not carry the inserted spelling or has no id (%s)" % impl[:80]
        pre = []
        if f[0] == "S1":
            pre = [(n, i) for i, n in enumerate(init)]      # keywords and attributes: inserted first
        allv = pre + list(zip(names, ids))
        for i in range(len(pre), len(allv)):
            for j in range(i):
                a, ia = allv[i]
                b, ib = allv[j]
                if j < len(pre) and j >= len(kwnames):
                    # ids of builtin attributes are not fixed by position (duplicates in the list)
                    continue
                same = spec_norm(a) == spec_norm(b)
                if same != (ia == ib):
                    return ("symbols of '%s' (id %d) and '%s' (id %d) are %s although the identifiers are %s"
                            % (show(a), ia, show(b), ib, "equal" if ia == ib else "different",
                               "the same" if same else "different"))
        return None
    if f[0] == "K":
        name = unhex(f[1])
        low = bytes(spec_lower(c) for c in name)
        exp = "kw:%d" % kwnames.index(low) if low in kwnames else "id"
        if not re.fullmatch(rb"[A-Za-z][A-Za-z0-9_]*", name):
            return None
        if impl != exp:
            return "the text '%s' is lexed as %s, expected %s" % (show(name), impl, exp)
        return None
    return None


# ---------------------------------------------------------------------------------------------
# project corpora
# ---------------------------------------------------------------------------------------------
def read_latin1(path):
    return open(path, "rb").read().decode("latin-1")


USER_1164 = """library ieee;
use ieee.std_logic_1164.all;

entity top is
  port (a, b : in std_logic; v : in std_logic_vector(3 downto 0); y : out std_ulogic; w : out std_logic_vector(3 downto 0));
end entity;

architecture rtl of top is
  signal s : STD_LOGIC := 'U';
  signal t : Std_Ulogic_Vector(3 downto 0);
  signal unused_sig : std_logic;
begin
  s <= a and b;
  y <= to_x01(s) when rising_edge(a) else 'Z';
  w <= v xor "10ZX";
  t <= To_StdULogicVector(v);
  p : process (a)
  begin
    if Is_X(v) then
      report "unknown" severity warning;
    end if;
    s <= missing_name;
  end process;
end architecture;
"""

USER_NUMERIC = """library ieee;
use ieee.std_logic_1164.all;
use ieee.numeric_std.all;

entity cnt is
  port (clk : in std_logic; q : out unsigned(7 downto 0));
end entity;

architecture rtl of cnt is
  signal c : UNSIGNED(7 downto 0) := (others => '0');
begin
  process (clk)
  begin
    if rising_edge(clk) then
      c <= c + 1;
      c <= resize(c, 8) + to_unsigned(3, 8) + "1";
    end if;
  end process;
  q <= c when to_integer(c) < 16#F0# else shift_left(C, 1);
end architecture;
"""


def library_projects(tier):
    """Harvested: the bundled ieee sources themselves are transformed (they are ordinary project files
    of a library named ieee here; std stays untouched)."""
    out = []
    i1164 = [["std_logic_1164.vhdl", read_latin1(STD + "/ieee2008/std_logic_1164.vhdl")],
             ["std_logic_1164-body.vhdl", read_latin1(STD + "/ieee2008/std_logic_1164-body.vhdl")]]
    out.append({"id": "H:ieee:std_logic_1164", "libs": {"ieee": i1164, "lib": [["top.vhd", USER_1164]]}})
    if tier == "thorough":
        num = [["numeric_std.vhdl", read_latin1(STD + "/ieee2008/numeric_std.vhdl")],
               ["numeric_std-body.vhdl", read_latin1(STD + "/ieee2008/numeric_std-body.vhdl")]]
        out.append({"id": "H:ieee:numeric_std", "libs": {"ieee": i1164 + num, "lib": [["cnt.vhd", USER_NUMERIC]]}})
        syn = [["std_logic_arith.vhdl", read_latin1(STD + "/synopsys/std_logic_arith.vhdl")],
               ["std_logic_unsigned.vhdl", read_latin1(STD + "/synopsys/std_logic_unsigned.vhdl")]]
        out.append({"id": "H:ieee:synopsys", "libs": {"ieee": i1164 + syn, "lib": [["top.vhd", USER_1164]]}})
    return out


def open_findings():
    out = []
    for e in known_findings(PROP):
        if e.get("kind") == "open" and "detail_regex" in e.get("match", {}):
            out.append((e.get("id", "?"), re.compile(e["match"]["detail_regex"]), e))
    return out


# ---------------------------------------------------------------------------------------------
def sym_stage(res, d, hbin, mbin, tier, only_line=None):
    rc, out = run([hbin, "init"], timeout=120)
    lines = out.split()
    if rc != 0 or len(lines) < 10:
        res.violation("harness `c13 init` failed", {"kind": "build", "log": out[-2000:]}, no_failing_input=True)
        return None
    nkw = int(lines[0])
    init = [unhex(h) for h in lines[1:]]
    kwnames = init[:nkw]
    res.coverage["keywords"] = nkw
    res.coverage["builtin_attribute_names_preinserted"] = len(init) - nkw
    # hypotheses of C13_keyword_lookup_case_insensitive (kw_table_ok) on the implementation's table
    if len(set(kwnames)) != nkw or any(k != bytes(spec_lower(c) for c in k) or k[:1] == b"\\" for k in kwnames):
        res.violation("the keyword table of the implementation is not a duplicate-free list of lower-case basic "
                      "identifiers (hypothesis kw_table_ok of C13_keyword_lookup_case_insensitive)",
                      {"kind": "correspondence", "correspondence": "VHDLStandard::keywords", "keywords": [show(k) for k in kwnames]},
                      no_failing_input=True)
    init_line = "I %d %s" % (nkw, " ".join(lines[1:]))
    streams = []
    if only_line is not None:
        p = os.path.join(d, "replay.cases")
        open(p, "w").write(only_line + "\n")
        streams.append(("replay", p, None))
    else:
        corpus = os.path.join(VERIF, "corpus", "C13.cases")
        if os.path.exists(corpus):
            p = os.path.join(d, "corpus.cases")
            with open(corpus) as f, open(p, "w") as g:
                for l in f:
                    if l.strip() and not l.startswith("#"):
                        g.write(l)
            streams.append(("corpus", p, None))
        streams.append(("random", os.path.join(d, "sym.cases"), 60000 if tier == "thorough" else 4000))
    stats = {"L": 0, "S0": 0, "S1": 0, "K": 0, "names": 0, "with_latin1_letters": 0, "with_extended": 0,
             "with_case_variants": 0}
    sample = []
    nviol = 0
    ncorr = 0
    for tag, cases, n in streams:
        impl = os.path.join(d, tag + ".impl")
        model = os.path.join(d, tag + ".model")
        if n is not None:
            rc, out = run([hbin, "sym", str(seed()), str(n), cases, impl], timeout=3000)
        else:
            rc, out = run([hbin, "symcase", cases, impl], timeout=3000)
        if rc != 0:
            res.violation("harness `c13 sym` failed (rc=%s)" % rc, {"kind": "build", "log": out[-2000:]}, no_failing_input=True)
            continue
        with open(model, "w") as fo:
            p = subprocess.run([mbin], input=(init_line + "\n" + open(cases).read()).encode(), stdout=fo)
        if p.returncode != 0:
            res.violation("extracted model runner c13_run failed", {"kind": "build"}, no_failing_input=True)
            continue
        k = 0
        for c, i, m in zip(open(cases), open(impl), open(model)):
            c, i, m = c.rstrip("\n"), i.rstrip("\n"), m.rstrip("\n")
            k += 1
            f = c.split()
            stats[f[0]] = stats.get(f[0], 0) + 1
            names = [unhex(h) for h in f[1:]]
            stats["names"] += len(names)
            l1 = any(any(x >= 192 for x in nm) for nm in names)
            ext = any(nm[:1] == b"\\" for nm in names)
            norms = [spec_norm(nm) for nm in names]
            variants = len(set(norms)) < len(set(names))
            stats["with_latin1_letters"] += l1
            stats["with_extended"] += ext
            stats["with_case_variants"] += variants
            res.count_case("sym " + c, l1 or ext or variants or f[0] in ("L", "K"))
            if k % 997 == 3:
                res.add_sample({"symbol_table_case": c, "names": [show(x) for x in names], "impl": i[:200]}, limit=3)
            bad = judge_sym(c, i, kwnames, init)
            if bad:
                nviol += 1
                if nviol <= 3:
                    res.violation("symbol table / lower-case table / keyword lookup violates the property: " + bad,
                                  {"kind": "symcase", "case": c, "names": [show(x) for x in names], "impl": i, "model": m,
                                   "replay_cmd": "./check C13 --replay <this file>"})
            elif i != m:
                ncorr += 1
                if ncorr <= 3:
                    res.violation("correspondence broken: the implementation and the Coq model RH.Symtab disagree on a case "
                                  "on which the implementation still satisfies the property",
                                  {"kind": "symcase", "correspondence": "SymbolTable/Latin1String::lowercase/insert_or_keyword vs RH.Symtab.SymtabCase",
                                   "case": c, "names": [show(x) for x in names], "impl": i, "model": m,
                                   "replay_cmd": "./check C13 --replay <this file>"}, no_failing_input=True)
            elif len(sample) < 60 and (k % 41 == 0 or f[0] == "L"):
                sample.append((c, i))
    res.coverage["symbol_table_cases"] = stats
    res.coverage["symbol_table_property_violations"] = nviol
    res.coverage["symbol_table_correspondence_differences"] = ncorr
    return {"nkw": nkw, "init": init, "sample": sample}


def coq_cross_check(res, info):
    """a sample of the symbol-table cases evaluated inside Coq (vm_compute) against the IMPLEMENTATION's answers,
    and the implementation's keyword table against the keyword table of the lexer model"""
    if not info:
        return
    def nl(name):
        return "[" + "; ".join(str(c) for c in name) + "]"
    init = "[" + ";\n ".join(nl(n) for n in info["init"]) + "]"
    items = []
    for c, i in info["sample"]:
        f = c.split()
        if f[0] == "L":
            items.append("nlb lower_all [%s]" % "; ".join(i.split()))
        elif f[0] in ("S0", "S1"):
            names = "[" + "; ".join(nl(unhex(h)) for h in f[1:]) + "]"
            if f[0] == "S1":
                items.append("onlb (match init_t with Some t => insert_ids t %s | None => None end) [%s]" % (names, "; ".join(i.split())))
            else:
                items.append("onlb (ids_from [] %s) [%s]" % (names, "; ".join(i.split())))
        elif f[0] == "K" and (i.startswith("kw:") or i == "id"):
            exp = "Some (Some %s)" % i[3:] if i.startswith("kw:") else "Some None"
            items.append("okb (match init_t with Some t => match insert lower_latin1 t %s with Some (_, s) => "
                         "Some (if Nat.ltb (s_id s) %d then Some (s_id s) else None) | None => None end | None => None end) (%s)"
                         % (nl(unhex(f[1])), info["nkw"], exp))
    pre = ("From Coq Require Import List Arith NArith Bool.\nImport ListNotations.\n"
           "From RH Require Import Symtab.Symtab Symtab.SymtabCase Lex.LangLexer.\nLocal Open Scope nat_scope.\n"
           "Definition nlb (x y : list nat) : bool := if list_eq_dec Nat.eq_dec x y then true else false.\n"
           "Definition onlb (x : option (list nat)) (y : list nat) : bool := match x with Some l => nlb l y | None => false end.\n"
           "Definition okb (x y : option (option nat)) : bool := match x, y with\n"
           "  | Some (Some a), Some (Some b) => Nat.eqb a b | Some None, Some None => true | _, _ => false end.\n"
           "Definition init : list name := %s.\n"
           "(* `ids_from init ns` and `kw_index nkw init n` unfold to these calls on the table after `init` *)\n"
           "Definition init_t : option table := Eval vm_compute in (run lower_latin1 [] init).\n" % init)
    body = ("(if list_eq_dec (list_eq_dec Nat.eq_dec) (map to_name keywords_2008) (firstn %d init) then true else false)"
            % info["nkw"])
    for it in items:
        body += "\n  && " + it
    v, log = coq_eval_bool(PROP, "sample", pre, body)
    res.coverage["in_coq_vm_compute_cases"] = len(items) + 1
    if v is not True:
        res.violation("in-Coq evaluation (vm_compute) of the symbol-table model disagrees with the implementation on the "
                      "sampled cases, or the implementation's keyword table differs from RH.Lex.LangLexer.keywords_2008",
                      {"kind": "correspondence", "correspondence": "vm_compute of RH.Symtab.SymtabCase.{ids_from,kw_index,lower_all} vs implementation",
                       "log": log[-2000:]}, no_failing_input=True)


def oracle_stage(res, d, hbin, tier):
    findings = open_findings()
    proj_in = os.path.join(d, "projects.jsonl")
    nin = 0
    with open(proj_in, "w") as g:
        # the big library projects first: they are the long pole of the parallel run
        for pr in library_projects(tier):
            g.write(json.dumps(pr) + "\n")
            nin += 1
        for name in ("C13.projects.jsonl", "C13.harvest.jsonl"):
            p = os.path.join(VERIF, "corpus", name)
            if os.path.exists(p):
                for l in open(p):
                    if l.strip() and not l.startswith("#"):
                        g.write(l if l.endswith("\n") else l + "\n")
                        nin += 1
    ngen, ntrans = (3000, 14) if tier == "thorough" else (100, 7)
    out = os.path.join(d, "oracle.jsonl")
    if os.path.exists(out):
        os.remove(out)
    work = os.path.join(d, "work")
    rc, log = run([hbin, "proj", str(seed()), str(ngen), str(ntrans), proj_in, out, work, "16"], timeout=3400)
    if rc != 0 or not os.path.exists(out):
        res.violation("harness `c13 proj` failed (rc=%s): the analysis crashed the process or hangs" % rc,
                      {"kind": "build", "log": log[-3000:]}, no_failing_input=True)
        return
    verdicts = {}
    by_mode = {}
    codes = {}
    tot = {"changed_case": 0, "changed_gaps": 0, "comments_added": 0, "comments_removed": 0, "files_kept": 0}
    projects = set()
    with_diag = set()
    with_syntax = set()
    tokens = 0
    seen_known = {}
    nbad = 0
    for l in open(out):
        r = json.loads(l)
        v = r["verdict"]
        verdicts[v] = verdicts.get(v, 0) + 1
        m = MODES.get(r["mode"], str(r["mode"]))
        by_mode[m] = by_mode.get(m, 0) + 1
        if r["id"] not in projects:
            projects.add(r["id"])
            tokens += r["ntokens"]
            for c, n in r["codes"].items():
                codes[c] = codes.get(c, 0) + n
            if r["ndiag"]:
                with_diag.add(r["id"])
            if "SyntaxError" in r["codes"]:
                with_syntax.add(r["id"])
        changed = 0
        for k in tot:
            tot[k] += r[k]
            if k != "files_kept":
                changed += r[k]
        res.count_case("proj %s %s %s" % (r["id"], r["k"], r["tseed"]), r["ndiag"] > 0 and changed > 0)
        if r["id"].startswith("G:") and r["k"] in (3, 4) and r["ndiag"] > 0:
            res.add_sample({"project": r["id"], "transformation": m, "diagnostics_of_original": r["ndiag"],
                            "codes": r["codes"], "tokens": r["ntokens"], "case_changed_tokens": r["changed_case"],
                            "gaps_changed": r["changed_gaps"], "comments_added": r["comments_added"], "verdict": v}, limit=6)
        if v in ("OK", "BOTHPANIC"):
            continue
        known = None
        for fid, rx, entry in findings:
            if rx.search(r["detail"]):
                known = fid
                break
        if known:
            if known not in seen_known:
                seen_known[known] = 0
                res.known_finding("%s project=%s transformation=%s :: %s" % (known, r["id"], m, r["detail"][:300]))
            seen_known[known] += 1
            continue
        nbad += 1
        if nbad <= 4:
            what = {"MISMATCH": "diagnostics differ between a project and its token-preserving transformation (%s): %s",
                    "LEXDIFF": "the token stream (kinds, values, symbol ids) changes under a token-preserving transformation (%s): %s",
                    "PANIC": "panic while transforming/comparing (%s): %s"}.get(v, "%s %s")
            res.violation(what % (m, r["detail"][:500]),
                          {"kind": "oracle", "id": r["id"], "mode": r["mode"], "transformation": m, "tseed": r["tseed"],
                           "verdict": v, "detail": r["detail"], "orig": r.get("orig"), "trans": r.get("trans"),
                           "replay_cmd": "./check C13 --replay <this file>"})
    res.coverage["oracle"] = {
        "projects": len(projects), "projects_from_corpus_and_harvest": nin, "projects_generated": ngen,
        "transformations_per_project": ntrans, "comparisons": sum(verdicts.values()), "verdicts": verdicts,
        "comparisons_by_transformation": by_mode, "projects_with_diagnostics": len(with_diag),
        "projects_with_syntax_errors": len(with_syntax), "tokens_in_projects": tokens,
        "diagnostic_codes_of_originals": dict(sorted(codes.items(), key=lambda kv: -kv[1])),
        "tokens_whose_case_changed": tot["changed_case"], "gaps_changed": tot["changed_gaps"],
        "comments_added": tot["comments_added"], "comments_removed": tot["comments_removed"],
        "files_left_untransformed(lexical errors/tool directives/vhdl_ls off)": tot["files_kept"],
        "mismatches": nbad, "known_finding_hits": seen_known,
    }


def main(tier, replay=None):
    res = Result(PROP, tier, level="other")
    d = rundir(PROP)
    import time as _time
    t0 = _time.time()
    proof_stage(res, PROP, thorough=(tier == "thorough"))
    res.coverage["t_proof_s"] = round(_time.time() - t0, 1)
    ok, log, hbin = harness_build("c13")
    if not ok:
        res.violation("harness build failed against the current /repo tree", {"kind": "build", "log": log[-3000:]},
                      no_failing_input=True)
        return res.finish()
    ok, log, mbin = ocaml_build("c13_run")
    if not ok:
        res.violation("extracted model build failed", {"kind": "build", "log": log[-3000:]}, no_failing_input=True)
        return res.finish()

    if replay:
        rp = json.load(open(replay))
        if rp.get("kind") == "symcase":
            sym_stage(res, d, hbin, mbin, tier, only_line=rp["case"])
        elif rp.get("kind") == "oracle" and rp.get("orig") and rp.get("trans"):
            rc, out = run([hbin, "replay", replay, os.path.join(d, "replay_work")], timeout=600)
            try:
                r = json.loads(out.strip().split("\n")[-1])
            except Exception:
                r = {"verdict": "CRASH", "detail": out[-500:]}
            res.count_case("replay " + rp.get("id", "?"), True)
            res.add_sample({"replayed": rp.get("id"), "verdict": r.get("verdict"), "detail": r.get("detail", "")[:300]})
            if r.get("verdict") not in ("OK", "BOTHPANIC"):
                res.violation("replayed pair still differs (%s): %s" % (r.get("verdict"), r.get("detail", "")[:500]),
                              {"kind": "oracle", "id": rp.get("id"), "mode": rp.get("mode"), "tseed": rp.get("tseed"),
                               "verdict": r.get("verdict"), "detail": r.get("detail"), "orig": rp["orig"], "trans": rp["trans"]})
        else:
            print("replay file of kind %r holds no re-runnable input" % rp.get("kind"))
        res.coverage["rule"] = "replay of one recorded case"
        res.coverage["trusted_base"] = TRUSTED_BASE_COMMON
        return res.finish()

    t1 = _time.time()
    info = sym_stage(res, d, hbin, mbin, tier)
    t2 = _time.time()
    oracle_stage(res, d, hbin, tier)
    t3 = _time.time()
    coq_cross_check(res, info)
    res.coverage["t_build_s"] = round(t1 - t0 - res.coverage["t_proof_s"], 1)
    res.coverage["t_symbol_table_s"] = round(t2 - t1, 1)
    res.coverage["t_oracle_s"] = round(t3 - t2, 1)
    res.coverage["t_in_coq_sample_s"] = round(_time.time() - t3, 1)

    res.coverage["exhaustive"] = False
    res.coverage["rule"] = (
        "ORACLE: projects = hand-made regression projects (corpus/C13.projects.jsonl) + 361 projects harvested from the "
        "VHDL snippets of vhdl_lang's own analysis tests (corpus/C13.harvest.jsonl: one project per #[test], valid and "
        "erroneous) + the bundled ieee sources as a transformed project library (std_logic_1164; thorough: numeric_std, "
        "synopsys) + generated 3..5-file projects from VERIF_SEED (package + body, two entities with architectures, "
        "optional configuration/context/duplicate unit, optional second library; identifiers already written in mixed "
        "case; 0..4 seeded faults per project: undeclared names, type errors, duplicate declarations incl. "
        "case-different spellings, missing units/architectures/formals, extended identifiers differing only by case, "
        "unused declarations, missing/superfluous sensitivity-list entries, syntax errors; positional generic/port maps of entity and component instantiations with 4 differently typed formals written on one line or one per line, positional subprogram calls and record aggregates; package body, architecture and configuration in files of their own, with and without header, corpus projects with every cross-file secondary unit, context and package instance).  Each project is analysed as "
        "it is and after k%7 = 0 re-spacing of every gap (blanks, tabs, LF, CRLF, empty where two tokens may touch), "
        "1 insertion/deletion of line and block comments (every star/slash pattern, quotes, Latin-1, CR/CRLF, directly after a "
        "token, at end of file), 2 case permutation of keywords and basic identifiers (extended identifiers, literals, "
        "strings untouched), 3 all of them, 4 every file joined onto ONE line (comments dropped), 5 ONE TOKEN PER LINE, 6 ONE FILE ONLY (3..48 header lines prepended / joined / split / re-spaced, the other files untouched, so that positions change relative to other files; hand-made corpus projects get every (file, operation) pair; for these one-file transformations the same edit is also applied IN PLACE to a live project with linters on (Source::change + update_source, re-analyse) and must leave every diagnostic on its token — skipped when a design-unit name is defined in two files); the transformed text must give the same "
        "token kinds/values/Symbol ids (lexer half) and the same multiset of (code, token index of range start and end, "
        "message lower-cased, multiset of related (token index, message)); syntax errors by code and number of tokens "
        "ending at or before the anchor.  Both versions use the same file paths.  SYMBOL TABLE: the 256 bytes, every "
        "keyword in 3 spellings, random insertion histories into an empty table and into the table of "
        "Symbols::default() with case variants over A-Z and the Latin-1 letter ranges incl. 215/247/223/255, extended "
        "identifiers with the same content, keywords in random case.  non-trivial = (oracle) the original has >= 1 "
        "diagnostic and the transformation changed >= 1 token/gap/comment; (symbol table) the case has a Latin-1 "
        "letter, an extended identifier, two spellings of one identifier, or is a table/keyword case; distinct by hash")
    res.coverage["trusted_base"] = TRUSTED_BASE_COMMON + [
        "the symbol table model (Symtab/Symtab.v, shared with C04) renders FnvHashMap<Arc<Latin1String>, Symbol> as an "
        "association list and every lock-holding method body as one atomic step",
        "the lexer model (Lex/LangLexer.v, shared, tied to the tokenizer by the C11 check) decides keywords by membership "
        "of the lower-case name in the keyword table; C13_keyword_lookup_case_insensitive proves that this is what the "
        "id < keywords.len() test of Symbols::insert_or_keyword computes",
        "token-index map of the oracle: tokens of the real Tokenizer/TokenStream (hook H1) on both versions of a file",
        "that parser, analysis and lints consult identifiers only through Symbol ids / normalised names is NOT proved; "
        "it is what the oracle explores",
    ]
    res.coverage["partial"] = True
    res.coverage["explanation"] = (
        "Theorem half (Coq, Props/C13.v; front end): the Latin-1 lower-case table by a 256-case sweep "
        "(C13_lowercase_spec) and its identity with the table of the lexer model; for ALL insertion histories "
        "(any interleaving of the atomic steps of any number of threads) two basic identifiers get the same symbol id "
        "iff their lower-case spellings are equal, an extended identifier only with the identical spelling, keywords keep "
        "ids 0..N-1 and `id < N` holds exactly for the case variants of keywords (C13_symtab_case_insensitive, "
        "C13_keywords_keep_ids, C13_keyword_lookup_case_insensitive); on the shared tokenizer model: changing the case of "
        "letters anywhere outside `vhdl_ls off/on` comments leaves every token kind, every position, every diagnostic and "
        "every numeric value unchanged and changes text values only in letter case (C13_case_invariant_partial: a "
        "simulation proof over the whole tokenizer model, hypothesis directives_agree), case variants of a basic "
        "identifier are the same symbol in every reachable table (C13_case_same_symbol), untouched strings/character "
        "literals/extended identifiers keep their values (C13_case_untouched_values); re-layout: two writings of the "
        "token list of a diagnostic-free text with any gaps of blanks, line breaks, line and block comments that obey "
        "the separator discipline lex to the same kinds and values (C13_relayout_invariant, derived from the C12 "
        "render->lex round trip Lex/Render*.v), plus a bounded exhaustive evaluation incl. tabs "
        "(C13_relayout_invariant_partial).  Exploration half "
        "(DECISIVE for the property as worded, since it quantifies over parser, semantic analysis and lints which are "
        "not modelled): the project-vs-transformed-project oracle over harvested and generated valid and erroneous "
        "multi-file projects, on every run.")
    res.coverage["unproved"] = [
        "later stages (parser, analysis, lints) use only token kinds, values and symbol ids: explored by the oracle",
        "re-layout with tabs, CR/CRLF or other blank characters in the gaps, and of texts with lexical diagnostics or tool "
        "directives (the general theorem's pieces know blank and LF only): explored by the lexer half of the oracle",
        "that a case change confined to keywords and basic identifiers satisfies directives_agree (it cannot touch a comment)",
    ]
    res.assumptions = [
        "syntax errors are compared by code and by the number of tokens that end at or before the anchor (DESIGN 4.0: "
        "the previous-line anchoring rule of TokenStream::pos_before is layout dependent by design)",
        "messages are compared after Latin-1 lower-casing (coarser than 'modulo the spelling of quoted names'); "
        "diagnostics and related information as multisets (hash-map iteration order)",
        "original and transformed project are analysed under identical file paths (the order of duplicate primary units "
        "follows a hash map keyed by path, which is outside the claim as in C01/C04)",
        "files with lexical errors or tool directives (grave accent) are left untransformed; files with `vhdl_ls off/on` "
        "directives ARE transformed (also inside the fenced region and between a directive and the next token): only the "
        "directive comments themselves are never inserted, deleted or altered, and a directive keeps its attachment "
        "(trailing comment of a token vs. leading comment of the next, which the tokenizer distinguishes); "
        "gaps next to a tick token are kept verbatim (tick/character-literal disambiguation depends on the next 2 chars)",
    ]
    return res.finish()
