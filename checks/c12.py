"""C12 — Formatting preserves the token stream and the comments.

Stages: (1) Coq theorems of Props/C12.v (build, lint, Print Assumptions); (2) sources — corpus, the bundled
libraries, VHDL snippets harvested from the string literals of the repository's Rust tests, generated design
files — and variants of them (comments at token gaps, blank lines, CRLF/CR/tabs, minimal spacing, letter case,
Latin-1 lexemes, `vhdl_ls off`/`on` regions) through the implementation (harness `c12`), which runs the
ORACLE of the property: parse -> VHDLFormatter::format_design_file -> parse, same tokens and comments per unit;
(3) the extracted model (`c12_run`): a trace of buffer operations is reconstructed from every output, replayed
through the model of formatting/buffer.rs (byte-for-byte), the separator discipline `sep_ok` is evaluated on it
and the model tokenizer re-lexes the rendering; (4) a sample re-evaluated inside Coq with vm_compute."""
import os
import re
import json
import random
import resource
from vlib.common import *

PROP = "C12"
LIMIT = 60000          # size (characters of the output) up to which the model tokenizer re-lexes the rendering

# ids of the divergence signatures printed by the harness (`sig=ctx=<kinds> [<diverging kind>] <next> | out=... | flags=...`):
# a violation is a KNOWN finding only if known_findings.json has an open C12 entry whose match.signature is the id
SIGNATURES = [
    ("ext_ident_backslash", r"flags=\S*extended_identifier_with_backslash"),
    ("comment_glued_to_token", r"\[Minus\] .*flags=\S*next_leading_line_comment|\[Que\] .*flags=\S*next_leading_block_comment"),
    ("minus_minus", r"\[Minus\] Minus "),
    ("attr_spec_list", r"ctx=kw:attribute \S+ kw:of .*\[Comma\]"),
    ("iface_bus", r"\[kw:bus\]"),
    ("seq_with_select", r"\[kw:with\]"),
    ("select_que", r"kw:select \[Que\]"),
    ("subprogram_parameter_kw", r"kw:(function|procedure) \[\S+\] kw:parameter"),
    # more specific than call_extra_rpar (`view ( w . v ) ; )`): the dropped `;` is followed by `)` in the input
    ("iface_trailing_semicolon", r"\[SemiColon\] RightPar .*out=RightPar"),
    ("call_extra_rpar", r"RightPar \[SemiColon\] .*out=RightPar"),
    ("config_selected_entity", r"ctx=(\S+ )*kw:configuration \S+ kw:of \S+ Dot \[Identifier\]"),
    ("postponed_selected", r"\[kw:postponed\] kw:with"),
    ("parameter_without_list", r"kw:(function|procedure) \S+ (kw:generic .*)?\[kw:parameter\] (kw:return|SemiColon|kw:is)"),
    ("config_spec_map_only", r"kw:for .* Colon Identifier kw:(generic|port) \[kw:map\]"),
    ("config_spec_no_binding", r"ctx=\[kw:(begin|end)\] .*out=SemiColon|kw:for .* Colon Identifier \[SemiColon\].*out=SemiColon SemiColon"),
]


def big_stack():
    # the extracted functions are not tail recursive: piece lists of the large library files need a deep stack
    try:
        resource.setrlimit(resource.RLIMIT_STACK, (resource.RLIM_INFINITY, resource.RLIM_INFINITY))
    except Exception:
        try:
            soft, hard = resource.getrlimit(resource.RLIMIT_STACK)
            resource.setrlimit(resource.RLIMIT_STACK, (hard, hard))
        except Exception:
            pass


def signature_id(verdict):
    parts = verdict.split(" ;; ")
    sig = parts[1] if len(parts) > 1 else ""
    for name, rx in SIGNATURES:
        if re.search(rx, sig):
            return name
    return None


def open_signatures():
    out = {}
    for e in known_findings(PROP):
        if e.get("kind") == "open" and "signature" in e.get("match", {}):
            out[e["match"]["signature"]] = e.get("id", "?")
    return out


# ---------------------------------------------------------------------------------------------------------------
# snippets harvested from the Rust sources of the repository (string literals of the unit tests)
# ---------------------------------------------------------------------------------------------------------------
def unescape(body):
    out = []
    i = 0
    n = len(body)
    while i < n:
        c = body[i]
        if c == "\\" and i + 1 < n:
            d = body[i + 1]
            if d == "n":
                out.append("\n"); i += 2
            elif d == "t":
                out.append("\t"); i += 2
            elif d == "r":
                out.append("\r"); i += 2
            elif d == "0":
                out.append("\0"); i += 2
            elif d in "\\\"'":
                out.append(d); i += 2
            elif d == "x" and i + 3 < n:
                try:
                    out.append(chr(int(body[i + 2:i + 4], 16)))
                except ValueError:
                    return None
                i += 4
            elif d == "u" and i + 2 < n and body[i + 2] == "{":
                j = body.find("}", i)
                if j < 0:
                    return None
                try:
                    out.append(chr(int(body[i + 3:j].replace("_", ""), 16)))
                except ValueError:
                    return None
                i = j + 1
            elif d == "\n":
                i += 2
                while i < n and body[i] in " \t\n\r":
                    i += 1
            else:
                return None
        else:
            out.append(c)
            i += 1
    return "".join(out)


LIT = re.compile(r'r(#*)"(.*?)"\1|"((?:[^"\\]|\\.)*)"', re.S)


def harvest():
    seen = set()
    res = []
    for sub in ("syntax", "formatting", "analysis"):
        root = os.path.join(REPO, "vhdl_lang", "src", sub)
        for dp, dirs, fs in sorted(os.walk(root)):
            dirs.sort()
            for f in sorted(fs):
                if not f.endswith(".rs"):
                    continue
                text = open(os.path.join(dp, f), encoding="utf-8", errors="replace").read()
                for m in LIT.finditer(text):
                    s = unescape(m.group(3)) if m.group(3) is not None else m.group(2)
                    if s is None or len(s.strip()) < 3 or len(s) > 20000:
                        continue
                    if not re.search(r"[A-Za-z]", s) or "\0" in s:
                        continue
                    if s in seen:
                        continue
                    seen.add(s)
                    res.append(s)
    return res


def u_line(s):
    return "U " + " ".join(str(ord(c)) for c in s)


def text_of(case_line):
    return "".join(chr(int(x)) for x in case_line.split()[1:])


def printable(s, n=400):
    t = s.encode("unicode_escape").decode("ascii")
    return t if len(t) <= n else t[:n] + "...(%d chars)" % len(s)


# ---------------------------------------------------------------------------------------------------------------
class Stats:
    def __init__(self):
        self.verdicts = {}
        self.tokens = 0
        self.comments = 0
        self.units = 0
        self.model = {"replayed": 0, "sep_ok": 0, "all_supported": 0, "relexed": 0, "relex_same": 0, "lexer_compared": 0}
        self.unsupported_tokens = 0
        self.sizes = {}
        self.features = {"comments": 0, "crlf_or_cr": 0, "tab": 0, "latin1": 0, "non_latin1": 0, "ignored_region": 0,
                         "extended_identifier": 0}


def features(st, text):
    f = st.features
    if "--" in text or "/*" in text:
        f["comments"] += 1
    if "\r" in text:
        f["crlf_or_cr"] += 1
    if "\t" in text:
        f["tab"] += 1
    if any(127 < ord(c) < 256 for c in text):
        f["latin1"] += 1
    if any(ord(c) > 255 for c in text):
        f["non_latin1"] += 1
    if "vhdl_ls off" in text:
        f["ignored_region"] += 1
    if "\\" in text:
        f["extended_identifier"] += 1


def compare(res, st, tag, cases, impl, mout, pending, opensig, seen_known, terms, term_every):
    n = 0
    with open(cases) as fc, open(impl) as fi, open(mout) as fm:
        for c, i, m in zip(fc, fi, fm):
            n += 1
            c = c.rstrip("\n")
            f = i.rstrip("\n").split("|", 4)
            verdict, units, ntok, ncom, out_tokens = (f + ["", "", "", "", ""])[:5]
            mf = m.rstrip("\n").split("|", 8)
            vclass = verdict.split(":")[0].split(" ")[0]
            st.verdicts[vclass] = st.verdicts.get(vclass, 0) + 1
            if vclass == "SKIP":
                continue
            text = text_of(c)
            ntok_i = int(ntok or 0)
            ncom_i = int(ncom or 0)
            st.tokens += ntok_i
            st.comments += ncom_i
            st.units += int(units or 0)
            b = 0 if ntok_i < 10 else 10 if ntok_i < 100 else 100 if ntok_i < 1000 else 1000 if ntok_i < 10000 else 10000
            st.sizes[b] = st.sizes.get(b, 0) + 1
            features(st, text)
            # non-trivial: the source has a comment attached to a token, or a character outside printable ASCII + LF
            nontrivial = ncom_i > 0 or any(ord(ch) > 126 or (ord(ch) < 32 and ch != "\n") for ch in text)
            res.count_case(c, nontrivial)
            if n % 997 == 1 and len(text) < 1500:
                res.add_sample({"stream": tag, "source": printable(text, 1500), "verdict": verdict[:200], "model": "|".join(mf[:6])})
            replay = {"kind": "input", "stream": tag, "case": c if len(c) < 400000 else c, "text": printable(text, 3000),
                      "oracle": verdict[:1500], "model": "|".join(mf[:7]), "replay_cmd": "./check C12 --replay <this file>"}
            R, S, P, L = (mf + ["-"] * 4)[:4] if len(mf) >= 4 else ("-", "-", "-", "-")
            bad = None
            if vclass in ("BAD", "PANIC"):
                sid = signature_id(verdict)
                if sid is not None and sid in opensig:
                    fid = opensig[sid]
                    if fid not in seen_known:
                        seen_known[fid] = 0
                        res.known_finding("%s signature=%s source=%s :: %s" % (fid, sid, json.dumps(printable(text, 300)), verdict[:300]))
                    seen_known[fid] += 1
                else:
                    bad = ("the formatter does not preserve the token stream / comments of this diagnostic-free source: "
                           + verdict[:400] + (" [signature id %s]" % sid if sid else ""))
                    replay["signature_id"] = sid
                if bad is None and R == "R=1" and S == "S=1" and P == "P=1" and L == "L=1":
                    pending["corr"].append(("correspondence broken: the oracle rejects the formatted output but the model "
                                            "renders the same text, accepts its separators and re-lexes it to the same tokens",
                                            dict(replay, kind="correspondence")))
            else:
                st.model["replayed"] += 1 if R == "R=1" else 0
                st.model["sep_ok"] += 1 if S == "S=1" else 0
                st.model["all_supported"] += 1 if P == "P=1" else 0
                if L in ("L=1", "L=0"):
                    st.model["relexed"] += 1
                    st.model["relex_same"] += 1 if L == "L=1" else 0
                if len(mf) > 5 and mf[5].startswith("unsupported="):
                    st.model["unsupported_tokens"] = st.model.get("unsupported_tokens", 0) + int(mf[5].split("=")[1])
                corr = None
                if R != "R=1":
                    corr = ("the formatter's output is not a rendering of the input tokens by the model of "
                            "formatting/buffer.rs (RH.Lex.Render): " + (mf[6] if len(mf) > 6 else "?"))
                elif S != "S=1":
                    corr = ("the separator discipline sep_ok (RH.Lex.Render.ops_sep_ok) does not hold on the trace of the "
                            "formatter's output although the oracle accepts it: two tokens are glued by an unsafe separator "
                            "or sep_ok is too strict")
                elif L == "L=0":
                    corr = ("the model tokenizer does not re-lex the rendering to the same tokens and comments although the "
                            "implementation does (RH.Lex.Render.relex_same = false)")
                elif len(mf) > 7 and mf[7] not in ("-", "ABORT"):
                    st.model["lexer_compared"] += 1
                    if mf[7] != out_tokens:
                        corr = "tokens of the formatted output: implementation (TokenStream) and model (RH.Lex.LangLexer.lex_all) differ"
                        replay["impl_out_tokens"] = out_tokens[:3000]
                        replay["model_out_tokens"] = mf[7][:3000]
                if corr:
                    pending["corr"].append(("correspondence broken: " + corr, dict(replay, kind="correspondence")))
                if len(mf) > 8 and mf[8] and term_every and n % term_every == 0:
                    terms.append(mf[8])
            if bad:
                pending["input"].append((bad, replay))
    res.coverage.setdefault("streams", {})[tag] = n


def coq_cross_check(res, terms):
    if not terms:
        return
    pre = ("From Coq Require Import List NArith Bool.\nImport ListNotations.\n"
           "From RH Require Import Text.Contents Text.Reader Lex.LangLexer Lex.Render.\nOpen Scope N_scope.\n"
           "Definition cases : list (list op * list N * bool * bool * bool) := [\n" + ";\n".join(terms) + "].\n"
           "Definition check1 (c : list op * list N * bool * bool * bool) : bool :=\n"
           "  match c with (ops, out, r, s, l) =>\n"
           "    Bool.eqb (match render_ops ops with Some t => leqb t out | None => false end) r\n"
           "    && Bool.eqb (ops_sep_ok ops) s && Bool.eqb (relex_same (ops_tokens ops) out) l end.\n")
    v, log = coq_eval_bool(PROP, "sample", pre, "forallb check1 cases")
    res.coverage["in_coq_vm_compute_cases"] = len(terms)
    if v is not True:
        res.violation("extracted model and in-Coq evaluation (vm_compute) of render_ops / ops_sep_ok / relex_same disagree "
                      "on the sampled cases", {"kind": "correspondence", "correspondence": "extraction vs vm_compute (RH.Lex.Render)",
                                               "log": log[-2000:]}, no_failing_input=True)


def main(tier, replay=None):
    import time
    res = Result(PROP, tier, level="other")
    d = rundir(PROP)
    stage_s = {}
    t_prev = [time.time()]

    def lap(name):
        now = time.time()
        stage_s[name] = round(stage_s.get(name, 0) + now - t_prev[0], 1)
        t_prev[0] = now
    # the proof stage (coqc of Props/C12.v's cone, Print Assumptions, lint) is independent of the dynamic part: it runs in
    # a thread next to the harness / model runs and is joined before the Coq cross-check
    import threading

    def proof_job():
        t0 = time.time()
        proof_stage(res, PROP, thorough=(tier == "thorough"))
        stage_s["proof(overlapped)"] = round(time.time() - t0, 1)
    proof_thread = threading.Thread(target=proof_job)
    proof_thread.start()
    ok, log, hbin = harness_build("c12")
    if not ok:
        res.violation("harness build failed against the current /repo tree", {"kind": "build", "log": log[-3000:]},
                      no_failing_input=True)
        proof_thread.join()
        return res.finish()
    ok, log, mbin = ocaml_build("c12_run")
    if not ok:
        res.violation("extracted model build failed", {"kind": "build", "log": log[-3000:]}, no_failing_input=True)
        proof_thread.join()
        return res.finish()

    lap("builds")
    opensig = open_signatures()
    seen_known = {}
    pending = {"input": [], "corr": []}
    st = Stats()
    terms = []
    thorough = tier == "thorough"

    jobs = []

    def stream(*a, **kw):
        jobs.append((len(jobs), a, kw))

    def run_jobs():
        # the harness runs of the streams are independent processes: run them side by side
        from concurrent.futures import ThreadPoolExecutor
        with ThreadPoolExecutor(max_workers=6) as ex:
            list(ex.map(lambda j: stream_now(j[0], *j[1], **j[2]), jobs))
        running.sort(key=lambda r: r[0])
        for i in range(len(running)):
            running[i] = running[i][1:]
        del jobs[:]
        lap("harness_wall")

    def stream_now(idx, tag, mode, n, term_every=0, sd=None, std="08"):
        t0 = time.time()
        # the model tokenizer knows the keyword table of VHDL-2008 only: under the other standards the output is replayed
        # through the buffer model and checked against sep_ok, but not re-lexed by the model
        limit = LIMIT if std == "08" else 0
        cases, impl, model, mout = (os.path.join(d, "%s.%s" % (tag, x)) for x in ("cases", "impl", "model", "mout"))
        for p in (cases, impl, model, mout):
            if os.path.exists(p):
                os.remove(p)
        rc, out = run([hbin, mode, str(seed() if sd is None else sd), str(n), cases, impl, model, std], timeout=3000)
        stage_s[tag + ":harness"] = round(time.time() - t0, 1)
        if rc != 0:
            last = ""
            if os.path.exists(cases):
                with open(cases) as f:
                    for last in f:
                        pass
            last = last.rstrip("\n")
            res.violation("the formatter or parser crashes the process (stack overflow / abort) on this source (harness rc=%s)" % rc,
                          {"kind": "input", "stream": tag, "case": last, "text": printable(text_of(last), 3000) if last else "",
                           "log": out[-1500:], "replay_cmd": "./check C12 --replay <this file>"})
        if not (os.path.exists(cases) and os.path.exists(impl) and os.path.exists(model)):
            return
        env = env_base()
        env["C12_COQ_TERMS"] = "1"
        # the model runs of the streams overlap (one process per stream); they are joined before the comparison
        nsh = 8 if tag == "libraries" else 1
        # shard k gets the lines k, k + nsh, ... of the model input; the outputs are interleaved again before comparing
        lines = open(model).read().split("\n")
        if lines and lines[-1] == "":
            lines.pop()
        procs = []
        for k in range(nsh):
            pin = "%s.%d" % (model, k)
            pout = "%s.%d" % (mout, k)
            with open(pin, "w") as f:
                for ln in lines[k::nsh]:
                    f.write(ln + "\n")
            fin = open(pin)
            fout = open(pout, "w")
            p = subprocess.Popen([mbin, str(limit)], stdin=fin, stdout=fout, env=env, preexec_fn=big_stack)
            procs.append((p, fin, fout, pin, pout))
        running.append((idx, tag, procs, len(lines), cases, impl, mout, term_every))

    def join_streams():
        run_jobs()
        for tag, procs, nlines, cases, impl, mout, term_every in running:
            bad_rc = None
            outs = []
            for p, fin, fout, pin, pout in procs:
                rc = p.wait()
                fin.close()
                fout.close()
                if rc != 0:
                    bad_rc = rc
                o = open(pout).read().split("\n")
                if o and o[-1] == "":
                    o.pop()
                outs.append(o)
                os.remove(pin)
                os.remove(pout)
            lap(tag + ":model")
            if bad_rc is not None:
                res.violation("extracted model runner failed on stream %s (rc=%s)" % (tag, bad_rc), {"kind": "build"}, no_failing_input=True)
                continue
            nsh = len(procs)
            with open(mout, "w") as f:
                for i in range(nlines):
                    sh = outs[i % nsh]
                    j = i // nsh
                    f.write((sh[j] if j < len(sh) else "R=0|S=-|P=-|L=-|ops=0|unsupported=0|runner produced no line|-|") + "\n")
            compare(res, st, tag, cases, impl, mout, pending, opensig, seen_known, terms, term_every)
        lap("compare")
        del running[:]

    running = []
    if replay:
        rp = json.load(open(replay))
        path = os.path.join(d, "replay.in")
        open(path, "w").write(rp["case"] + "\n")
        tag0 = rp["case"].split(" ", 1)[0]
        stream("replay", "replay:" + path, 0, 1, std={"U93": "93", "U19": "19"}.get(tag0, "08"))
    else:
        corpus = os.path.join(VERIF, "corpus", "C12.cases")
        if os.path.exists(corpus):
            # every VHDL standard the parser supports: lines without a standard tag (`U`) are run under each standard, the
            # tagged ones (`U93`, `U08`, `U19`) only under theirs
            clines = [ln for ln in open(corpus).read().split("\n") if ln.startswith("U")]
            for sd_, tg in (("08", "U08"), ("93", "U93"), ("19", "U19")):
                cp = os.path.join(d, "corpus%s.in" % sd_)
                with open(cp, "w") as f:
                    for ln in clines:
                        if ln.split(" ", 1)[0] in ("U", tg):
                            f.write(ln + "\n")
                stream("corpus" if sd_ == "08" else "corpus" + sd_, "replay:" + cp, 0, 1 if sd_ == "08" else 0, std=sd_)
        # bundled libraries (read as ISO-8859-1) + variants
        libs = []
        for root in (os.path.join("/repo", "vhdl_libraries"), os.path.join("/repo", "example_project")):
            for dp, dirs, fs in sorted(os.walk(root)):
                dirs.sort()
                for f in sorted(fs):
                    if f.endswith((".vhd", ".vhdl")):
                        libs.append(os.path.join(dp, f))
        lst = os.path.join(d, "libs.txt")
        open(lst, "w").write("\n".join(libs) + "\n")
        res.coverage["library_files"] = len(libs)
        stream("libraries", "files:" + lst, 7 if thorough else 2, 0)
        # harvested snippets (+ variants)
        snips = harvest()
        res.coverage["harvested_string_literals"] = len(snips)
        if not thorough:
            rnd = random.Random(seed())
            rnd.shuffle(snips)
            keep = snips[:1400]
        else:
            keep = snips
        sn = os.path.join(d, "snippets.in")
        with open(sn, "w") as f:
            for s in keep:
                f.write(u_line(s) + "\n")
        stream("snippets", "cases:" + sn, 7 if thorough else 1, 37 if thorough else 11)
        if thorough:
            for k in range(1, 4):
                stream("snippets%d" % k, "cases:" + sn, 7, 0, sd=seed() + 1000 * k)
        # the 'optional tokens' family: every construct with optional labels / end labels / keywords in every combination
        # of its optional parts (exhaustive), + variants
        stream("optional_tokens", "opt", 3 if thorough else 1, 41 if thorough else 29)
        stream("optional_tokens93", "opt", 3 if thorough else 1, 0, std="93")
        stream("optional_tokens19", "opt", 3 if thorough else 1, 0, std="19")
        stream("snippets19", "cases:" + sn, 7 if thorough else 1, 0, std="19")
        stream("generated93", "gen", 1500 if thorough else 60, 0, std="93")
        stream("generated19", "gen", 1500 if thorough else 60, 0, std="19")
        # generated design files (+ 2 variants each)
        stream("generated", "gen", 6000 if thorough else 250, 23 if thorough else 7)

    join_streams()
    # the smallest failing sources first
    pending["input"].sort(key=lambda wo: len(wo[1].get("case", "")))
    # one (smallest) source per distinct divergence class first, so that many instances of one root cause do not hide another
    def cls(obj):
        m = re.search(r"\[(\S+)\]", obj.get("oracle", ""))
        return obj.get("signature_id") or ("unclassified:" + (m.group(1) if m else obj.get("oracle", "")[:40]))
    first, rest, seen_cls = [], [], set()
    for wo in pending["input"]:
        k = cls(wo[1])
        (rest if k in seen_cls else first).append(wo)
        seen_cls.add(k)
    res.coverage["violation_classes"] = sorted(seen_cls)
    for what, obj in (first + rest)[:8]:
        res.violation(what, obj)
    for what, obj in pending["corr"][:4]:
        res.violation(what, obj, no_failing_input=True)
    res.coverage["property_violating_inputs"] = len(pending["input"])
    res.coverage["correspondence_differences"] = len(pending["corr"])
    proof_thread.join()
    lap("proof_join")
    coq_cross_check(res, terms[:150])
    lap("coq_cross_check")
    res.coverage["stage_seconds"] = stage_s

    for fid, cnt in seen_known.items():
        res.coverage.setdefault("known_finding_hits", {})[fid] = cnt
    res.coverage["exhaustive"] = False
    res.coverage["verdicts"] = st.verdicts
    res.coverage["sources_outside_the_property_skipped"] = st.verdicts.get("SKIP", 0)
    res.coverage["design_units_compared"] = st.units
    res.coverage["tokens_compared"] = st.tokens
    res.coverage["comments_compared"] = st.comments
    res.coverage["source_size_histogram_tokens"] = {str(k): v for k, v in sorted(st.sizes.items())}
    res.coverage["source_features"] = st.features
    res.coverage["model"] = dict(st.model, relex_size_limit_chars=LIMIT)
    res.coverage["rule"] = (
        "corpus first (minimal inputs of the ten repaired formatter defects F40-F49 and inputs exercising Buffer::push_token); "
        "every .vhd/.vhdl file of /repo/vhdl_libraries and /repo/example_project read as ISO-8859-1; every string literal of the "
        "Rust sources under vhdl_lang/src/{syntax,formatting,analysis} that parses without diagnostics as a design file, or "
        "inside one of 9 wrappers (package / architecture / process / declarative part / expression / subtype / entity / "
        "parameter list / package body); design files assembled from fragments of a syntax generator (all declaration, "
        "concurrent and sequential statement forms, all operators, names, aggregates, literals of every kind, configurations, "
        "contexts), each fragment test-parsed; the exhaustive 'optional tokens' family: 57 templates of statements, declarations "
        "and design units with optional label / repeated end label / end keyword / `?` of matching case and select / postponed / "
        "shared / pure / impure / delay mechanism / force-release modes / is / parameter / open / bus ..., each rendered with "
        "EVERY combination of its optional parts (about 3000 combinations accepted by the parser).  Each clean source is followed by variants (quick: 1-2, thorough: 7 per seed) cut at "
        "the token boundaries: comments at token gaps (line and block, before/after/several, with Latin-1, non-Latin-1, "
        "trailing blanks, NBSP, comment delimiters inside), comments at every gap, minimal spacing, CRLF/CR/tabs/blank lines, "
        "letter case + extended identifiers + Latin-1 strings/characters (consistently per identifier), all of them, an "
        "ignored `vhdl_ls off`..`on` region (block comments also hold supplementary-plane characters).  The corpus, the "
        "optional-tokens family (with the VHDL-2019 forms: trailing `;` of interface lists, `return id of type`, conditional "
        "expressions in declarations, mode views, `end` without `component`), the snippets and generated files are also run with "
        "the parser of VHDL-1993 and of VHDL-2019 (sources that are diagnostic-free under that standard).  Sources with diagnostics are outside the property (counted as SKIP).  "
        "non-trivial = the source has at least one comment attached to a token or a character outside printable ASCII/LF; "
        "distinct by hash of the source text")
    res.coverage["trusted_base"] = TRUSTED_BASE_COMMON + [
        "the per-node formatter arms (formatting/{design,declaration,concurrent_statement,sequential_statement,expression,name,"
        "interface,subprogram,configuration,...}.rs) are NOT modelled: what they do is observed per file as a trace of buffer "
        "operations reconstructed from the output by the runner's matcher (glue code) and validated by replaying it through the "
        "extracted model (byte-for-byte) — no hook in /repo",
        "under VHDL-1993 / VHDL-2019 the model tokenizer (keyword table of VHDL-2008) does not re-lex the outputs: there the model "
        "half is the byte-for-byte replay through the buffer model and sep_ok; the oracle runs under all three standards",
        "the tokenizer model RH.Lex.LangLexer is shared with C11 (tied to the code by C11's differential run and here on every "
        "formatted output up to the size limit)",
        "Value equality of the implementation (`Token::equal_format`: kind and value; identifiers up to letter case as Symbol "
        "equality defines it) is the oracle's notion of `same token`; the model compares spellings exactly",
    ]
    res.coverage["partial"] = True
    res.coverage["explanation"] = (
        "Theorem half (Props/C12.v): the model of Buffer::push_token/push_whitespace/line_break(s)/indentation, the separator "
        "discipline sep_ok, and the round trip `lex (render ts seps)` = same kinds, values and comments for the tokens of every "
        "diagnostic-free input, ALL token kinds (C12_render_lex_roundtrip; numbers, bit strings, strings and extended "
        "identifiers through C11's stops-at-end-of-input lemma lifted to the follow set by a lockstep argument), the "
        "trace-checker soundness statement, and the necessity examples (glue hazards).  "
        "Exploration half (decisive for the formatter arms, which are not modelled): the property itself is run as an "
        "implementation-level oracle on every explored source (parse -> format -> parse; same units, tokens, flattened comments up "
        "to trailing blanks), and every formatter output is checked to be a rendering of the input tokens by the extracted model "
        "(ids in order, each once) whose separators satisfy the extracted sep_ok and which the model tokenizer re-lexes to the "
        "same stream.")
    res.coverage["unproved"] = UNPROVED
    res.assumptions = [
        "`the same sequence of attached comments` = the flattened per-design-unit sequence (leading then trailing, token by "
        "token) of comment values up to trailing blanks (DESIGN.md 4.0): the formatter legitimately turns the first leading "
        "comment of a token into the trailing comment of its predecessor",
        "code inside `vhdl_ls off` regions is never seen by the front end and is dropped by the formatter: only what the "
        "front end sees is compared",
        "idempotence of the formatter is not part of the property and is not checked",
    ]
    return res.finish()


UNPROVED = [
    "each formatter arm emits every token id of its node exactly once, in order, with safe separators: observed per file "
    "(trace reconstruction + sep_ok), not proved for all ASTs",
]
