"""C06 — Seeded semantic faults are reported at the fault site.

Pipeline (shared with checks/c05.py): generated valid program -> one fault of the catalogue (Mini/Faults.v, 13
classes) planted by the extracted `Faults.plant` at a site chosen among `Faults.sites` -> extracted printer ->
`Project::analyse()`.  Oracle: (a) at least one error-severity diagnostic whose code belongs to the class of the
fault (table CLASS_CODES, reviewed against vhdl_lang/src/analysis) and whose range covers the token the reference
blames (`Faults.expect`; DESIGN.md 4.0: for a missing association the instantiated unit's name), (b) no error
diagnostic in a design unit that does not (transitively) depend on the faulty unit.  The extracted reference
itself is cross-checked: `Sem.blame_program (plant ...)` must equal `Faults.expect ...` (the statement of the
theorems of Props/C06.v), also re-evaluated inside Coq on a sample.
"""
import json
import os
import time
from collections import Counter

from vlib.common import *
from checks import c05 as base

PROP = "C06"

# class of the reference -> ErrorCodes of the implementation that report it
CLASS_CODES = {
    "Undeclared": {"Unresolved"},
    "Duplicate": {"Duplicate"},
    "TypeMismatch": {"TypeMismatch"},
    # Unassociated: a uniquely named subprogram called without (all of) its actuals is reported as
    # "No association of parameter ..." at the callee
    "NoOverload": {"AmbiguousCall", "InvalidCall", "Unresolved", "Unassociated"},
    "UnknownField": {"Unresolved"},
    "UnknownItem": {"Unresolved"},
    "UnknownLib": {"Unresolved"},
    "UnknownUnit": {"Unresolved"},
    "UnknownArch": {"Unresolved"},
    "UnknownFormal": {"Unresolved"},
    "MissingAssoc": {"Unassociated"},
    "KindMismatch": {"MismatchedKinds"},
}
FAULT_CLASSES = ["undeclared", "duplicate", "wrong_literal", "wrong_object", "no_overload", "unknown_field",
                 "unknown_item", "unknown_library", "unknown_unit", "unknown_architecture", "unknown_formal",
                 "missing_association", "signal_variable"]


def covers(d, site):
    _, sf, sl, sc, sn = site
    return d["file"] == sf and (d["sl"], d["sc"]) <= (sl, sc) and (d["el"], d["ec"]) >= (sl, sc + sn)


def dependents(units, faulty_file):
    """keys of the units that (transitively) refer to the faulty unit, the faulty unit included"""
    fk = None
    for f, (k, deps) in units.items():
        if f == faulty_file:
            fk = k
    dep = {fk}
    changed = True
    while changed:
        changed = False
        for f, (k, deps) in units.items():
            if k not in dep and any(x in dep for x in deps):
                dep.add(k)
                changed = True
    return dep


def known_match(fault, site_kind):
    for e in known_findings(PROP):
        m = e.get("match", {})
        if e.get("kind") == "open" and m.get("site_kind") == site_kind and m.get("fault") == fault:
            return e
    return None


def coq_site(desc):
    """fsite term from the runner's site description (`M <pid> site_coq ...` is already Coq syntax)"""
    return desc


def snake(code):
    import re
    return re.sub(r"(?<!^)([A-Z])", r"_\1", code).lower()


def lsp_stage(res, d, b, impl, req_of, picked, tier):
    """The same oracle through the language server: for a few planted programs of this run the fault is planted by
    didChange, undone by didChange and planted again (undo / redo in an editor); the client's last publishDiagnostics
    for the file must contain the error covering the planted token after steps 1 and 3 and no error after step 2."""
    import re
    from vlib import lsp
    ok, log, lsbin = vhdl_ls_build()
    if not ok:
        res.violation("vhdl_ls build failed against the current /repo tree", {"kind": "build", "log": log[-3000:]}, no_failing_input=True)
        return
    root = os.path.join(d, "lsp_ws")
    import shutil
    shutil.rmtree(root, ignore_errors=True)
    os.makedirs(root)
    toml = ["[libraries]"]
    sessions = []
    for pid, site, ec in picked:
        m = b.meta[pid]
        basepid = pid.rsplit(".", 1)[0] + ".b"
        ffile = m["faulty_file"]
        t1 = re.match(r"lib(\d+)_", ffile).group(1)
        bfiles = b.by_pid.get(basepid)
        if not bfiles:
            continue
        t0 = re.match(r"lib(\d+)_", next(iter(bfiles))).group(1)
        libs = {}
        planted_text = base_text = None
        for name, lines in b.by_pid[pid].items():
            bname = name.replace("lib%s_" % t1, "lib%s_" % t0, 1)
            btext = "\n".join(bfiles[bname]).replace("lib%s_" % t0, "lib%s_" % t1) + "\n"
            ptext = "\n".join(lines) + "\n"
            # the workspace holds the VALID program; the fault only ever exists in the editor buffer
            open(os.path.join(root, name), "w").write(btext)
            lib = re.match(r"(lib\d+_\d+)_", name).group(1)
            libs.setdefault(lib, []).append(name)
            if name == ffile:
                planted_text, base_text = ptext, btext
        for lib, names in libs.items():
            toml.append("%s.files = [%s]" % (lib, ", ".join("'%s'" % n for n in names)))
        if planted_text is not None and planted_text != base_text:
            sessions.append((pid, ffile, base_text, planted_text, site, ec))
    open(os.path.join(root, "vhdl_ls.toml"), "w").write("\n".join(toml) + "\n")
    if not sessions:
        return
    ls = lsp.LS(lsbin, root)
    nbad = 0
    try:
        _resp, others = ls.initialize()
        view = lsp.publish_map(others)

        def errors_at(u):
            return [x for x in view.get(u, []) if x.get("severity") == 1]

        def covered(u, site, ec):
            _, sf, sl, sc, sn = site
            for x in errors_at(u):
                r = x["range"]
                if str(x.get("code")) in {snake(c) for c in CLASS_CODES[ec]} and \
                        (r["start"]["line"], r["start"]["character"]) <= (sl, sc) and \
                        (r["end"]["line"], r["end"]["character"]) >= (sl, sc + sn):
                    return True
            return False

        for pid, ffile, base_text, planted_text, site, ec in sessions:
            u = lsp.uri(os.path.join(root, ffile))
            ls.notify("textDocument/didOpen", {"textDocument": {"uri": u, "languageId": "vhdl", "version": 0, "text": base_text}})
            lsp.publish_map(ls.sync(), view)
            trace = []
            verdicts = []
            for step, text in enumerate((planted_text, base_text, planted_text), 1):
                ls.notify("textDocument/didChange", {"textDocument": {"uri": u, "version": step},
                                                     "contentChanges": [{"text": text}]})
                lsp.publish_map(ls.sync(), view)
                trace.append([(x["range"]["start"]["line"], x["range"]["start"]["character"], str(x.get("code")), x["message"][:60])
                              for x in errors_at(u)][:6])
                verdicts.append(covered(u, site, ec) if step != 2 else not errors_at(u))
            res.count_case("lsp|%s|%s" % (pid, b.meta[pid]["fault"]), True)
            if not all(verdicts):
                nbad += 1
                if nbad <= 3:
                    which = ["plant", "undo", "plant again"][verdicts.index(False)]
                    res.violation("through the language server: after step `%s` of plant / undo / plant-again of fault %s the client's last "
                                  "publishDiagnostics for %s %s (errors shown after the three steps: %s)"
                                  % (which, b.meta[pid]["fault"], ffile,
                                     "still shows an error" if which == "undo" else "does not contain the error covering the planted token %d:%d+%d" % (site[2], site[3], site[4]),
                                     trace),
                                  {"kind": "input", "request": req_of[pid.rsplit(".", 1)[0]], "pid": pid, "fault": b.meta[pid]["fault"],
                                   "stage": "lsp", "file": ffile, "steps": ["didChange(planted)", "didChange(valid)", "didChange(planted)"],
                                   "errors_after_each_step": trace, "replay_cmd": "./check C06 --replay <this file>"})
            ls.notify("textDocument/didClose", {"textDocument": {"uri": u}})
        ls.shutdown()
    except lsp.ServerDied as ex:
        ls.kill()
        res.violation("vhdl_ls died during the plant / undo / plant-again stage: %s" % str(ex)[:300],
                      {"kind": "input", "stage": "lsp", "sessions": [x[0] for x in sessions]})
    res.coverage["lsp_sessions"] = len(sessions)
    shutil.rmtree(root, ignore_errors=True)


def check_templates(res, hbin, d, tier, only=None):
    """exploration-only stream (checks/c06_templates.py): constructs outside the MiniVHDL reference, outside the theorems"""
    from checks import c06_templates as T
    progs = T.all_programs(seed(), tier)
    if only:
        progs = [p for p in progs if p[0] == only or p[0] == only.rsplit(".", 2)[0] + ".base"]
    path = os.path.join(d, "templates.bundle")
    T.write_bundle(progs, path)
    hr, log = base.run_harness(hbin, path, os.path.join(d, "templates.out"), os.path.join(d, "wd_t"), threads=8, batch=30)
    if hr is None:
        res.violation("harness c05 run crashed on the template stream", {"kind": "harness", "log": log[-2000:]}, no_failing_input=True)
        return
    impl, _ = hr
    kinds = Counter()
    nbad = 0
    for pid, lib, files, exp in progs:
        o = impl.get(pid)
        errs = base.errors_of(o) if o else []
        res.count_case("template|%s" % pid, True)
        rp = {"kind": "input", "template": pid, "seed": seed(), "tier": tier, "files": {lib + "_" + n: t for n, t in files},
              "expect": exp, "diagnostics": [base.describe_diag(x) for x in errs][:10],
              "replay_cmd": "./check C06 --replay <this file>"}
        what = None
        if o is None or o["panic"]:
            what = "Project::analyse panics / no result on template program %s" % pid
        elif exp is None:
            if errs:
                what = "template program %s (no fault planted; valid by inspection) has an error: %s" % (pid, base.describe_diag(errs[0]))
        else:
            kinds["%s/%s" % (exp["fault"], exp["kind"])] += 1
            if not T.satisfied(exp, lib, errs):
                what = ("template plant `%s` (%s) at `%s` is not reported: no error with code in %s %s %s %d:%d+%d; errors: %s"
                        % (exp["fault"], exp["kind"], exp["site"], exp["codes"],
                           "covering" if exp["cover"] else "on the statement at", exp["file"], exp["line"], exp["col"], exp["len"],
                           rp["diagnostics"][:3]))
        if what:
            nbad += 1
            if nbad <= 4:
                res.violation(what + "  [exploration-only stream, outside the theorems]", rp)
    res.coverage["template_programs"] = len(progs)
    res.coverage["template_plants"] = dict(kinds)
    for fn in ("templates.bundle", "templates.out"):
        try:
            os.remove(os.path.join(d, fn))
        except OSError:
            pass


def main(tier, replay=None):
    res = Result(PROP, tier, level="other")
    d = rundir(PROP)
    proof_stage(res, PROP, thorough=(tier == "thorough"))
    res.prop = PROP
    hbin, mbin = base.build_all(res)
    if hbin is None:
        return res.finish()
    sd = seed()
    if replay:
        rp = json.load(open(replay))
        reqs = [rp["request"]] if "request" in rp else []
        if "template" in rp:
            os.environ["VERIF_SEED"] = str(rp.get("seed", sd))
            check_templates(res, hbin, d, rp.get("tier", tier), only=rp["template"])
    else:
        check_templates(res, hbin, d, tier)
        n = 300 if tier == "quick" else 6000
        nf = 2 if tier == "quick" else 4
        reqs = base.read_corpus("C06.cases") + base.gen_requests(sd, n, 0, 0, nf, first_tag=1000)
        # every class is exercised on purpose as well (the rarer classes need a directed search for a site)
        per = 8 if tier == "quick" else 100
        for ci, fc in enumerate(FAULT_CLASSES):
            reqs += base.gen_requests(sd + 1000 + ci, per, 0, 0, 2, fwant=fc, first_tag=20000 + ci * 1000,
                                      prefix="c%d_" % ci)
    if not reqs:
        return res.finish()
    bundle_path = os.path.join(d, "bundle.txt")
    t0 = time.time()
    if not base.run_runner(mbin, reqs, bundle_path):
        res.violation("extracted runner failed", {"kind": "build"}, no_failing_input=True)
        return res.finish()
    t_gen = time.time() - t0
    b = base.Bundle(bundle_path)
    t0 = time.time()
    hr, log = base.run_harness(hbin, bundle_path, os.path.join(d, "impl.out"), os.path.join(d, "wd"))
    t_an = time.time() - t0
    if hr is None:
        res.violation("harness c05 run crashed", {"kind": "harness", "log": log[-2000:]}, no_failing_input=True)
        return res.finish()
    impl, libs_errors = hr
    req_of = {}
    for r in reqs:
        req_of[base.parse_request(r)["pid"]] = r
    classes = Counter()
    kinds = Counter()
    known = Counter()
    nviol = 0
    coq_items = []
    lsp_picked = []

    def viol(what, rp, **kw):
        nonlocal nviol
        nviol += 1
        if nviol <= 8:
            res.violation(what, rp, **kw)

    for pid in b.order:
        m = b.meta[pid]
        if "fault" not in m:
            # hypotheses of the theorems of Props/C06.v, decided on every generated program by the extracted reference
            if m.get("fellback") == "true" or m.get("nodup_nids", "true") != "true":
                viol("generated program %s: generator fell back / node ids not pairwise different" % pid,
                     {"kind": "correspondence", "correspondence": "Gen.gen_program / Walk.nodup_nids",
                      "request": req_of[pid.rsplit(".", 1)[0]]}, no_failing_input=True)
            continue
        basepid = pid.rsplit(".", 1)[0]
        o = impl.get(pid)
        fclass, site_desc = m["fault"].split()
        site_kind = m.get("site_kind", "?")
        classes[fclass] += 1
        kinds[site_kind] += 1
        en, ec = m["expect"].split()
        en = int(en)
        texts = b.text_of(pid)
        res.count_case("%s|%s|%s" % (basepid, m["fault"], m["expect"]), True)
        if classes[fclass] <= 1 and len(res.samples) < 6:
            res.add_sample({"pid": pid, "fault": m["fault"], "site_kind": site_kind, "expect": m["expect"]})
        rp = {"kind": "input", "request": req_of[basepid], "pid": pid, "fault": m["fault"], "site_kind": site_kind,
              "expect": m["expect"], "faulty_file": m.get("faulty_file"), "files": texts,
              "replay_cmd": "./check C06 --replay <this file>"}
        # (0) the extracted reference must blame what the theorems say
        if m["expect"] != m["blame"]:
            viol("reference broken: Sem.blame_program (plant ...) = %s but Faults.expect = %s (fault %s)"
                 % (m["blame"], m["expect"], m["fault"]),
                 dict(rp, kind="correspondence", correspondence="Sem.blame_program vs Faults.expect"), no_failing_input=True)
            continue
        if len(coq_items) < (4 if tier == "quick" else 12) and "?" not in m.get("site_coq", "?") and basepid.startswith("g"):
            coq_items.append((base.parse_request(req_of[basepid]), m["site_coq"], en, ec))
        if o is None:
            viol("the harness returned no result for the program", rp, no_failing_input=True)
            continue
        if o["panic"]:
            viol("Project::analyse panics on a program with one planted fault (%s)" % m["fault"], rp)
            continue
        errs = base.errors_of(o)
        site = [x for x in b.sites[pid] if x[0] == en]
        if not site:
            viol("no token position for the node the reference blames (%s)" % m["fault"],
                 dict(rp, kind="correspondence", correspondence="Print.layout site table"), no_failing_input=True)
            continue
        site = site[0]
        rp["site"] = {"file": site[1], "line": site[2], "col": site[3], "len": site[4]}
        rp["diagnostics"] = [base.describe_diag(x) for x in errs][:12]
        cover = [x for x in errs if x["code"] in CLASS_CODES[ec] and covers(x, site)]
        if cover and len(lsp_picked) < (10 if tier == "quick" else 40) and fclass not in [b.meta[q[0]]["fault"].split()[0] for q in lsp_picked[-3:]]:
            lsp_picked.append((pid, site, ec))
        if not cover:
            kf = known_match(fclass, site_kind)
            if kf is not None:
                known[kf["id"]] += 1
            else:
                near = [base.describe_diag(x) for x in errs if x["file"] == site[1]][:3]
                viol("planted fault `%s` (%s) is not reported at its site: no error diagnostic with code in %s covering %s %d:%d+%d; "
                     "errors in that file: %s" % (fclass, site_kind, sorted(CLASS_CODES[ec]), site[1], site[2], site[3], site[4], near), rp)
        # (b) independent units
        dep = dependents(b.units[pid], m.get("faulty_file"))
        for x in errs:
            k = b.units[pid].get(x["file"], (None,))[0]
            if k not in dep:
                viol("error diagnostic in a design unit that does not depend on the faulty unit (fault %s in %s): %s"
                     % (m["fault"], m.get("faulty_file"), base.describe_diag(x)), rp)
                break
    for kid, cnt in sorted(known.items()):
        e = [x for x in known_findings(PROP) if x["id"] == kid][0]
        res.known_finding("%s (%s; %d planted programs in this run)" % (e.get("open", kid), kid, cnt))
    # the same oracle through the language server (plant / undo / plant again)
    if lsp_picked:
        lsp_stage(res, d, b, impl, req_of, lsp_picked, tier)
    # the reference inside Coq on a sample of planted programs
    if coq_items and not replay:
        pre = base.COQ_PRE
        conj = []
        for k, (rq, site, en, ec) in enumerate(coq_items):
            pre += "Definition prog%d := gen_program %s.\n" % (k, base.coq_choices(rq["choices"]))
            conj.append("(match blame_program (plant (%s) prog%d) with Some (n, c) => (n =? %d) && cls_eqb c %s | None => false end)"
                        % (site, k, en, ec))
        v, clog = coq_eval_bool(PROP, "sample", pre, " && ".join(conj), timeout=1200)
        res.coverage["in_coq_vm_compute_planted_programs"] = len(coq_items)
        if v is not True:
            res.violation("extracted reference and in-Coq evaluation (vm_compute) disagree on the blame of sampled planted programs",
                          {"kind": "correspondence", "correspondence": "extraction vs vm_compute (Faults.plant, Sem.blame_program)",
                           "log": clog[-2000:]}, no_failing_input=True)
    if not replay:
        missing = [c for c in FAULT_CLASSES if classes[c] == 0]
        if missing:
            res.violation("no plant site found for fault classes %s in this run" % missing,
                          {"kind": "correspondence", "correspondence": "fault catalogue coverage"}, no_failing_input=True)
    res.coverage.update({
        "programs": sum(classes.values()), "planted_programs": sum(classes.values()), "fault_classes": dict(classes), "site_kinds": dict(kinds),
        "known_findings_hit": dict(known), "vhdl_files": len(b.files), "vhdl_lines": b.nlines(),
        "runner_s": round(t_gen, 1), "analysis_s": round(t_an, 1), "class_to_error_codes": {k: sorted(v) for k, v in CLASS_CODES.items()},
        "exhaustive": False,
        "rule": ("corpus requests first; seed-derived generated programs (see C05) with faults planted at sites drawn uniformly from "
                 "Faults.site_candidates of a class drawn uniformly / of each class in turn, kept when `eligible`; one fault per "
                 "planted program.  distinct by (request, fault site, expected blame); every case is non-trivial"),
        "explanation": ("theorem half (Coq, Props/C06.v): for a Valid program and a site of the catalogue the reference rejects "
                        "the planted program and blames exactly the planted node with the class of the fault; units that do not "
                        "contain the site are unchanged and the units before the faulty one are accepted as before.  exploration "
                        "half (decisive for the implementation): the analyser (not modelled) must report an error of the class at "
                        "that token and none in independent units, on every planted program of the run.  An additional "
                        "exploration-only stream (checks/c06_templates.py; coverage.template_programs / template_plants) of "
                        "hand-written template programs plants undeclared names and wrong-typed literals in every expression "
                        "position of statement forms the MiniVHDL reference does not have (exit/next with label x condition, wait "
                        "on/until/for, assert/report/severity, after/reject, loop bounds, case expressions, conditional and "
                        "selected assignments, generate conditions and ranges, call actuals positional/named/individual) and "
                        "duplicates declarations of every kind in every kind of region (second declaration / second body with "
                        "and without separate declaration / protected body method / ports, generics, fields, literals, "
                        "parameters): outside the theorems, valid-by-inspection bases are analysed too.  LSP stage "
                        "(coverage.lsp_sessions): for some planted programs of the run the fault is planted, undone and planted again by "
                        "didChange against the vhdl_ls binary and the client's last publishDiagnostics must show the error covering "
                        "the token after steps 1 and 3 and none after step 2"),
        "partial": True,
        "trusted_base": TRUSTED_BASE_COMMON + [
            "class -> ErrorCode table (checks/c06.py CLASS_CODES) reviewed against vhdl_lang/src/analysis",
            "dependency relation between design units is read off the text (Faults.unit_deps): library.unit prefixes, entity of an "
            "architecture/configuration, package of a body, architecture named in an instantiation/configuration",
        ],
    })
    res.assumptions = ["range covers the planted token; for a missing association the site is the instantiated unit's name (DESIGN.md 4.0)",
                       "the site of `call matching no overload` is the callee; of a signal/variable mix-up the target"]
    # the run directory is only kept for inspection when something was reported
    if not res.violations:
        for fn in os.listdir(d):
            if fn.startswith(("bundle", "req_", "impl.out")):
                try:
                    os.remove(os.path.join(d, fn))
                except OSError:
                    pass
    return res.finish()
