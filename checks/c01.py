"""C01 — Incremental re-analysis equals from-scratch analysis.

Stages:
  1. Coq: Props/C01.vo (general theorem for clean worlds + small-scope sweep incl. cyclic worlds;
     thorough: Kernel/IncrSweepBig.vo), lint, Print Assumptions.
  2. Oracle (decisive for detection, no hook needed): harness `c01` generates multi-file,
     multi-library projects and edit histories and compares, after every step, diagnostics and
     resolved references of the incrementally updated Project with a Project freshly loaded from
     the current contents (steps with a design-unit name defined in two files are skipped).
  3. Correspondence: the bookkeeping recorded by hook H2 (added/removed, reset set, the three
     dependency maps after reset and after analysis, analysed units, circular flags) is replayed
     on the extracted model (ocaml/c01_run.ml: Incr.apply_batch, Incr.prepare = Reset.reset +
     list of units without result, Incr.analyzed_units, Reset.make_use_of,
     Reset.get_all_affected) and compared per step; a sample of the reset calls is evaluated
     inside Coq (vm_compute) as well.
"""
import json
import os
import subprocess
from vlib.common import *

PROP = "C01"
KINDS = {"entity": 0, "configuration": 1, "package": 2, "package_instance": 3, "context": 4,
         "architecture": 5, "package_body": 6}


class Names:
    """interns library and unit names as small numbers (per history)"""

    def __init__(self):
        self.tab = {}

    def n(self, s):
        if s not in self.tab:
            self.tab[s] = len(self.tab) + 1
        return self.tab[s]

    def uid(self, s):
        lib, kind, prim, sec = s.split("|")
        k = KINDS[kind]
        return "%d:%d:%d:%d" % (self.n(lib), k, self.n(prim), self.n(sec) if k >= 5 else 0)

    def slot(self, s):
        lib, prim, sec = s.split("|")
        return "%d:%d:%d" % (self.n(lib), self.n(prim), -1 if sec == "-" else self.n(sec))

    def lib(self, s):
        return "%d" % self.n(s)


class Model:
    """line-oriented dialogue with the extracted model runner"""

    def __init__(self, path):
        self.p = subprocess.Popen([path], stdin=subprocess.PIPE, stdout=subprocess.PIPE, text=True, bufsize=1)

    def ask(self, line):
        import select
        self.p.stdin.write(line + "\n")
        self.p.stdin.flush()
        r, _, _ = select.select([self.p.stdout], [], [], 120)
        if not r:
            self.p.kill()
            raise RuntimeError("model runner did not answer within 120 s to: " + line[:200])
        return self.p.stdout.readline().rstrip("\n")

    def close(self):
        try:
            self.p.stdin.close()
            self.p.wait(timeout=10)
        except Exception:
            self.p.kill()


def fields(ans):
    out = {}
    for f in ans.split("|"):
        k, _, v = f.partition("=")
        out[k] = set(v.split())
    return out


def enc_pairs(nm, pairs, keyf):
    return " ".join(sorted("%s>%s" % (keyf(k), nm.uid(u)) for k, u in pairs))


def check_model(res, model, rec, stats, sampled, sample_every):
    """Replays the hook trace of one history on the model; returns a list of problem strings."""
    nm = Names()
    probs = []
    model.ask("new")
    prev = None
    for k, t in enumerate(rec.get("trace", [])):
        if prev is not None:
            model.ask("maps|%s|%s|%s" % (enc_pairs(nm, prev["users_of"], nm.uid),
                                         enc_pairs(nm, prev["liball"], nm.lib),
                                         enc_pairs(nm, prev["missing"], nm.slot)))
        removed = " ".join(sorted(nm.uid(u) for u in t["removed"]))
        added = " ".join(sorted(nm.uid(u) for u in t["added"]))
        ans = model.ask("step|%s|%s" % (removed, added))
        if "=" not in ans:
            probs.append("step %d: model runner answered %s" % (k, ans))
            break
        m = fields(ans)
        exp = {
            "added": set(nm.uid(u) for u in t["added"]),
            "removed": set(nm.uid(u) for u in t["removed"]),
            "reset": set(nm.uid(u) for u in t["reset"]),
            "U": set("%s>%s" % (nm.uid(a), nm.uid(b)) for a, b in t["users_of_after_reset"]),
            "L": set("%s>%s" % (nm.lib(a), nm.uid(b)) for a, b in t["liball_after_reset"]),
            "M": set("%s>%s" % (nm.slot(a), nm.uid(b)) for a, b in t["missing_after_reset"]),
            "todo": set(nm.uid(u) for u in t["reanalyzed"]),
            "analyzed": set(nm.uid(u) for u in t["analyzed"]),
        }
        what = {"added": "units added (Library::add_design_unit)", "removed": "units removed (Library::remove_source)",
                "reset": "reset set (all_affected of DesignRoot::reset)", "U": "users_of after reset",
                "L": "users_of_library_all after reset", "M": "missing_unit after reset",
                "todo": "units without analysis result after reset", "analyzed": "return value of DesignRoot::analyze"}
        for key in ("added", "removed", "reset", "U", "L", "M", "todo", "analyzed"):
            if m.get(key, set()) != exp[key]:
                inv = {v: kk for kk, v in nm.tab.items()}
                probs.append("step %d: %s differs: implementation-only %s, model-only %s (names %s)" % (
                    k, what[key], sorted(exp[key] - m.get(key, set()))[:6], sorted(m.get(key, set()) - exp[key])[:6],
                    {v: kk for kk, v in list(nm.tab.items())[:12]}))
        stats["model_steps"] += 1
        if len(t["reset"]) < len(t["units"]) and t["reset"]:
            stats["model_partial_resets"] += 1
        # registrations of this analysis: only by units that were analysed in it, nothing forgotten
        rean = set(t["reanalyzed"])
        for fin, aft, nme in ((t["users_of"], t["users_of_after_reset"], "users_of"),
                              (t["liball"], t["liball_after_reset"], "users_of_library_all"),
                              (t["missing"], t["missing_after_reset"], "missing_unit")):
            fin_s = set(map(tuple, fin))
            aft_s = set(map(tuple, aft))
            if not aft_s <= fin_s:
                probs.append("step %d: %s lost entries during analysis: %s" % (k, nme, sorted(aft_s - fin_s)[:4]))
            bad = [p for p in fin_s - aft_s if p[1] not in rean]
            if bad:
                probs.append("step %d: %s got entries whose user was not analysed in this step: %s" % (k, nme, bad[:4]))
        # cycle verdicts: the units with the circular-dependency flag are exactly the transitive users of
        # the units for which the model's make_use_of finds a cycle in the final users_of
        ans = model.ask("cyc|%s" % enc_pairs(nm, t["users_of"], nm.uid))
        c = fields(ans) if "=" in ans else {"closure": set(["?"]), "cyc": set()}
        present = set(nm.uid(u[0]) for u in t["units"])
        circ_impl = set(nm.uid(u[0]) for u in t["units"] if u[3])
        circ_model = c["closure"] & present
        if circ_impl or circ_model:
            stats["steps_with_cycles"] += 1
        if circ_impl != circ_model:
            probs.append("step %d: circular-dependency flags differ from the model's cycle verdicts: "
                         "implementation-only %s, model-only %s" % (k, sorted(circ_impl - circ_model)[:6],
                                                                    sorted(circ_model - circ_impl)[:6]))
        if bool(t.get("circ_diag_files")) != bool(circ_impl):
            probs.append("step %d: CircularDependency diagnostics %s but circular flags %s" % (
                k, t.get("circ_diag_files"), sorted(circ_impl)))
        model.ask("commit")
        stats["counter"] += 1
        if sample_every and prev is not None and stats["counter"] % sample_every == 0 and len(sampled) < 60 \
                and len(prev["users_of"]) <= 40:
            sampled.append((nm, prev, t, m))
        prev = t
    return probs


def coq_uid(s):
    l, k, p, sn = (int(x) for x in s.split(":"))
    if k < 5:
        pk = ["PEntity", "PConfiguration", "PPackage", "PPackageInstance", "PContext"][k]
        return "(mkUid %d (KPrimary %s %d))" % (l, pk, p)
    return "(mkUid %d (KSecondary %s %d %d))" % (l, "SArchitecture" if k == 5 else "SPackageBody", p, sn)


def coq_slot(s):
    l, p, sn = (int(x) for x in s.split(":"))
    return "(mkSlot %d %d %s)" % (l, p, "None" if sn < 0 else "(Some %d)" % sn)


def coq_cross_check(res, sampled):
    """Evaluate Reset.reset inside Coq (vm_compute) on sampled hook inputs; compare with the extracted runner."""
    if not sampled:
        return
    items = []
    for nm, prev, t, m in sampled:
        U = "; ".join("(%s, %s)" % (coq_uid(nm.uid(a)), coq_uid(nm.uid(b))) for a, b in prev["users_of"])
        L = "; ".join("(%s, %s)" % (nm.lib(a), coq_uid(nm.uid(b))) for a, b in prev["liball"])
        M = "; ".join("(%s, %s)" % (coq_slot(nm.slot(a)), coq_uid(nm.uid(b))) for a, b in prev["missing"])
        ad = "; ".join(coq_uid(nm.uid(u)) for u in t["added"])
        rm = "; ".join(coq_uid(nm.uid(u)) for u in t["removed"])
        allm = "; ".join(coq_uid(u) for u in sorted(m["reset"]))
        Um = "; ".join("(%s, %s)" % tuple(coq_uid(x) for x in p.split(">")) for p in sorted(m["U"]))
        items.append("(mkMaps [%s] [%s] [%s], [%s], [%s], [%s], [%s])" % (U, L, M, ad, rm, allm, Um))
    pre = ("From Coq Require Import List NArith Bool.\nImport ListNotations.\n"
           "From RH Require Import Kernel.World Kernel.Reset.\nOpen Scope N_scope.\n"
           "Definition seteq (a b : list uid) : bool := forallb (fun x => mem_uid x b) a && forallb (fun x => mem_uid x a) b.\n"
           "Definition eseteq (a b : list (uid * uid)) : bool := forallb (fun x => existsb (edge_eqb x) b) a && forallb (fun x => existsb (edge_eqb x) a) b.\n"
           "Definition cases : list (maps * list uid * list uid * list uid * list (uid * uid)) := [\n" + ";\n".join(items) + "].\n")
    body = ("forallb (fun c => match c with (M, ad, rm, al, U) => match reset M ad rm with "
            "Some rr => seteq (rr_all rr) al && eseteq (users_of (rr_maps rr)) U | None => false end end) cases")
    v, log = coq_eval_bool(PROP, "sample", pre, body)
    res.coverage["in_coq_vm_compute_cases"] = len(items)
    if v is not True:
        res.violation("extracted model and in-Coq evaluation (vm_compute) of Reset.reset disagree on sampled inputs",
                      {"kind": "correspondence", "correspondence": "extraction vs vm_compute (RH.Kernel.Reset.reset)",
                       "log": log[-2000:]}, no_failing_input=True)


def history_of(rec):
    return {k: rec[k] for k in ("id", "libraries", "initial", "lints", "numeric_std", "steps") if k in rec}


def nontrivial(rec):
    """a history counts as non-trivial when at some compared step the incremental project kept
    analysis results (reset set smaller than the unit set) while something was re-analysed"""
    for o, t in zip(rec.get("obs", [])[1:], rec.get("trace", [])[1:]):
        if o.get("compared") and t["reset"] and len(t["reanalyzed"]) < len(t["units"]):
            return True
    return False


def main(tier, replay=None):
    res = Result(PROP, tier, level="proof")
    d = rundir(PROP)
    thorough = tier == "thorough"
    proof_stage(res, PROP, thorough=thorough, extra_targets=["Kernel/IncrSweepBig.vo"] if thorough else [])
    ok, log, hbin = harness_build("c01")
    if not ok:
        res.violation("harness build failed against the current /repo tree", {"kind": "build", "log": log[-3000:]},
                      no_failing_input=True)
        return res.finish()
    ok, log, mbin = ocaml_build("c01_run")
    if not ok:
        res.violation("extracted model build failed", {"kind": "build", "log": log[-3000:]}, no_failing_input=True)
        return res.finish()

    stats = {"model_steps": 0, "model_partial_resets": 0, "steps_with_cycles": 0, "counter": 0,
             "histories": 0, "steps": 0, "compared": 0, "skipped_dup": 0, "kinds": {}, "with_lint_diag": 0,
             "with_unmapped": 0, "with_missing_then_added": 0}
    sampled = []
    nviol = [0]

    def stream(tag, args, timeout, sample_every):
        out = os.path.join(d, tag)
        os.makedirs(out, exist_ok=True)
        for f in os.listdir(out):
            if f.startswith("inflight-") or f == "results.jsonl":
                os.remove(os.path.join(out, f))
        cmd = [hbin] + [a.replace("@OUT", out) for a in args]
        rc, txt = run(cmd, timeout=timeout)
        if rc != 0:
            infl = [os.path.join(out, f) for f in os.listdir(out) if f.startswith("inflight-")]
            hist = None
            for f in infl:
                try:
                    hist = json.load(open(f))
                    break
                except Exception:
                    pass
            if rc == 124 and hist is not None:
                res.violation("Project::analyse did not return within the time limit on a generated history "
                              "(analysis hangs)", {"kind": "input", "history": hist,
                                                   "replay_cmd": "./check C01 --replay <this file>"})
            else:
                res.violation("harness c01 failed (rc %d) in stream %s" % (rc, tag),
                              {"kind": "harness", "log": txt[-2000:]}, no_failing_input=True)
            return
        res.coverage.setdefault("streams", {})[tag] = txt.strip().split("\n")[0][:200]
        model = Model(mbin)
        try:
            with open(os.path.join(out, "results.jsonl")) as f:
                for line in f:
                    if not line.strip():
                        continue
                    rec = json.loads(line)
                    stats["histories"] += 1
                    stats["steps"] += len(rec.get("steps", []))
                    for s in rec.get("steps", []):
                        stats["kinds"][s.get("kind", "?")] = stats["kinds"].get(s.get("kind", "?"), 0) + 1
                        stats.setdefault("via", {})[s.get("via", "get") or "get"] = stats.setdefault("via", {}).get(s.get("via", "get") or "get", 0) + 1
                    for o in rec.get("obs", []):
                        if o.get("compared"):
                            stats["compared"] += 1
                        elif o.get("skipped") == "dup":
                            stats["skipped_dup"] += 1
                    if any(o.get("n_diag", 0) for o in rec.get("obs", [])):
                        stats["with_lint_diag"] += 1
                    if any(s.get("kind") == "unmapped" for s in rec.get("steps", [])):
                        stats["with_unmapped"] += 1
                    miss = set()
                    for t in rec.get("trace", []):
                        if any(("|".join(a.split("|")[0:1] + a.split("|")[2:]) in miss) for a in t["added"]):
                            stats["with_missing_then_added"] += 1
                            break
                        miss |= set(k for k, _ in t["missing"])
                    res.count_case(json.dumps(history_of(rec), sort_keys=True), nontrivial(rec))
                    if stats["histories"] % 97 == 1:
                        res.add_sample({"id": rec["id"], "files": sorted(rec["initial"]),
                                        "steps": [(s["file"], s["kind"]) for s in rec["steps"]],
                                        "verdict": rec["verdict"]})
                    if rec["verdict"] != "ok":
                        nviol[0] += 1
                        if nviol[0] <= 8:
                            shr = rec.get("shrunk") or history_of(rec)
                            bad = rec.get("shrunk_bad_step") if rec.get("shrunk") else rec.get("bad_step")
                            diff = rec.get("shrunk_diff") or (rec["obs"][rec["bad_step"]].get("diff")
                                                              if rec.get("bad_step") is not None and rec["bad_step"] < len(rec["obs"]) else None)
                            what = ("incremental analysis differs from a freshly loaded project at step %s "
                                    "(diagnostics / resolved references): %s" % (bad, (diff or [])[:4])
                                    if rec["verdict"] == "mismatch" else
                                    "implementation panicked (%s) at step %s" % (rec.get("panic_side"), rec.get("bad_step")))
                            res.violation(what, {"kind": "input", "history": shr, "bad_step": bad, "diff": diff,
                                                 "original_id": rec["id"], "original_history": history_of(rec),
                                                 "replay_cmd": "./check C01 --replay <this file>"})
                        continue
                    if any(s.get("via") == "libedit" for s in rec.get("steps", [])):
                        # units of std / ieee are filtered out of the hook trace: when their files are edited
                        # the recorded added / removed sets are incomplete, so only the oracle applies
                        stats["libedit_histories"] = stats.get("libedit_histories", 0) + 1
                        continue
                    probs = check_model(res, model, rec, stats, sampled, sample_every)
                    if probs:
                        nviol[0] += 1
                        if nviol[0] <= 8:
                            res.violation("correspondence broken: dependency bookkeeping of the implementation differs "
                                          "from the Coq model (Kernel/Reset.v, Kernel/Incr.v) although the end-to-end "
                                          "observation agrees with a fresh project: " + "; ".join(probs[:3]),
                                          {"kind": "correspondence",
                                           "correspondence": "DesignRoot::reset / analyze / make_use_of vs RH.Kernel.Reset / Incr",
                                           "history": history_of(rec), "problems": probs[:10],
                                           "replay_cmd": "./check C01 --replay <this file>"},
                                          no_failing_input=True)
        finally:
            model.close()

    if replay:
        rp = json.load(open(replay))
        h = rp.get("history", rp)
        path = os.path.join(d, "replay.json")
        json.dump(h, open(path, "w"))
        stream("replay", ["replay", path, "@OUT", "mini"], 600, 1)
        if "Project::from_config" in json.dumps(rp) or rp.get("libs") == "full":
            stream("replay_full", ["replay", path, "@OUT", "full"], 600, 1)
    else:
        corpus = os.path.join(VERIF, "corpus", "C01.jsonl")
        if os.path.exists(corpus):
            stream("corpus", ["corpus", corpus, "@OUT", "8", "mini"], 600, 1)
            stream("corpus_full", ["corpus", corpus, "@OUT", "8", "full"], 600, 0)
        if thorough:
            stream("random", ["run", str(seed()), "3000", "12", "@OUT", "16", "mini"], 2400, 400)
            stream("random_short", ["run", str(seed() + 1000), "1500", "4", "@OUT", "16", "mini"], 1200, 0)
            stream("random_full", ["run", str(seed() + 2000), "200", "8", "@OUT", "16", "full"], 2400, 0)
        else:
            stream("random", ["run", str(seed()), "600", "8", "@OUT", "16", "mini"], 900, 60)
            stream("random_full", ["run", str(seed() + 2000), "24", "5", "@OUT", "16", "full"], 900, 0)
    coq_cross_check(res, sampled)
    res.coverage["exhaustive"] = False
    res.coverage["input_distribution"] = {k: stats[k] for k in (
        "histories", "steps", "compared", "skipped_dup", "kinds", "with_lint_diag", "with_unmapped",
        "with_missing_then_added", "steps_with_cycles", "model_steps", "model_partial_resets")}
    res.coverage["input_distribution"]["update_via"] = stats.get("via", {})
    res.coverage["input_distribution"]["histories_editing_std_or_ieee_files"] = stats.get("libedit_histories", 0)
    res.coverage["rule"] = (
        "corpus of minimised histories first (F2, F3, package-body rule, missing unit appears, use library.all, transitive chains, re-admitted duplicates); "
        "generated projects: 2-3 libraries, 3-6 files, units from a small name pool over 14 dependency shapes (use "
        "item / use all / selected name / use library.all / deferred constant + body in another file / entity + "
        "architecture in another file / entity, component and configuration instantiation / configuration / context "
        "declaration + reference / generic package + instance / same name different kind / mutual dependencies / "
        "unused declarations and sensitivity-list lints / empty / broken text); a quarter of the histories are chain scenarios D <- U <- W <- X where D is what U is missing (use library.all / missing lib.pkg / package body / architecture or entity named in an instantiation, configuration in the chain) and the file of D is filled, emptied, restored, or a 3-unit file copied to a second file (all parked as duplicates) and the original emptied; also one user of the same unit name in two libraries (lib_b.pkg / lib_c.pkg, lib_b.ent(a1) / lib_c.ent(a1)) whose definitions come and go in either order, and `use lib.all` + entity lib.ent(rtl) with in-place edits that only move the architecture (shift steps: comment lines or a filler unit inserted above); appended to every random stream, count/8 histories (generator of their own) in which ONE unit looks up several missing units whose names share library and/or primary name (2-4 architectures of one entity incl. one named like the entity, entity + its architectures, one architecture name for two entities, one entity name in two libraries with architectures a1/a2 of either, packages pk1/pk2 + entity pk1(pk1) in another library, package + body + entity pk(pk)), references in random order, each missing unit in a file of its own that is filled / emptied / replaced / restored in random order; a quarter of all updates reach the project through another Source object than get_source + change (Source::inline / Source::from_latin1_file, path absolute, relative to the current directory, './'-prefixed); histories that edit the files of std / ieee themselves (comment appended, original restored: standard, textio, env, std_logic_1164 + body, numeric_std + body) with users of the special-cased entities (matching operators on arrays of std_ulogic, time / string / boolean, 'image, to_string, textio, env, numeric_std); histories of 1-8 (thorough 1-12) steps: "
        "replace, empty, restore, unmapped file via Source::inline, swap as two steps; after every step diagnostics "
        "(code, file, range, message, related as multiset) and find_all_entity_references of every file vs a freshly "
        "loaded Project; steps whose fresh world has a unit name in two files of one library are skipped, not removed; "
        "std/ieee reduced to std/*.vhd + std_logic_1164 ('mini') except in the *_full streams. "
        "non-trivial = some compared step re-analysed only part of the units; distinct by hash of the history")
    res.coverage["trusted_base"] = TRUSTED_BASE_COMMON + [
        "the analysis of a unit is abstracted as an arbitrary strategy tree over the read API of AnalyzeContext "
        "(get_primary_unit/get_secondary_unit + get_analysis, use_all_in_library, has_package_body): that the real "
        "analysis reads library state only through this API is checked by the end-to-end differential, not proved",
        "sequential model (one worker, world order); the set of libraries is fixed; hash-map iteration order = list order",
        "all-worlds theorem: analyses propagate CircularDependencyError (`?`), i.e. end with has_circular_dependency at the "
        "first read that fails and only then",
        "hook H2 (cfg-guarded additions in analysis/root.rs, project.rs) reports the bookkeeping faithfully",
        "lint function of a family without primary unit reports nothing (lint_ok), read off analyze_architecture / "
        "analyze_package_body which return before declaring anything when the primary unit is missing",
    ]
    res.coverage["partial"] = True
    res.coverage["partial_note"] = (
        "two general theorems: C01_incremental_eq_fresh_partial/_every_step for ARBITRARY analyses over histories "
        "whose worlds have no circular dependencies, and C01_incremental_eq_fresh_all_worlds for ALL worlds (cycles "
        "included) for analyses that propagate a circular-dependency error (both runs compute the static reference "
        "`ref`); for analyses that discard the error equality is false in the sequential model "
        "(C01_discarding_errors_breaks_equality), the one such place in the code (analyze_use_clause on a use clause "
        "that is not a selected name) is left to the oracle and to C04; finite sweep over 1620 worlds (870 cyclic) kept")
    res.assumptions = [
        "comparison is skipped (the step stays in the history) when the fresh project reports a design-unit level "
        "Duplicate whose previous definition is in another file (DESIGN.md 4.0)",
        "file contents are ASCII so that Source::inline and files on disk denote the same text",
        "every update is followed by one analyse(), as in the property statement",
    ]
    return res.finish()
